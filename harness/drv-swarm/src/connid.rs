//! C03: T OS threads allocate connection ids concurrently through the public allocators:
//! `DialOpts::...build().connection_id()` and inbound connections of a Swarm living on that thread.
use std::{
    sync::{Arc, Barrier},
    thread,
};

use libp2p_swarm::dial_opts::DialOpts;
use vcommon::{json, Out};

use crate::conn::{Run, Three};

fn raw(c: libp2p_swarm::ConnectionId) -> u64 {
    c.to_string().parse().expect("numeric connection id")
}

/// one inbound connection on the thread's Swarm; `deny` = index of the behaviour that refuses it at the pending stage
fn inbound(r: &mut Run<Three>, vs: &mut Vec<u64>, deny: Option<usize>) {
    for (b, pb) in r.behs().into_iter().enumerate() {
        let p = vswarm::probe::Plan { deny_pending: deny == Some(b), deny_established: false, extra_addrs: vec![] };
        pb.ctl.with(|ct| ct.incoming_plans.push_back(p));
    }
    r.rig.world.push_event(vswarm::puppet::Ev::Incoming {
        listener: r.rig.ids.listener_of(r.listener).unwrap(),
        local: crate::conn::addr(100),
        send_back: crate::conn::addr(200),
    });
    r.rig.poll_quiescent();
    for e in r.rig.log.drain() {
        if e["e"] == "cbPendingIn" && e["b"] == "b1" {
            let cid = r.rig.ids.conn_of(e["id"].as_i64().unwrap()).unwrap();
            vs.push(raw(cid));
        }
    }
    // fail the upgrade (if it was started) so that the pool does not grow
    let n = r.rig.world.with(|w| w.upgrades.len());
    if n > 0 {
        r.rig.world.complete_upgrade(n - 1, vswarm::puppet::Outcome::Err);
    }
    r.rig.poll_quiescent();
    r.rig.log.drain();
    r.events.clear();
}

pub fn main(a: &vcommon::Args) {
    let threads = a.num(0) as usize;
    let per = a.num(1) as usize;
    let mut out = Out::create(a.get(2));
    // single-threaded phase first (nothing else allocates): inbound connections accepted / denied at the pending
    // stage by each behaviour, interleaved with dial ids
    {
        let mut r: Run<Three> = Run::new(&json!({"concurrency": 2}));
        let mut vs = vec![];
        let addr: libp2p_core::Multiaddr = "/ip4/10.0.1.1/tcp/1".parse().unwrap();
        for i in 0..60usize {
            match i % 4 {
                0 => inbound(&mut r, &mut vs, None),
                2 => inbound(&mut r, &mut vs, Some(i / 4 % 3)),
                _ => vs.push(raw(DialOpts::unknown_peer_id().address(addr.clone()).build().connection_id())),
            }
        }
        out.ev(json!({"t": 1000, "kind": "single-threaded swarm+dialopts", "vs": vs}));
    }
    let barrier = Arc::new(Barrier::new(threads));
    let mut hs = vec![];
    for t in 0..threads {
        let b = barrier.clone();
        hs.push(thread::spawn(move || {
            let mut vs: Vec<u64> = Vec::with_capacity(per);
            // every fourth thread hosts a Swarm and takes ids for inbound connections as well
            let mut run: Option<Run<Three>> = if t % 4 == 3 { Some(Run::new(&json!({"concurrency": 2}))) } else { None };
            b.wait();
            let addr: libp2p_core::Multiaddr = "/ip4/10.0.1.1/tcp/1".parse().unwrap();
            for i in 0..per {
                match (&mut run, i % 8) {
                    (Some(r), k) if k == 0 || k == 4 => {
                        // an inbound connection: the id is taken inside Swarm::poll; every other one is denied
                        // by one of the behaviours at the pending stage (the id is used up all the same)
                        inbound(r, &mut vs, if k == 4 { Some(i / 8 % 3) } else { None });
                    }
                    _ => {
                        let o = DialOpts::unknown_peer_id().address(addr.clone()).build();
                        vs.push(raw(o.connection_id()));
                    }
                }
            }
            (t, vs)
        }));
    }
    let mut total = 0;
    for h in hs {
        let (t, vs) = h.join().expect("thread");
        total += vs.len();
        out.ev(json!({"t": t, "kind": if t % 4 == 3 { "swarm+dialopts" } else { "dialopts" }, "vs": vs}));
    }
    println!("threads={threads} ids={total}");
    out.finish();
}
