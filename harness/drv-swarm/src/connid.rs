//! C03: T OS threads allocate connection ids concurrently through the public allocators:
//! `DialOpts::...build().connection_id()` and inbound connections of a Swarm living on that thread.
use std::{
    sync::{Arc, Barrier},
    thread,
};

use libp2p_swarm::dial_opts::DialOpts;
use vcommon::{json, Out};

use crate::conn::{Run, Three};

fn raw(c: libp2p_swarm::ConnectionId) -> u64 {
    c.to_string().parse().expect("numeric connection id")
}

pub fn main(a: &vcommon::Args) {
    let threads = a.num(0) as usize;
    let per = a.num(1) as usize;
    let mut out = Out::create(a.get(2));
    let barrier = Arc::new(Barrier::new(threads));
    let mut hs = vec![];
    for t in 0..threads {
        let b = barrier.clone();
        hs.push(thread::spawn(move || {
            let mut vs: Vec<u64> = Vec::with_capacity(per);
            // every fourth thread hosts a Swarm and takes ids for inbound connections as well
            let mut run: Option<Run<Three>> = if t % 4 == 3 { Some(Run::new(&json!({"concurrency": 2}))) } else { None };
            b.wait();
            let addr: libp2p_core::Multiaddr = "/ip4/10.0.1.1/tcp/1".parse().unwrap();
            for i in 0..per {
                match (&mut run, i % 8) {
                    (Some(r), 0) => {
                        // an inbound connection: the id is taken inside Swarm::poll
                        r.rig.world.push_event(vswarm::puppet::Ev::Incoming {
                            listener: r.rig.ids.listener_of(r.listener).unwrap(),
                            local: crate::conn::addr(100),
                            send_back: crate::conn::addr(200),
                        });
                        r.rig.poll_quiescent();
                        for e in r.rig.log.drain() {
                            if e["e"] == "cbPendingIn" && e["b"] == "b1" {
                                let cid = r.rig.ids.conn_of(e["id"].as_i64().unwrap()).unwrap();
                                vs.push(raw(cid));
                            }
                        }
                        // fail the upgrade so that the pool does not grow
                        let n = r.rig.world.with(|w| w.upgrades.len());
                        r.rig.world.complete_upgrade(n - 1, vswarm::puppet::Outcome::Err);
                        r.rig.poll_quiescent();
                        r.rig.log.drain();
                    }
                    _ => {
                        let o = DialOpts::unknown_peer_id().address(addr.clone()).build();
                        vs.push(raw(o.connection_id()));
                    }
                }
            }
            (t, vs)
        }));
    }
    let mut total = 0;
    for h in hs {
        let (t, vs) = h.join().expect("thread");
        total += vs.len();
        out.ev(json!({"t": t, "kind": if t % 4 == 3 { "swarm+dialopts" } else { "dialopts" }, "vs": vs}));
    }
    println!("threads={threads} ids={total}");
    out.finish();
}
