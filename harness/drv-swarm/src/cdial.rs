//! C08: concurrent dialing. One dial over N distinct addresses with concurrency factor k on a
//! fresh real Swarm; the schedule resolves the puppet dial futures in a given order with given
//! outcomes, with or without polling in between; after every command the set of started /
//! in-flight attempts is sampled.
//! schedule: {"n":N, "k":K, "override":bool, "steps":[{"slot":i,"ok":bool,"poll":bool}..]}
use rand::Rng;
use vcommon::{json, Out, Value};

use crate::conn::Run;

fn sample(run: &Run, n: usize) -> Value {
    run.rig.world.with(|w| {
        let started: Vec<usize> = (0..n.min(w.dials.len())).filter(|i| w.dials[*i].started).collect();
        let inflight: Vec<usize> = (0..n.min(w.dials.len())).filter(|i| w.dials[*i].started && !w.dials[*i].done && !w.dials[*i].dropped).collect();
        json!({"e": "sample", "started": started, "inflight": inflight, "ncalls": w.dials.len()})
    })
}

fn addr_idx(s: &str) -> i64 {
    let base = s.split("/p2p/").next().unwrap();
    base.strip_prefix("/ip4/10.0.1.").and_then(|r| r.strip_suffix("/tcp/4001")).and_then(|x| x.parse::<i64>().ok()).map(|a| a - 10).unwrap_or(-1)
}

pub fn run_one(out: &mut Out, s: &Value) {
    let n = vcommon::n(s, "n") as usize;
    let k = vcommon::n(s, "k") as u64;
    let ovr = s.get("override").and_then(|x| x.as_bool()).unwrap_or(false);
    let smart = s.get("smart").and_then(|x| x.as_bool()).unwrap_or(false);
    let cfg = if smart { json!({"concurrency": 8, "smart": true}) } else if ovr { json!({"concurrency": 8}) } else { json!({"concurrency": k}) };
    let mut run: Run = Run::new(&cfg);
    let addrs: Vec<i64> = (0..n as i64).map(|i| 10 + i).collect();
    let mut d = json!({"c": "dial", "peer": 1, "cond": "Always", "addrs": addrs});
    if s.get("behdup").and_then(|x| x.as_bool()).unwrap_or(false) {
        // the behaviour contributes addresses that are already in the list (and one duplicate pair of its own):
        // every distinct address must still be handed to the transport exactly once
        d["beh_addrs"] = json!([[10, 10 + (n as i64 - 1)], [10], []]);
        d["extend"] = json!(true);
    }
    if ovr && !smart {
        d["factor"] = json!(k);
        d["factor_first"] = json!(s.get("ofirst").and_then(|x| x.as_bool()).unwrap_or(false));
    }
    run.exec(&d);
    let mut evs: Vec<Value> = vec![];
    let dial_ev = run.events.iter().find(|e| e["e"] == "dial").unwrap().clone();
    let dialed: Vec<i64> = dial_ev["dialed"].as_array().unwrap().iter().map(|x| addr_idx(x.as_str().unwrap())).collect();
    evs.push(json!({"e": "cdial", "n": n, "k": k, "res": dial_ev["res"], "dialed": dialed}));
    run.exec(&json!({"c": "poll"}));
    evs.push(sample(&run, n));
    let take_final = |run: &mut Run, evs: &mut Vec<Value>| {
        for e in run.events.drain(..) {
            if e["e"] == "swarmEvent" && e["kind"] == "est" {
                let errs: Vec<i64> = e["dial_errors"].as_array().unwrap().iter().map(|x| addr_idx(x.as_str().unwrap())).collect();
                evs.push(json!({"e": "result", "ok": true, "addr": addr_idx(e["addr"].as_str().unwrap()), "errors": errs}));
            } else if e["e"] == "swarmEvent" && e["kind"] == "outErr" {
                let errs: Vec<i64> = e["addrs"].as_array().unwrap().iter().map(|x| addr_idx(x.as_str().unwrap())).collect();
                evs.push(json!({"e": "result", "ok": false, "addr": -1, "errors": errs, "err": e["err"]}));
            } else if e["e"] == "panic" {
                evs.push(e);
            }
        }
    };
    take_final(&mut run, &mut evs);
    for st in s["steps"].as_array().unwrap() {
        let slot = vcommon::n(st, "slot") as usize;
        let ok = vcommon::b(st, "ok");
        run.exec(&json!({"c": "envDial", "n": slot, "ok": ok, "who": 1}));
        let applied = run.events.iter().rev().find(|e| e["e"] == "envDial").map(|e| e["applied"].as_bool().unwrap()).unwrap_or(false);
        let started = run.rig.world.with(|w| w.dials.get(slot).map(|d| d.started).unwrap_or(false));
        evs.push(json!({"e": "complete", "slot": slot, "ok": ok, "applied": applied, "was_started": started}));
        if let Some(ms) = st.get("sleep").and_then(|x| x.as_u64()) {
            std::thread::sleep(std::time::Duration::from_millis(ms));
        }
        if vcommon::b(st, "poll") {
            run.exec(&json!({"c": "poll"}));
            take_final(&mut run, &mut evs);
            evs.push(sample(&run, n));
        }
    }
    // resolve the rest (fail) and finish
    if smart {
        std::thread::sleep(std::time::Duration::from_millis(150));
    }
    run.exec(&json!({"c": "poll"}));
    take_final(&mut run, &mut evs);
    evs.push(sample(&run, n));
    for _ in 0..(n + 1) {
        let open: Vec<usize> = run.rig.world.with(|w| (0..n.min(w.dials.len())).filter(|i| w.dials[*i].started && !w.dials[*i].done && !w.dials[*i].dropped && w.dials[*i].outcome.is_none()).collect());
        if open.is_empty() {
            let unstarted = run.rig.world.with(|w| (0..n.min(w.dials.len())).any(|i| !w.dials[i].started && !w.dials[i].dropped && !w.dials[i].done));
            if smart && unstarted {
                std::thread::sleep(std::time::Duration::from_millis(150));
                run.exec(&json!({"c": "poll"}));
                take_final(&mut run, &mut evs);
                evs.push(sample(&run, n));
                continue;
            }
            break;
        }
        for slot in open {
            run.exec(&json!({"c": "envDial", "n": slot, "ok": false, "who": 1}));
            evs.push(json!({"e": "complete", "slot": slot, "ok": false, "applied": true, "was_started": true}));
            run.exec(&json!({"c": "poll"}));
            take_final(&mut run, &mut evs);
            evs.push(sample(&run, n));
        }
    }
    evs.push(json!({"e": "end"}));
    out.reset_with(json!({"n": n, "k": k}), s);
    for e in evs {
        out.ev(e);
    }
}

pub fn main(a: &vcommon::Args) {
    vcommon::quiet_panics();
    match a.get(0) {
        "replay" => {
            let scheds = vcommon::read_schedules(a.get(1));
            let mut out = Out::create(a.get(2));
            for s in &scheds {
                run_one(&mut out, s);
            }
            println!("runs={} events={}", out.run, out.events);
            out.finish();
        }
        // every (N<=nmax, K<=3), every completion order/outcome pattern where each step completes one
        // currently open started slot (or, with small probability in random mode, a not yet started one)
        "random" => {
            let seed = a.num(1);
            let runs = a.num(2);
            let mut out = Out::create(a.get(3));
            let nmax = a.kv_num("nmax", 4) as usize;
            let mut nsmart = a.kv_num("smart", 0);
            let mut r = vcommon::rng(seed);
            for _ in 0..runs {
                let n = r.gen_range(1..=nmax);
                let k = r.gen_range(1..=3);
                let mut steps = vec![];
                let mut slots: Vec<usize> = (0..n).collect();
                // a random permutation prefix: completing in arbitrary order (also not-yet-started slots)
                for i in (1..slots.len()).rev() {
                    let j = r.gen_range(0..=i);
                    slots.swap(i, j);
                }
                let okp = [0.0, 0.2, 0.5][r.gen_range(0..3)];
                for sl in slots {
                    steps.push(json!({"slot": sl, "ok": r.gen_bool(okp), "poll": r.gen_bool(0.7)}));
                }
                let mut s = json!({"n": n, "k": k, "override": r.gen_bool(0.5), "ofirst": r.gen_bool(0.5), "steps": steps, "behdup": r.gen_bool(0.25)});
                if nsmart > 0 {
                    // smart dialing: staggered real-time delays (30 ms steps for private TCP addresses); no factor
                    nsmart -= 1;
                    s["smart"] = json!(true);
                    s["k"] = json!(n);
                    for st in s["steps"].as_array_mut().unwrap() {
                        st["sleep"] = json!(r.gen_range(0..=45));
                    }
                }
                run_one(&mut out, &s);
            }
            println!("runs={} events={}", out.run, out.events);
            out.finish();
        }
        m => panic!("cdial mode {m}"),
    }
}
