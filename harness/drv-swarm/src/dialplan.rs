//! C04: grid over (condition, connected?, dialing?, explicit address list, behaviour address list,
//! extend flag). For each point a fresh real Swarm is brought into that state, `Swarm::dial` is
//! called once, and the record (result, transport dials, DialFailure callbacks, pending counter) is
//! written for the TLA+ relation RelDialPlan.
use vcommon::{json, Out, Value};

use crate::conn::Run;

fn lists(alpha: &[i64], maxlen: usize) -> Vec<Vec<i64>> {
    let mut all = vec![vec![]];
    let mut frontier: Vec<Vec<i64>> = vec![vec![]];
    for _ in 0..maxlen {
        let mut next = vec![];
        for s in &frontier {
            for a in alpha {
                let mut t = s.clone();
                t.push(*a);
                next.push(t);
            }
        }
        all.extend(next.iter().cloned());
        frontier = next;
    }
    all
}

/// abstract a dialed multiaddr string back to (int, has /p2p/<peer> suffix of peer index)
fn abs_addr(s: &str, run: &Run) -> (i64, i64) {
    let parts: Vec<&str> = s.split("/p2p/").collect();
    let base = parts[0];
    let a = if base == "/ip4/10.0.0.100/tcp/1" {
        100
    } else {
        base.strip_prefix("/ip4/10.0.1.").and_then(|r| r.strip_suffix("/tcp/4001")).and_then(|n| n.parse().ok()).unwrap_or(-1)
    };
    let p = if parts.len() == 2 {
        (0..run.rig.ids.npeers()).find(|i| run.rig.ids.peer_id(*i).to_string() == parts[1]).map(|i| i as i64).unwrap_or(-2)
    } else {
        -1
    };
    (a, p)
}

pub fn one(out: &mut Out, cond: &str, connected: bool, dialing: bool, opts: &[i64], beh: &[i64], extend: bool, peer: i64, role_override: bool, aborted: bool) {
    let cfg = json!({"concurrency": 8});
    let mut run: Run = Run::new(&cfg);
    if peer >= 0 {
        if connected {
            run.exec(&json!({"c": "dial", "peer": peer, "cond": "Always", "addrs": [7]}));
            run.exec(&json!({"c": "envDial", "n": 0, "ok": true, "who": peer}));
            run.exec(&json!({"c": "poll"}));
        }
        if dialing {
            // the pending dial that makes the peer "being dialed" may be a plain dial or a hole-punch style dial with a role override
            run.exec(&json!({"c": "dial", "peer": peer, "cond": "Always", "addrs": [8], "role_override": role_override}));
            run.exec(&json!({"c": "poll"}));
            if aborted {
                // the pending dial was aborted (disconnect_peer_id) but the Swarm has not been polled since: its outcome has
                // not been reported, the pending counter still counts it - the peer is still being dialed
                run.exec(&json!({"c": "disconnect", "peer": peer}));
            }
        }
    }
    let snap0 = run.rig.snap();
    run.events.clear();
    let addrs: Vec<i64> = if peer < 0 { vec![opts.first().copied().unwrap_or(1)] } else { opts.to_vec() };
    run.exec(&json!({"c": "dial", "peer": peer, "cond": cond, "addrs": addrs, "beh_addrs": beh, "extend": extend}));
    let ev = run.events.clone();
    let d = ev.iter().find(|e| e["e"] == "dial").unwrap();
    let nfail = ev.iter().filter(|e| e["e"] == "cbDialFailure" && e["b"] == "b1").count();
    let fail_kinds: Vec<Value> = ev.iter().filter(|e| e["e"] == "cbDialFailure" && e["b"] == "b1").map(|e| e["kind"].clone()).collect();
    let snap1 = ev.iter().rev().find(|e| e["e"] == "snap").unwrap();
    let dialed: Vec<Value> = d["dialed"].as_array().unwrap().iter().map(|s| {
        let (a, p) = abs_addr(s.as_str().unwrap(), &run);
        json!([a, p])
    }).collect();
    out.ev(json!({"cond": cond, "connected": connected, "dialing": dialing, "opts": addrs, "beh": beh, "extend": extend, "peer": peer,
        "res": d["res"], "dialed": dialed, "nfail": nfail, "fail_kinds": fail_kinds,
        "role_override": role_override, "aborted": aborted, "po0": snap0["po"], "po1": snap1["po"], "is_connected": snap0["is_connected"][peer.max(0) as usize], "listen": 100}));
}

pub fn main(a: &vcommon::Args) {
    vcommon::quiet_panics();
    let maxlen = a.num(0) as usize;
    let mut out = Out::create(a.get(1));
    let conds = ["Always", "Disconnected", "NotDialing", "DisconnectedAndNotDialing"];
    let ol = lists(&[1, 2, 100], maxlen);
    let bl = lists(&[2, 3, 100], maxlen.min(2));
    for cond in conds {
        for connected in [false, true] {
            for dialing in [false, true] {
                for o in &ol {
                    for b in &bl {
                        for extend in [false, true] {
                            one(&mut out, cond, connected, dialing, o, b, extend, 1, false, false);
                            if dialing && o.len() <= 1 && b.len() <= 1 {
                                one(&mut out, cond, connected, dialing, o, b, extend, 1, true, false);
                                if !connected {
                                    one(&mut out, cond, connected, dialing, o, b, extend, 1, false, true);
                                }
                            }
                        }
                    }
                }
            }
        }
    }
    // dials without a peer id: always dial, no /p2p suffix
    for o in [1i64, 2, 100] {
        for cond in conds {
            one(&mut out, cond, false, false, &[o], &[], false, -1, false, false);
        }
    }
    println!("records={}", out.events);
    out.finish();
}
