//! Driver for the Swarm / connection pool: connection lifecycle (C01, C02, C05, C06, C58), ...
mod conn;
mod cdial;
mod dialplan;
mod addrbook;
mod guard;
mod derive;
mod connid;
mod keepalive;
mod notify;
mod pairs;
mod proto;

fn main() {
    let a = vcommon::Args::parse();
    match a.mode.as_str() {
        "conn" => conn::main(&a),
        "dialplan" => dialplan::main(&a),
        "cdial" => cdial::main(&a),
        "notify" => notify::main(&a),
        "pairs" => pairs::main(&a),
        "keepalive" => keepalive::main(&a),
        "connid" => connid::main(&a),
        "derive" => derive::main(&a),
        "guard" => guard::main(&a),
        "addr" => addrbook::main(&a),
        "proto" => proto::main(&a),
        m => {
            eprintln!("unknown mode {m}");
            std::process::exit(2)
        }
    }
}
