//! Connection lifecycle driver: one real Swarm over a PuppetTransport with a derived behaviour of
//! three ProbeBehaviours. Commands come from a schedule (replay) or a seeded online generator.
use libp2p_core::Multiaddr;
use libp2p_swarm::{
    behaviour::ToSwarm,
    dial_opts::{DialOpts, PeerCondition},
    CloseConnection, NetworkBehaviour,
};
use rand::{rngs::StdRng, Rng};
use vcommon::{json, Out, Value};
use vswarm::{
    ids::{Ids, Log},
    probe::{Plan, ProbeBehaviour},
    puppet::{Ev, Outcome},
    rig::{make_ids, Rig, RigCfg},
};

#[derive(NetworkBehaviour)]
#[behaviour(prelude = "libp2p_swarm::derive_prelude")]
pub struct Three {
    pub b1: ProbeBehaviour,
    /// the second field is wrapped in an (enabled) Toggle: its denials and events must pass through unchanged
    pub b2: libp2p_swarm::behaviour::toggle::Toggle<ProbeBehaviour>,
    pub b3: ProbeBehaviour,
}

pub fn addr(a: i64) -> Multiaddr {
    if a >= 1000 {
        return format!("/memory/{a}").parse().unwrap();
    }
    if a == 100 {
        "/ip4/10.0.0.100/tcp/1".parse().unwrap()
    } else {
        format!("/ip4/10.0.1.{a}/tcp/4001").parse().unwrap()
    }
}

pub fn abs_addr_int(s: &str) -> i64 {
    let base = s.split("/p2p/").next().unwrap();
    if let Some(m) = base.strip_prefix("/memory/") {
        return m.parse().unwrap_or(-1);
    }
    if base == "/ip4/10.0.0.100/tcp/1" {
        100
    } else {
        base.strip_prefix("/ip4/10.0.1.").and_then(|r| r.strip_suffix("/tcp/4001")).and_then(|n| n.parse().ok()).unwrap_or(-1)
    }
}

fn cond(s: &str) -> PeerCondition {
    match s {
        "Always" => PeerCondition::Always,
        "Disconnected" => PeerCondition::Disconnected,
        "NotDialing" => PeerCondition::NotDialing,
        "DisconnectedAndNotDialing" => PeerCondition::DisconnectedAndNotDialing,
        x => panic!("cond {x}"),
    }
}

fn plan_of(v: &Value, i: usize) -> Plan {
    let p = v.get("plan").and_then(|p| p.get(i));
    Plan {
        deny_pending: p.and_then(|p| p.get(0)).and_then(|b| b.as_bool()).unwrap_or(false),
        deny_established: p.and_then(|p| p.get(1)).and_then(|b| b.as_bool()).unwrap_or(false),
        extra_addrs: match v.get("beh_addrs").and_then(|a| a.as_array()) {
            // per-field lists [[..],[..],[..]]
            Some(a) if a.first().map(|x| x.is_array()).unwrap_or(false) => {
                a.get(i).and_then(|l| l.as_array()).map(|l| l.iter().map(|x| addr(x.as_i64().unwrap())).collect()).unwrap_or_default()
            }
            // one list: returned by the first field only
            Some(a) if i == 0 => a.iter().map(|x| addr(x.as_i64().unwrap())).collect(),
            _ => vec![],
        },
    }
}

/// A behaviour under test that contains probe behaviours (first probe = "b1").
pub trait Suite: NetworkBehaviour + Sized {
    fn build(ids: &Ids, log: &Log, cfg: &Value) -> Self;
    fn probes(&self) -> Vec<&ProbeBehaviour>;
    /// behaviour-specific commands (e.g. block / unblock); returns the event to log
    fn control(&mut self, _ids: &Ids, _cmd: &Value) -> Option<Value> {
        None
    }
}

impl Suite for Three {
    fn build(ids: &Ids, log: &Log, _cfg: &Value) -> Self {
        Three {
            b1: ProbeBehaviour::new("b1", ids.clone(), log.clone()),
            b2: Some(ProbeBehaviour::new("b2", ids.clone(), log.clone())).into(),
            b3: ProbeBehaviour::new("b3", ids.clone(), log.clone()),
        }
    }
    fn probes(&self) -> Vec<&ProbeBehaviour> {
        vec![&self.b1, self.b2.as_ref().expect("toggle enabled"), &self.b3]
    }
}

pub struct Run<B: Suite = Three>
where
    B::ToSwarm: std::fmt::Debug,
{
    pub rig: Rig<B>,
    /// connection (abstract id) of each transport dial slot
    pub slot_conn: Vec<i64>,
    /// connection of each incoming upgrade (filled when b1 sees cbPendingIn)
    pub upg_conn: Vec<i64>,
    pub used: Vec<i64>,
    /// events of this run (drained from the shared log after every command)
    pub events: Vec<Value>,
    pub listener: i64,
    pub seq: i64,
    /// generator bias: most traffic goes to this peer (0 = no bias)
    pub bias_peer: i64,
    /// the random generator may let behaviour b1 request dials (ToSwarm::Dial)
    pub beh_dials: bool,
}

impl<B: Suite> Run<B>
where
    B::ToSwarm: std::fmt::Debug,
{
    pub fn new(cfg: &Value) -> Run<B> {
        let rc = RigCfg {
            manual_exec: cfg.get("manual").and_then(|x| x.as_bool()).unwrap_or(false),
            npeers: 4,
            dial_concurrency: cfg.get("concurrency").and_then(|x| x.as_u64()).unwrap_or(8) as u8,
            idle_timeout_ms: cfg.get("idle_ms").and_then(|x| x.as_u64()).unwrap_or(0),
            notify_buffer: cfg.get("notify_buffer").and_then(|x| x.as_u64()).unwrap_or(8) as usize,
            per_conn_event_buffer: 7,
            smart_dial: cfg.get("smart").and_then(|x| x.as_bool()).unwrap_or(false),
        };
        let ids: Ids = make_ids(rc.npeers);
        let log = Log::default();
        let b = B::build(&ids, &log, cfg);
        for p in b.probes() {
            p.ctl.with(|c| c.handler_keep_alive = true);
        }
        let mut rig = Rig::new(&rc, ids, log, b);
        rig.world.with(|w| w.close_needed = cfg.get("close_polls").and_then(|x| x.as_u64()).unwrap_or(1) as usize);
        // one listener with one address
        let lid = rig.swarm.listen_on(addr(100)).expect("listen_on");
        let listener = rig.ids.listener(lid);
        rig.world.push_event(Ev::NewAddress(lid, addr(100)));
        rig.poll_quiescent();
        rig.log.drain();
        Run { rig, slot_conn: vec![], upg_conn: vec![], used: vec![], events: vec![], listener, seq: 0, bias_peer: 0, beh_dials: false }
    }

    pub fn from_rig(rig: Rig<B>, listener: i64) -> Run<B> {
        Run { rig, slot_conn: vec![], upg_conn: vec![], used: vec![], events: vec![], listener, seq: 0, bias_peer: 0, beh_dials: false }
    }

    fn flush(&mut self) {
        let evs = self.rig.log.drain();
        for e in &evs {
            if e["e"] == "cbPendingIn" && e["b"] == "b1" {
                let id = e["id"].as_i64().unwrap();
                self.upg_conn.push(id);
                self.used.push(id);
            }
        }
        self.events.extend(evs);
    }

    pub fn behs(&self) -> Vec<&ProbeBehaviour> {
        self.rig.swarm.behaviour().probes()
    }

    /// execute one command; appends its events (cmd event, callbacks, swarm events, snap)
    pub fn exec(&mut self, c: &Value) {
        let name = vcommon::s(c, "c");
        match name.as_str() {
            "dial" => {
                let peer = vcommon::n(c, "peer");
                let addrs: Vec<i64> = c["addrs"].as_array().unwrap().iter().map(|x| x.as_i64().unwrap()).collect();
                let mas: Vec<Multiaddr> = addrs.iter().map(|a| addr(*a)).collect();
                let mut b = if peer >= 0 {
                    let factor_first = c.get("factor_first").and_then(|x| x.as_bool()).unwrap_or(false);
                    let mut o = match c.get("factor").and_then(|x| x.as_u64()) {
                        // the override given before the address list (autonat's v1 server builds its dial-backs this way)
                        Some(k) if factor_first => DialOpts::peer_id(self.rig.ids.peer_id(peer as usize))
                            .override_dial_concurrency_factor(std::num::NonZeroU8::new(k as u8).unwrap())
                            .condition(cond(&vcommon::s(c, "cond")))
                            .addresses(mas),
                        _ => DialOpts::peer_id(self.rig.ids.peer_id(peer as usize)).condition(cond(&vcommon::s(c, "cond"))).addresses(mas),
                    };
                    if c.get("extend").and_then(|x| x.as_bool()).unwrap_or(false) {
                        o = o.extend_addresses_through_behaviour();
                    }
                    if c.get("role_override").and_then(|x| x.as_bool()).unwrap_or(false) {
                        o = o.override_role();
                    }
                    if let (Some(k), false) = (c.get("factor").and_then(|x| x.as_u64()), factor_first) {
                        o = o.override_dial_concurrency_factor(std::num::NonZeroU8::new(k as u8).unwrap());
                    }
                    o.build()
                } else {
                    DialOpts::unknown_peer_id().address(mas[0].clone()).build()
                };
                let cid = b.connection_id();
                let id = self.rig.ids.conn(cid);
                self.used.push(id);
                for (i, pb) in self.behs().iter().enumerate() {
                    let p = plan_of(c, i);
                    pb.ctl.with(|ct| {
                        ct.plans.insert(cid, p);
                    });
                }
                let before = self.rig.world.with(|w| w.dials.len());
                let mark = self.rig.log.len();
                let _ = &mut b;
                let res = vcommon::guard(|| self.rig.swarm.dial(b));
                let after = self.rig.world.with(|w| w.dials.len());
                let dialed: Vec<String> = self.rig.world.with(|w| w.dials[before..after].iter().map(|s| s.addr.to_string()).collect());
                for _ in before..after {
                    self.slot_conn.push(id);
                }
                // callbacks seen inside the call
                let inner = self.rig.log.drain();
                let _ = mark;
                let cbs: Vec<Value> = inner.clone();
                let r = match &res {
                    Ok(Ok(())) => "ok".to_string(),
                    Ok(Err(e)) => vswarm::probe::dial_error_kind(e).to_string(),
                    Err(m) => format!("panic:{m}"),
                };
                let dialed_abs: Vec<i64> = dialed.iter().map(|s| abs_addr_int(s)).collect();
                self.events.push(json!({"e": "dial", "id": id, "peer": peer, "cond": c.get("cond").cloned().unwrap_or(json!("Always")),
                    "addrs": addrs, "res": r, "slots": (before..after).collect::<Vec<_>>(), "dialed": dialed, "ncbs": cbs.len(),
                    "extend": c.get("extend").and_then(|x| x.as_bool()).unwrap_or(false), "beh_addrs": c.get("beh_addrs").cloned().unwrap_or(json!([])),
                    "dialed_abs": dialed_abs}));
                self.events.extend(cbs);
                self.events.push(json!({"e": "dialRet", "id": id, "res": r}));
            }
            // behaviour b1 asks the Swarm to dial (ToSwarm::Dial); the Swarm is polled (one poll_next at a time) until it
            // has taken the command, so that the transport dial slots created for it can be attributed to its id
            "behDial" => {
                let peer = vcommon::n(c, "peer");
                let addrs: Vec<i64> = c["addrs"].as_array().unwrap().iter().map(|x| x.as_i64().unwrap()).collect();
                let mas: Vec<Multiaddr> = addrs.iter().map(|a| addr(*a)).collect();
                let opts = DialOpts::peer_id(self.rig.ids.peer_id(peer as usize)).condition(cond(&vcommon::s(c, "cond"))).addresses(mas).build();
                let cid = opts.connection_id();
                let id = self.rig.ids.conn(cid);
                self.used.push(id);
                for (i, pb) in self.behs().iter().enumerate() {
                    let p = plan_of(c, i);
                    pb.ctl.with(|ct| {
                        ct.plans.insert(cid, p);
                    });
                }
                let before = self.rig.world.with(|w| w.dials.len());
                self.events.push(json!({"e": "behDial", "id": id, "peer": peer, "cond": c.get("cond").cloned().unwrap_or(json!("Always")), "addrs": addrs}));
                self.behs()[0].ctl.emit(ToSwarm::Dial { opts });
                let r = vcommon::guard(|| {
                    for _ in 0..200 {
                        if self.behs()[0].ctl.with(|ct| ct.commands.is_empty()) {
                            break;
                        }
                        self.rig.poll_raw();
                    }
                });
                let after = self.rig.world.with(|w| w.dials.len());
                for _ in before..after {
                    self.slot_conn.push(id);
                }
                self.flush();
                if let Err(m) = r {
                    self.events.push(json!({"e": "panic", "msg": m}));
                }
            }
            "incoming" => {
                for (i, pb) in self.behs().iter().enumerate() {
                    let p = plan_of(c, i);
                    pb.ctl.with(|ct| ct.incoming_plans.push_back(p));
                }
                let lid = self.rig.ids.listener_of(self.listener).unwrap();
                let u = self.rig.world.with(|w| w.upgrades.len() + w.events.iter().filter(|e| matches!(e, Ev::Incoming { .. })).count());
                self.rig.world.push_event(Ev::Incoming { listener: lid, local: addr(100), send_back: addr(200 + u as i64) });
                self.events.push(json!({"e": "envIncoming", "u": u}));
            }
            "envDial" => {
                let n = vcommon::n(c, "n") as usize;
                let ok = vcommon::b(c, "ok");
                let who = vcommon::n(c, "who");
                let o = if ok { Outcome::Ok(self.rig.ids.peer_id(who as usize)) } else { Outcome::Err };
                let applied = self.rig.world.complete_dial(n, o);
                let id = self.slot_conn.get(n).copied().unwrap_or(-1);
                self.events.push(json!({"e": "envDial", "n": n, "id": id, "ok": ok, "who": who, "applied": applied}));
            }
            "envUpgrade" => {
                let u = vcommon::n(c, "u") as usize;
                let ok = vcommon::b(c, "ok");
                let who = vcommon::n(c, "who");
                let o = if ok { Outcome::Ok(self.rig.ids.peer_id(who as usize)) } else { Outcome::Err };
                let applied = self.rig.world.complete_upgrade(u, o);
                let id = self.upg_conn.get(u).copied().unwrap_or(-1);
                self.events.push(json!({"e": "envUpgrade", "u": u, "id": id, "ok": ok, "who": who, "applied": applied}));
            }
            "envConn" => {
                // resolve the (first open) transport attempt of connection `id`, whichever direction
                let id = vcommon::n(c, "id");
                let ok = vcommon::b(c, "ok");
                let who = vcommon::n(c, "who");
                let slot = self.rig.world.with(|w| {
                    (0..w.dials.len()).find(|n| self.slot_conn.get(*n) == Some(&id) && !w.dials[*n].done && !w.dials[*n].dropped && w.dials[*n].outcome.is_none())
                });
                let upg = self.rig.world.with(|w| {
                    (0..w.upgrades.len()).find(|u| self.upg_conn.get(*u) == Some(&id) && !w.upgrades[*u].done && !w.upgrades[*u].dropped && w.upgrades[*u].outcome.is_none())
                });
                if let Some(n) = slot {
                    return self.exec(&json!({"c": "envDial", "n": n, "ok": ok, "who": who}));
                } else if let Some(u) = upg {
                    return self.exec(&json!({"c": "envUpgrade", "u": u, "ok": ok, "who": who}));
                }
                self.events.push(json!({"e": "envDial", "n": -1, "id": id, "ok": ok, "who": who, "applied": false}));
            }
            "failMux" => {
                let id = vcommon::n(c, "id");
                let m = self.muxer_of(id);
                let applied = m.map(|m| self.rig.world.fail_muxer(m)).unwrap_or(false);
                self.events.push(json!({"e": "failMux", "id": id, "applied": applied}));
            }
            "close" => {
                let id = vcommon::n(c, "id");
                let res = self.rig.ids.conn_of(id).map(|cid| self.rig.swarm.close_connection(cid)).unwrap_or(false);
                self.events.push(json!({"e": "close", "id": id, "res": res}));
            }
            "disconnect" => {
                let p = vcommon::n(c, "peer");
                let res = self.rig.swarm.disconnect_peer_id(self.rig.ids.peer_id(p as usize)).is_ok();
                self.events.push(json!({"e": "disconnect", "peer": p, "res": res}));
            }
            "behClose" => {
                let id = vcommon::n(c, "id");
                if let Some(cid) = self.rig.ids.conn_of(id) {
                    // peer is looked up lazily: CloseConnection::One ignores it
                    let peer = self.rig.ids.peer_id(1);
                    self.behs()[0].ctl.emit(ToSwarm::CloseConnection { peer_id: peer, connection: CloseConnection::One(cid) });
                }
                self.events.push(json!({"e": "behClose", "id": id}));
            }
            "behCloseAll" => {
                let p = vcommon::n(c, "peer");
                self.behs()[0].ctl.emit(ToSwarm::CloseConnection { peer_id: self.rig.ids.peer_id(p as usize), connection: CloseConnection::All });
                self.events.push(json!({"e": "behCloseAll", "peer": p}));
            }
            "keepAlive" => {
                let id = vcommon::n(c, "id");
                let v = vcommon::b(c, "v");
                let mut applied = false;
                if let Some(cid) = self.rig.ids.conn_of(id) {
                    for pb in self.behs() {
                        if let Some(h) = pb.ctl.handler(cid) {
                            h.lock().unwrap().keep_alive = v;
                            applied = true;
                        }
                        pb.ctl.wake_handler(cid);
                    }
                }
                self.events.push(json!({"e": "keepAlive", "id": id, "v": v, "applied": applied}));
            }
            "emit" => {
                // behaviour b1 queues NotifyHandler commands: targets = [{"one": id} | {"any": peer}]
                let mut n = 0;
                for t in c["targets"].as_array().unwrap() {
                    self.seq += 1;
                    let ev = json!({"seq": self.seq});
                    if let Some(id) = t.get("one").and_then(|x| x.as_i64()) {
                        if let Some(cid) = self.rig.ids.conn_of(id) {
                            let peer = t.get("peer").and_then(|x| x.as_i64()).unwrap_or(1);
                            self.behs()[0].ctl.emit(ToSwarm::NotifyHandler { peer_id: self.rig.ids.peer_id(peer as usize), handler: libp2p_swarm::NotifyHandler::One(cid), event: ev });
                            n += 1;
                        }
                    } else if let Some(p) = t.get("any").and_then(|x| x.as_i64()) {
                        self.behs()[0].ctl.emit(ToSwarm::NotifyHandler { peer_id: self.rig.ids.peer_id(p as usize), handler: libp2p_swarm::NotifyHandler::Any, event: ev });
                        n += 1;
                    }
                }
                self.events.push(json!({"e": "emitQueued", "n": n}));
            }
            "hpoc" => {
                // call the (derived) behaviour's handle_pending_outbound_connection directly, with or without a peer id
                let peer = vcommon::n(c, "peer");
                let cid = libp2p_swarm::ConnectionId::new_unchecked(900_000 + self.seq as usize);
                self.seq += 1;
                let id = self.rig.ids.conn(cid);
                for (i, pb) in self.behs().iter().enumerate() {
                    let p = plan_of(c, i);
                    pb.ctl.with(|ct| {
                        ct.plans.insert(cid, p);
                    });
                }
                let mp = if peer >= 0 { Some(self.rig.ids.peer_id(peer as usize)) } else { None };
                let r = vcommon::guard(|| self.rig.swarm.behaviour_mut().handle_pending_outbound_connection(cid, mp, &[], libp2p_core::Endpoint::Dialer));
                let inner = self.rig.log.drain();
                self.events.extend(inner);
                match r {
                    Ok(Ok(v)) => self.events.push(json!({"e": "hpoc", "id": id, "peer": peer, "denied": false, "ret": v.iter().map(|a| abs_addr_int(&a.to_string())).collect::<Vec<_>>(),
                        "beh_addrs": c.get("beh_addrs").cloned().unwrap_or(json!([]))})),
                    Ok(Err(_)) => self.events.push(json!({"e": "hpoc", "id": id, "peer": peer, "denied": true, "ret": [], "beh_addrs": c.get("beh_addrs").cloned().unwrap_or(json!([]))})),
                    Err(m) => self.events.push(json!({"e": "panic", "msg": m})),
                }
            }
            "hEmit" => {
                // the handler of field `field` on connection `id` emits an event tagged with its own field name
                let id = vcommon::n(c, "id");
                let f = vcommon::n(c, "field") as usize;
                let mut applied = false;
                self.seq += 1;
                let seq = self.seq;
                if let Some(cid) = self.rig.ids.conn_of(id) {
                    let pb = self.behs()[f];
                    if let Some(h) = pb.ctl.handler(cid) {
                        h.lock().unwrap().to_behaviour.push_back(json!({"from": pb.name, "n": seq}));
                        applied = true;
                    }
                    pb.ctl.wake_handler(cid);
                }
                self.events.push(json!({"e": "hEmit", "id": id, "field": f, "applied": applied}));
            }
            "emitF" => {
                // field `field` notifies ITS handler on connection `id`
                let id = vcommon::n(c, "id");
                let f = vcommon::n(c, "field") as usize;
                self.seq += 1;
                let seq = self.seq;
                if let Some(cid) = self.rig.ids.conn_of(id) {
                    let pb = self.behs()[f];
                    let ev = json!({"to": pb.name, "seq": seq});
                    let peer = vcommon::n(c, "peer") as usize;
                    pb.ctl.emit(ToSwarm::NotifyHandler { peer_id: self.rig.ids.peer_id(peer), handler: libp2p_swarm::NotifyHandler::One(cid), event: ev });
                }
                self.events.push(json!({"e": "emitF", "id": id, "field": f}));
            }
            "poll" => {
                let r = vcommon::guard(|| self.rig.poll_quiescent());
                self.flush();
                match r {
                    Ok(n) => self.events.push(json!({"e": "polled", "n": n, "q": true})),
                    Err(m) => self.events.push(json!({"e": "panic", "msg": m})),
                }
            }
            "pollSwarm" => {
                // manual executor: only the Swarm is polled, connection tasks stay frozen
                let r = vcommon::guard(|| self.rig.poll_swarm_only());
                self.flush();
                match r {
                    Ok(n) => self.events.push(json!({"e": "polled", "n": n, "q": false})),
                    Err(m) => self.events.push(json!({"e": "panic", "msg": m})),
                }
            }
            "runTask" => {
                let live = self.rig.live_tasks();
                let k = vcommon::n(c, "k") as usize;
                let r = if live.is_empty() { Ok((false, false)) } else { let t = live[k % live.len()]; vcommon::guard(|| self.rig.run_task(t)) };
                self.flush();
                match r {
                    Ok((ex, fin)) => self.events.push(json!({"e": "ranTask", "k": k, "existed": ex, "finished": fin})),
                    Err(m) => self.events.push(json!({"e": "panic", "msg": m})),
                }
            }
            "pollRaw" => {
                let r = vcommon::guard(|| self.rig.poll_raw());
                self.flush();
                match r {
                    Ok(b) => self.events.push(json!({"e": "polled", "n": if b { 1 } else { 0 }, "q": false})),
                    Err(m) => self.events.push(json!({"e": "panic", "msg": m})),
                }
            }
            "poll1" => {
                let r = vcommon::guard(|| self.rig.poll_one());
                self.flush();
                match r {
                    Ok(b) => self.events.push(json!({"e": "polled", "n": if b { 1 } else { 0 }, "q": !b})),
                    Err(m) => self.events.push(json!({"e": "panic", "msg": m})),
                }
            }
            x => {
                let ids = self.rig.ids.clone();
                match self.rig.swarm.behaviour_mut().control(&ids, c) {
                    Some(ev) => self.events.push(ev),
                    None => panic!("unknown command {x}"),
                }
            }
        }
        self.flush();
        let s = self.rig.snap();
        self.events.push(s);
    }

    pub fn muxer_of(&self, id: i64) -> Option<usize> {
        self.rig.world.with(|w| {
            for (n, s) in w.dials.iter().enumerate() {
                if self.slot_conn.get(n) == Some(&id) {
                    if let Some(m) = s.muxer {
                        return Some(m);
                    }
                }
            }
            for (u, s) in w.upgrades.iter().enumerate() {
                if self.upg_conn.get(u) == Some(&id) {
                    if let Some(m) = s.muxer {
                        return Some(m);
                    }
                }
            }
            None
        })
    }

    /// resolve everything outstanding, poll to quiescence, emit `end`
    pub fn finish(&mut self) {
        self.exec(&json!({"c": "poll"}));
        for _round in 0..6 {
            let (nd, nu) = self.rig.world.with(|w| (w.dials.len(), w.upgrades.len()));
            let mut any = false;
            for n in 0..nd {
                let open = self.rig.world.with(|w| !w.dials[n].done && !w.dials[n].dropped && w.dials[n].outcome.is_none());
                if open {
                    self.exec(&json!({"c": "envDial", "n": n, "ok": false, "who": 0}));
                    any = true;
                }
            }
            for u in 0..nu {
                let open = self.rig.world.with(|w| !w.upgrades[u].done && !w.upgrades[u].dropped && w.upgrades[u].outcome.is_none());
                if open {
                    self.exec(&json!({"c": "envUpgrade", "u": u, "ok": false, "who": 0}));
                    any = true;
                }
            }
            self.exec(&json!({"c": "poll"}));
            if !any {
                break;
            }
        }
        let mux: Vec<Value> = self.rig.world.with(|w| {
            let mut v = vec![];
            for (n, s) in w.dials.iter().enumerate() {
                if let Some(m) = s.muxer {
                    v.push(json!({"m": m, "id": self.slot_conn[n], "closed": w.muxers[m].close_called, "dropped": w.muxers[m].dropped, "done": w.muxers[m].close_done}));
                }
            }
            for (u, s) in w.upgrades.iter().enumerate() {
                if let Some(m) = s.muxer {
                    v.push(json!({"m": m, "id": self.upg_conn.get(u).copied().unwrap_or(-1), "closed": w.muxers[m].close_called, "dropped": w.muxers[m].dropped, "done": w.muxers[m].close_done}));
                }
            }
            v
        });
        let mut used = self.used.clone();
        used.sort();
        used.dedup();
        self.events.push(json!({"e": "end", "used": used, "muxers": mux}));
    }
}

pub fn gen_cmd<B: Suite>(r: &mut StdRng, run: &Run<B>, maxconn: usize, deny_p: f64) -> Value
where
    B::ToSwarm: std::fmt::Debug,
{
    let (open_d, open_u): (Vec<usize>, Vec<usize>) = run.rig.world.with(|w| {
        (
            w.dials.iter().enumerate().filter(|(_, s)| !s.done && !s.dropped && s.outcome.is_none()).map(|(i, _)| i).collect(),
            w.upgrades.iter().enumerate().filter(|(_, s)| !s.done && !s.dropped && s.outcome.is_none()).map(|(i, _)| i).collect(),
        )
    });
    let nconn = run.used.len();
    let plan = |r: &mut StdRng| -> Value {
        let mut v = vec![];
        for _ in 0..3 {
            v.push(json!([r.gen_bool(deny_p), r.gen_bool(deny_p)]));
        }
        Value::Array(v)
    };
    for _ in 0..50 {
        let k = r.gen_range(0..100);
        match k {
            0..=13 if nconn < maxconn => {
                let peer: i64 = if run.bias_peer > 0 && r.gen_bool(0.85) { run.bias_peer } else if r.gen_bool(0.12) { -1 } else if r.gen_bool(0.06) { 0 } else { r.gen_range(1..=2) };
                let conds = ["Always", "Disconnected", "NotDialing", "DisconnectedAndNotDialing"];
                let na = if peer < 0 { 1 } else { r.gen_range(1..=2) };
                let addrs: Vec<i64> = (0..na).map(|_| r.gen_range(1..=3)).collect();
                return json!({"c": "dial", "peer": peer, "cond": conds[r.gen_range(0..4)], "addrs": addrs, "plan": plan(r)});
            }
            14..=15 if nconn < maxconn && run.beh_dials => {
                let peer = r.gen_range(0..=2);
                let addrs: Vec<i64> = (0..r.gen_range(1..=2)).map(|_| r.gen_range(1..=4)).collect();
                return json!({"c": "behDial", "peer": peer, "cond": "Always", "addrs": addrs, "plan": plan(r)});
            }
            16..=24 if nconn < maxconn => return json!({"c": "incoming", "plan": plan(r)}),
            25..=44 if !open_d.is_empty() => {
                let n = open_d[r.gen_range(0..open_d.len())];
                let who = match r.gen_range(0..10) {
                    0 => 0,
                    1..=2 => r.gen_range(1..=3),
                    _ => -2, // expected peer, resolved below
                };
                return json!({"c": "envDial", "n": n, "ok": r.gen_bool(0.7), "who": who});
            }
            45..=58 if !open_u.is_empty() => {
                let u = open_u[r.gen_range(0..open_u.len())];
                let who = if run.bias_peer > 0 && r.gen_bool(0.85) { run.bias_peer } else if r.gen_bool(0.1) { 0 } else { r.gen_range(1..=2) };
                return json!({"c": "envUpgrade", "u": u, "ok": r.gen_bool(0.75), "who": who});
            }
            59..=63 if nconn > 0 => return json!({"c": "failMux", "id": r.gen_range(1..=nconn as i64)}),
            64..=66 if nconn > 0 => return json!({"c": "close", "id": r.gen_range(1..=nconn as i64)}),
            67..=69 => return json!({"c": "disconnect", "peer": r.gen_range(1..=2)}),
            70..=71 if nconn > 0 => return json!({"c": "behClose", "id": r.gen_range(1..=nconn as i64)}),
            72..=73 => return json!({"c": "behCloseAll", "peer": r.gen_range(1..=2)}),
            74..=75 if nconn > 0 => return json!({"c": "keepAlive", "id": r.gen_range(1..=nconn as i64), "v": false}),
            76..=78 => {
                // a notification from the behaviour, possibly for a peer without any connection
                let t = if r.gen_bool(0.5) || nconn == 0 { json!({"any": r.gen_range(1..=2)}) } else { let id = r.gen_range(1..=nconn as i64); json!({"one": id, "peer": r.gen_range(1..=2)}) };
                return json!({"c": "emit", "targets": [t]});
            }
            79..=84 if run.rig.exec.is_some() => return if r.gen_bool(0.5) { json!({"c": "pollSwarm"}) } else { json!({"c": "runTask", "k": r.gen_range(0..8)}) },
            79..=90 => return json!({"c": "poll"}),
            91..=95 => return json!({"c": "poll1"}),
            96..=99 if !run.rig.exec.is_some() => return json!({"c": "pollRaw"}),
            96..=97 => return json!({"c": "pollSwarm"}),
            98..=99 => return json!({"c": "runTask", "k": r.gen_range(0..8)}),
            _ => {}
        }
    }
    json!({"c": "poll"})
}

pub fn write_run(out: &mut Out, cfg: &Value, sched: &[Value], events: Vec<Value>) {
    out.reset_with(cfg.clone(), &json!({"cfg": cfg, "cmds": sched}));
    for e in events {
        out.ev(e);
    }
}

pub fn main(a: &vcommon::Args) {
    vcommon::quiet_panics();
    match a.get(0) {
        "replay" => {
            let scheds = vcommon::read_schedules(a.get(1));
            let mut out = Out::create(a.get(2));
            for s in &scheds {
                let cfg = s["cfg"].clone();
                let mut run: Run<Three> = Run::new(&cfg);
                for c in s["cmds"].as_array().unwrap() {
                    run.exec(c);
                }
                run.finish();
                let ev = std::mem::take(&mut run.events);
                write_run(&mut out, &cfg, s["cmds"].as_array().unwrap(), ev);
            }
            println!("runs={} events={}", out.run, out.events);
            out.finish();
        }
        "random" => {
            let seed = a.num(1);
            let runs = a.num(2);
            let mut out = Out::create(a.get(3));
            let steps = a.kv_num("steps", 25) as usize;
            let maxconn = a.kv_num("maxconn", 4) as usize;
            let mut r = vcommon::rng(seed);
            for _ in 0..runs {
                let deny_p = [0.0, 0.0, 0.1, 0.3][r.gen_range(0..4)];
                let cfg = json!({"concurrency": r.gen_range(1..=3), "maxconn": maxconn, "close_polls": r.gen_range(1..=3), "manual": r.gen_bool(0.3)});
                let mut run: Run<Three> = Run::new(&cfg);
                run.beh_dials = true;
                let mut sched = vec![];
                for _ in 0..steps {
                    let mut c = gen_cmd(&mut r, &run, maxconn, deny_p);
                    if c["c"] == "envDial" && c["who"] == -2 {
                        // authenticate as the peer the dial expects (or a random one for unknown-peer dials)
                        let n = c["n"].as_u64().unwrap() as usize;
                        let id = run.slot_conn[n];
                        let exp = run.events.iter().find(|e| (e["e"] == "dial" || e["e"] == "behDial") && e["id"] == id).map(|e| e["peer"].as_i64().unwrap()).unwrap_or(1);
                        c["who"] = json!(if exp >= 0 { exp } else { r.gen_range(1..=2) });
                    }
                    run.exec(&c);
                    sched.push(c);
                }
                run.finish();
                let ev = std::mem::take(&mut run.events);
                write_run(&mut out, &cfg, &sched, ev);
            }
            println!("runs={} events={}", out.run, out.events);
            out.finish();
        }
        m => panic!("conn mode {m}"),
    }
}
