//! C10: idle connections close only when truly idle. One established puppet connection whose
//! muxer hands out in-memory substreams on command; the probe handler (b1) requests outbound
//! streams, holds / drops / marks-ignored negotiated streams and flips keep_alive. The remote end
//! of every substream is a real multistream-select future polled by the driver, so a stream can be
//! left "still negotiating" for as long as the schedule wants.
use std::{future::Future, pin::Pin, time::Instant};

use multistream_select::{dialer_select_proto, listener_select_proto, Version};
use rand::Rng;
use vcommon::{json, pipe, Out, Value};

use crate::conn::{Run, Three};

type Remote = Pin<Box<dyn Future<Output = bool>>>;

struct Ka {
    run: Run<Three>,
    remotes: Vec<Option<Remote>>,
    keep: Vec<Box<dyn std::any::Any>>,
    t0: Instant,
    evs: Vec<Value>,
}

impl Ka {
    fn t(&self) -> u64 {
        self.t0.elapsed().as_millis() as u64
    }
    fn flush(&mut self) {
        let t = self.t();
        for mut e in self.run.rig.log.drain() {
            let n = e["e"].as_str().unwrap_or("").to_string();
            let b1 = e.get("b").map(|b| b == "b1").unwrap_or(true);
            if b1 && matches!(n.as_str(), "hRequestOut" | "hStream" | "cbConnClosed" | "hDialUpgradeError" | "hListenUpgradeError" | "panic") {
                e["t"] = json!(t);
                self.evs.push(e);
            }
        }
    }
    fn poll(&mut self) {
        match vcommon::guard(|| self.run.rig.poll_quiescent()) {
            Ok(_) => {}
            Err(m) => self.evs.push(json!({"e": "panic", "msg": m})),
        }
        self.flush();
    }
    fn muxer(&self) -> Option<usize> {
        self.run.muxer_of(1)
    }
    fn handler(&self) -> Option<vswarm::probe::HShared> {
        let cid = self.run.rig.ids.conn_of(1)?;
        self.run.behs()[0].ctl.handler(cid)
    }
    fn exec(&mut self, c: &Value) {
        let k = vcommon::s(c, "c");
        let t = self.t();
        match k.as_str() {
            "ka" => {
                let v = vcommon::b(c, "v");
                if let Some(h) = self.handler() {
                    h.lock().unwrap().keep_alive = v;
                }
                let cid = self.run.rig.ids.conn_of(1).unwrap();
                self.run.behs()[0].ctl.wake_handler(cid);
                self.evs.push(json!({"e": "ka", "v": v, "t": t}));
            }
            "reqOut" => {
                if let Some(h) = self.handler() {
                    h.lock().unwrap().request_outbound += 1;
                }
                let cid = self.run.rig.ids.conn_of(1).unwrap();
                self.run.behs()[0].ctl.wake_handler(cid);
                self.evs.push(json!({"e": "reqOut", "t": t}));
            }
            "offerOut" | "offerIn" => {
                let out = k == "offerOut";
                let (a, b, _ctl) = pipe::pipe(true);
                let ok = self.muxer().map(|m| self.run.rig.world.offer_substream(m, out, a)).unwrap_or(false);
                let fut: Remote = if out {
                    Box::pin(async move { listener_select_proto(b, vec!["/probe"]).await.map(|(_, io)| std::mem::forget(io)).is_ok() })
                } else {
                    Box::pin(async move { dialer_select_proto(b, vec!["/probe"], Version::V1).await.map(|(_, io)| std::mem::forget(io)).is_ok() })
                };
                self.remotes.push(if ok { Some(fut) } else { None });
                self.evs.push(json!({"e": k, "r": self.remotes.len() - 1, "applied": ok, "t": t}));
            }
            "negotiate" => {
                // drive remote future r and the swarm until the remote side finished or nothing moves
                let r = vcommon::n(c, "r") as usize;
                let mut done = false;
                if r < self.remotes.len() {
                    for _ in 0..50 {
                        let det = self.run.rig.det.clone();
                        let before = det.wakes();
                        if let Some(f) = self.remotes[r].as_mut() {
                            if let std::task::Poll::Ready(ok) = det.poll(f.as_mut()) {
                                self.remotes[r] = None;
                                done = ok;
                            }
                        }
                        self.poll();
                        if self.remotes[r].is_none() || det.wakes() == before {
                            if self.remotes[r].is_none() {
                                break;
                            }
                        }
                    }
                }
                self.evs.push(json!({"e": "negotiate", "r": r, "done": done, "t": self.t()}));
            }
            "dropStream" | "ignoreKA" => {
                let i = vcommon::n(c, "k") as usize;
                let mut applied = false;
                if let Some(h) = self.handler() {
                    let mut g = h.lock().unwrap();
                    if let Some(slot) = g.streams.get_mut(i) {
                        if k == "dropStream" {
                            applied = slot.take().is_some();
                        } else if let Some(s) = slot.as_mut() {
                            s.ignore_for_keep_alive();
                            applied = true;
                        }
                    }
                }
                if let Some(cid) = self.run.rig.ids.conn_of(1) {
                    self.run.behs()[0].ctl.wake_handler(cid);
                }
                self.evs.push(json!({"e": k, "k": i, "applied": applied, "t": t}));
            }
            // the handler closes the write half of held stream k and keeps holding it: still an active stream
            "closeWrite" => {
                let i = vcommon::n(c, "k") as usize;
                let taken = self.handler().and_then(|h| h.lock().unwrap().streams.get_mut(i).and_then(|slot| slot.take()));
                let mut done = false;
                let applied = taken.is_some();
                if let Some(mut st) = taken {
                    let det = self.run.rig.det.clone();
                    {
                        let mut f = Box::pin(futures::AsyncWriteExt::close(&mut st));
                        done = matches!(det.run_until_stalled(f.as_mut(), 50), Some(Ok(())));
                    }
                    if let Some(h) = self.handler() {
                        h.lock().unwrap().streams[i] = Some(st);
                    }
                }
                if let Some(cid) = self.run.rig.ids.conn_of(1) {
                    self.run.behs()[0].ctl.wake_handler(cid);
                }
                self.evs.push(json!({"e": "closeWrite", "k": i, "applied": applied, "done": done, "t": t}));
            }
            "poll" => {
                self.poll();
                self.evs.push(json!({"e": "quiescent", "t": self.t()}));
            }
            "sleepPoll" => {
                std::thread::sleep(std::time::Duration::from_millis(vcommon::n(c, "ms") as u64));
                self.poll();
                self.evs.push(json!({"e": "slept", "t": self.t()}));
            }
            x => panic!("cmd {x}"),
        }
        self.flush();
    }
}

fn run_sched(out: &mut Out, s: &Value) {
    let cfg = s["cfg"].clone();
    let mut run: Run<Three> = Run::new(&cfg);
    {
        let b = run.rig.swarm.behaviour();
        b.b1.ctl.with(|c| c.handler_protocols = vec!["/probe".to_string()]);
        b.b2.as_ref().unwrap().ctl.with(|c| c.handler_keep_alive = false);
        b.b3.ctl.with(|c| c.handler_keep_alive = false);
    }
    run.exec(&json!({"c": "dial", "peer": 1, "cond": "Always", "addrs": [1]}));
    run.exec(&json!({"c": "envDial", "n": 0, "ok": true, "who": 1}));
    run.exec(&json!({"c": "poll"}));
    run.events.clear();
    run.rig.log.drain();
    let mut k = Ka { run, remotes: vec![], keep: vec![], t0: Instant::now(), evs: vec![] };
    for c in s["cmds"].as_array().unwrap() {
        k.exec(c);
    }
    let _ = &k.keep;
    out.reset_with(json!({"idle_ms": cfg["idle_ms"]}), s);
    for e in k.evs {
        out.ev(e);
    }
}

pub fn main(a: &vcommon::Args) {
    vcommon::quiet_panics();
    match a.get(0) {
        "replay" => {
            let scheds = vcommon::read_schedules(a.get(1));
            let mut out = Out::create(a.get(2));
            for s in &scheds {
                run_sched(&mut out, s);
            }
            println!("runs={} events={}", out.run, out.events);
            out.finish();
        }
        // directed real-time schedules: keep-alive switched off (timer armed), two more steps, then wait past the deadline
        "directed" => {
            let mut out = Out::create(a.get(1));
            let alpha = [json!({"c": "ka", "v": true}), json!({"c": "ka", "v": false}), json!({"c": "reqOut"}), json!({"c": "offerIn"}),
                json!({"c": "poll"}), json!({"c": "sleepPoll", "ms": 80})];
            for x in &alpha {
                for y in &alpha {
                    let cmds = vec![json!({"c": "ka", "v": false}), json!({"c": "poll"}), x.clone(), y.clone(), json!({"c": "poll"}), json!({"c": "sleepPoll", "ms": 90})];
                    run_sched(&mut out, &json!({"cfg": {"concurrency": 2, "idle_ms": 60}, "cmds": cmds}));
                }
            }
            // an idle timer armed in an earlier idle period must not survive a busy period: idle (timer armed), busy for
            // longer than the rest of the timeout (keep-alive on / a held stream / a half-closed held stream), idle again:
            // the connection closes no earlier than a full timeout after it became idle the second time
            let hold: Vec<Value> = vec![json!({"c": "reqOut"}), json!({"c": "offerOut"}), json!({"c": "poll"}), json!({"c": "negotiate", "r": 0}), json!({"c": "poll"})];
            for variant in ["ka", "stream", "halfclosed"] {
                for first_sleep in [15u64, 40] {
                    let mut cmds = vec![json!({"c": "ka", "v": false}), json!({"c": "poll"}), json!({"c": "sleepPoll", "ms": first_sleep})];
                    match variant {
                        "ka" => cmds.push(json!({"c": "ka", "v": true})),
                        _ => cmds.extend(hold.clone()),
                    }
                    if variant == "halfclosed" {
                        cmds.push(json!({"c": "closeWrite", "k": 0}));
                    }
                    cmds.push(json!({"c": "poll"}));
                    cmds.push(json!({"c": "sleepPoll", "ms": 80}));
                    match variant {
                        "ka" => cmds.push(json!({"c": "ka", "v": false})),
                        _ => cmds.push(json!({"c": "dropStream", "k": 0})),
                    }
                    cmds.push(json!({"c": "poll"}));
                    cmds.push(json!({"c": "sleepPoll", "ms": 30}));
                    cmds.push(json!({"c": "sleepPoll", "ms": 90}));
                    run_sched(&mut out, &json!({"cfg": {"concurrency": 2, "idle_ms": 60}, "cmds": cmds}));
                }
            }
            // zero timeout: a held stream whose write half was closed keeps the connection alive
            for tail in [vec![], vec![json!({"c": "dropStream", "k": 0}), json!({"c": "poll"})]] {
                let mut cmds = vec![json!({"c": "ka", "v": false})];
                cmds.extend(hold.clone());
                cmds.push(json!({"c": "closeWrite", "k": 0}));
                cmds.push(json!({"c": "poll"}));
                cmds.push(json!({"c": "poll"}));
                cmds.extend(tail);
                run_sched(&mut out, &json!({"cfg": {"concurrency": 2, "idle_ms": 0}, "cmds": cmds}));
            }
            println!("runs={} events={}", out.run, out.events);
            out.finish();
        }
        "random" => {
            let seed = a.num(1);
            let runs = a.num(2);
            let timed = a.kv_num("timed", 0) as usize; // number of runs with a real idle timeout
            let mut out = Out::create(a.get(3));
            let mut r = vcommon::rng(seed);
            for i in 0..runs as usize {
                let idle = if i < timed { 60 } else { 0 };
                let cfg = json!({"concurrency": 2, "idle_ms": idle});
                let mut cmds = vec![];
                let (mut nrem, mut nstreams) = (0i64, 0i64);
                for _ in 0..r.gen_range(3..=14) {
                    cmds.push(match r.gen_range(0..100) {
                        0..=14 => json!({"c": "ka", "v": r.gen_bool(0.4)}),
                        15..=26 => json!({"c": "reqOut"}),
                        27..=38 => {
                            nrem += 1;
                            json!({"c": "offerOut"})
                        }
                        39..=46 => {
                            nrem += 1;
                            json!({"c": "offerIn"})
                        }
                        47..=60 if nrem > 0 => {
                            nstreams += 1;
                            json!({"c": "negotiate", "r": r.gen_range(0..nrem)})
                        }
                        61..=70 if nstreams > 0 => json!({"c": "dropStream", "k": r.gen_range(0..nstreams)}),
                        71..=73 if nstreams > 0 => json!({"c": "ignoreKA", "k": r.gen_range(0..nstreams)}),
                        74..=75 if nstreams > 0 => json!({"c": "closeWrite", "k": r.gen_range(0..nstreams)}),
                        76..=79 if idle > 0 => json!({"c": "sleepPoll", "ms": r.gen_range(20..=90)}),
                        _ => json!({"c": "poll"}),
                    });
                }
                cmds.push(json!({"c": "poll"}));
                if idle > 0 {
                    cmds.push(json!({"c": "sleepPoll", "ms": 90}));
                }
                run_sched(&mut out, &json!({"cfg": cfg, "cmds": cmds}));
            }
            println!("runs={} events={}", out.run, out.events);
            out.finish();
        }
        m => panic!("keepalive mode {m}"),
    }
}
