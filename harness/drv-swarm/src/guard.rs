//! C52 / C53: a real Swarm whose behaviour is #[derive(NetworkBehaviour)] over
//! connection_limits::Behaviour or allow_block_list::Behaviour (blocked / allowed flavour) plus a
//! probe; random connection traffic in both directions (same generator as `conn`) interleaved with
//! list changes; counters and callbacks recorded after every command.
use libp2p_allow_block_list as abl;
use libp2p_connection_limits as cl;
use libp2p_swarm::NetworkBehaviour;
use rand::Rng;
use vcommon::{json, Out, Value};
use vswarm::{
    ids::{Ids, Log},
    probe::ProbeBehaviour,
};

use crate::conn::{gen_cmd, write_run, Run, Suite};

#[derive(NetworkBehaviour)]
#[behaviour(prelude = "libp2p_swarm::derive_prelude")]
pub struct Limited {
    pub limits: cl::Behaviour,
    pub b1: ProbeBehaviour,
}

fn lim(cfg: &Value, k: &str) -> Option<u32> {
    cfg.get(k).and_then(|x| x.as_u64()).map(|x| x as u32)
}

impl Suite for Limited {
    fn build(ids: &Ids, log: &Log, cfg: &Value) -> Self {
        let l = cl::ConnectionLimits::default()
            .with_max_pending_incoming(lim(cfg, "max_pi"))
            .with_max_pending_outgoing(lim(cfg, "max_po"))
            .with_max_established_incoming(lim(cfg, "max_ei"))
            .with_max_established_outgoing(lim(cfg, "max_eo"))
            .with_max_established(lim(cfg, "max_e"))
            .with_max_established_per_peer(lim(cfg, "max_pp"));
        let mut b = cl::Behaviour::new(l);
        if let Some(p) = cfg.get("bypass").and_then(|x| x.as_u64()) {
            b.bypass_peer_id(&ids.peer_id(p as usize));
        }
        Limited { limits: b, b1: ProbeBehaviour::new("b1", ids.clone(), log.clone()) }
    }
    fn probes(&self) -> Vec<&ProbeBehaviour> {
        vec![&self.b1]
    }
}

#[derive(NetworkBehaviour)]
#[behaviour(prelude = "libp2p_swarm::derive_prelude")]
pub struct BlockList {
    pub list: abl::Behaviour<abl::BlockedPeers>,
    pub b1: ProbeBehaviour,
}

impl Suite for BlockList {
    fn build(ids: &Ids, log: &Log, _cfg: &Value) -> Self {
        BlockList { list: abl::Behaviour::default(), b1: ProbeBehaviour::new("b1", ids.clone(), log.clone()) }
    }
    fn probes(&self) -> Vec<&ProbeBehaviour> {
        vec![&self.b1]
    }
    fn control(&mut self, ids: &Ids, c: &Value) -> Option<Value> {
        let p = c.get("peer")?.as_i64()?;
        match c["c"].as_str()? {
            "block" => Some(json!({"e": "block", "peer": p, "res": self.list.block_peer(ids.peer_id(p as usize))})),
            "unblock" => Some(json!({"e": "unblock", "peer": p, "res": self.list.unblock_peer(ids.peer_id(p as usize))})),
            _ => None,
        }
    }
}

#[derive(NetworkBehaviour)]
#[behaviour(prelude = "libp2p_swarm::derive_prelude")]
pub struct AllowList {
    pub list: abl::Behaviour<abl::AllowedPeers>,
    pub b1: ProbeBehaviour,
}

impl Suite for AllowList {
    fn build(ids: &Ids, log: &Log, cfg: &Value) -> Self {
        let mut l: abl::Behaviour<abl::AllowedPeers> = abl::Behaviour::default();
        for p in cfg.get("allowed").and_then(|x| x.as_array()).cloned().unwrap_or_default() {
            l.allow_peer(ids.peer_id(p.as_u64().unwrap() as usize));
        }
        AllowList { list: l, b1: ProbeBehaviour::new("b1", ids.clone(), log.clone()) }
    }
    fn probes(&self) -> Vec<&ProbeBehaviour> {
        vec![&self.b1]
    }
    fn control(&mut self, ids: &Ids, c: &Value) -> Option<Value> {
        let p = c.get("peer")?.as_i64()?;
        match c["c"].as_str()? {
            // in the allow flavour "block" = disallow, "unblock" = allow
            "block" => Some(json!({"e": "block", "peer": p, "res": self.list.disallow_peer(ids.peer_id(p as usize))})),
            "unblock" => Some(json!({"e": "unblock", "peer": p, "res": self.list.allow_peer(ids.peer_id(p as usize))})),
            _ => None,
        }
    }
}

fn keep(e: &Value) -> bool {
    let n = e["e"].as_str().unwrap_or("");
    let b1 = e.get("b").map(|b| b == "b1").unwrap_or(true);
    b1 && !matches!(n, "cbPendingIn" | "cbPendingOut" | "cbEstIn" | "cbEstOut" | "hEvent" | "cbHandlerEvent")
}

fn run_any<B: Suite>(out: &mut Out, cfg: &Value, cmds: Option<&Vec<Value>>, r: &mut rand::rngs::StdRng, steps: usize, lists: bool)
where
    B::ToSwarm: std::fmt::Debug,
{
    let mut run: Run<B> = Run::new(cfg);
    run.bias_peer = cfg.get("bias_peer").and_then(|x| x.as_i64()).unwrap_or(0);
    let mut sched = vec![];
    match cmds {
        Some(cs) => {
            for c in cs {
                run.exec(c);
                sched.push(c.clone());
            }
        }
        None => {
            for _ in 0..steps {
                let nconn = run.used.len() as i64;
                let mut c = if run.bias_peer > 0 && nconn > 0 && r.gen_bool(0.22) {
                    // churn: close one connection (then the poll that follows lets the slot be refilled)
                    json!({"c": if r.gen_bool(0.5) { "close" } else { "failMux" }, "id": r.gen_range(1..=nconn)})
                } else if lists && r.gen_bool(0.18) {
                    json!({"c": if r.gen_bool(0.6) { "block" } else { "unblock" }, "peer": r.gen_range(1..=2)})
                } else {
                    gen_cmd(r, &run, cfg["maxconn"].as_u64().unwrap_or(8) as usize, 0.0)
                };
                if c["c"] == "envDial" && c["who"] == -2 {
                    let n = c["n"].as_u64().unwrap() as usize;
                    let id = run.slot_conn[n];
                    let exp = run.events.iter().find(|e| e["e"] == "dial" && e["id"] == id).map(|e| e["peer"].as_i64().unwrap()).unwrap_or(1);
                    c["who"] = json!(if exp >= 0 { exp } else { r.gen_range(1..=2) });
                }
                run.exec(&c);
                sched.push(c);
            }
        }
    }
    run.finish();
    let ev: Vec<Value> = std::mem::take(&mut run.events).into_iter().filter(keep).collect();
    write_run(out, cfg, &sched, ev);
}

pub fn main(a: &vcommon::Args) {
    vcommon::quiet_panics();
    let mut out;
    let mut r = vcommon::rng(1);
    match a.get(0) {
        "replay" => {
            let scheds = vcommon::read_schedules(a.get(1));
            out = Out::create(a.get(2));
            for s in &scheds {
                let cfg = s["cfg"].clone();
                let cmds = s["cmds"].as_array().unwrap();
                match cfg["suite"].as_str().unwrap() {
                    "limits" => run_any::<Limited>(&mut out, &cfg, Some(cmds), &mut r, 0, false),
                    "block" => run_any::<BlockList>(&mut out, &cfg, Some(cmds), &mut r, 0, true),
                    _ => run_any::<AllowList>(&mut out, &cfg, Some(cmds), &mut r, 0, true),
                }
            }
        }
        "limits" | "lists" => {
            let seed = a.num(1);
            let runs = a.num(2);
            out = Out::create(a.get(3));
            let steps = a.kv_num("steps", 40) as usize;
            r = vcommon::rng(seed);
            for i in 0..runs {
                if a.get(0) == "limits" {
                    let mut cfg = json!({"suite": "limits", "concurrency": 2, "maxconn": 12});
                    for k in ["max_pi", "max_po", "max_ei", "max_eo", "max_e", "max_pp"] {
                        if r.gen_bool(0.5) {
                            cfg[k] = json!(r.gen_range(1..=2));
                        }
                    }
                    if r.gen_bool(0.3) {
                        cfg["bypass"] = json!(2);
                    }
                    if r.gen_bool(0.4) {
                        // per-peer pressure: almost all connections go to one peer, per-peer limit 2-3, long run
                        cfg["bias_peer"] = json!(1);
                        cfg["max_pp"] = json!(r.gen_range(2..=3));
                        cfg.as_object_mut().unwrap().remove("max_ei");
                        cfg.as_object_mut().unwrap().remove("max_eo");
                        cfg.as_object_mut().unwrap().remove("max_e");
                    }
                    run_any::<Limited>(&mut out, &cfg, None, &mut r, steps, false);
                } else if i % 2 == 0 {
                    let cfg = json!({"suite": "block", "concurrency": 2, "maxconn": 10});
                    run_any::<BlockList>(&mut out, &cfg, None, &mut r, steps, true);
                } else {
                    let cfg = json!({"suite": "allow", "concurrency": 2, "maxconn": 10, "allowed": [1, 2]});
                    run_any::<AllowList>(&mut out, &cfg, None, &mut r, steps, true);
                }
            }
        }
        m => panic!("guard mode {m}"),
    }
    println!("runs={} events={}", out.run, out.events);
    out.finish();
}
