//! C12: listen / external address views.
//!  * `helpers`: the public helper structs ExternalAddresses, ListenAddresses, PeerAddresses fed
//!    constructed FromSwarm events; every return value ("changed") and the resulting contents logged.
//!  * `swarm`: a real Swarm over the puppet transport with several listeners; NewAddress /
//!    AddressExpired / ListenerClosed / ListenerError transport events, remove_listener,
//!    add/remove_external_address and behaviour-emitted ExternalAddrConfirmed/Expired; after every
//!    poll-to-quiescence Swarm::listeners() and external_addresses() are snapshotted.
use std::num::NonZeroUsize;

use libp2p_core::{transport::ListenerId, Multiaddr};
use libp2p_identity::PeerId;
use libp2p_swarm::{
    behaviour::{ExternalAddrConfirmed, ExternalAddrExpired, ExpiredListenAddr, FromSwarm, NewExternalAddrOfPeer, NewListenAddr, ToSwarm},
    ConnectionId, DialError, DialFailure, ExternalAddresses, ListenAddresses, PeerAddresses,
};
use rand::Rng;
use vcommon::{json, Out, Value};
use vswarm::puppet::Ev;

use crate::conn::Run;

fn a(i: i64) -> Multiaddr {
    format!("/ip4/10.1.0.{i}/tcp/1").parse().unwrap()
}
fn abs(m: &Multiaddr) -> i64 {
    let s = m.to_string();
    let base = s.split("/p2p/").next().unwrap().to_string();
    base.strip_prefix("/ip4/10.1.0.").and_then(|r| r.strip_suffix("/tcp/1")).and_then(|x| x.parse().ok()).unwrap_or(-1)
}

fn helpers_run(out: &mut Out, s: &Value, peers: &[PeerId]) {
    let pcap = vcommon::n(s, "pcap") as usize;
    let mut ext = ExternalAddresses::default();
    let mut lst = ListenAddresses::default();
    let mut pa = PeerAddresses::new(NonZeroUsize::new(pcap).unwrap());
    out.reset_with(json!({"pcap": pcap}), s);
    let lid = ListenerId::next();
    for op in s["ops"].as_array().unwrap() {
        let k = vcommon::s(op, "o");
        let ad = op.get("a").and_then(|x| x.as_i64()).unwrap_or(0);
        let m = a(ad);
        let r = vcommon::guard(|| match k.as_str() {
            "extConfirm" => {
                let ch = ext.on_swarm_event(&FromSwarm::ExternalAddrConfirmed(ExternalAddrConfirmed { addr: &m }));
                json!({"e": "ext", "op": "confirm", "a": ad, "changed": ch, "list": ext.iter().map(abs).collect::<Vec<_>>()})
            }
            "extExpire" => {
                let ch = ext.on_swarm_event(&FromSwarm::ExternalAddrExpired(ExternalAddrExpired { addr: &m }));
                json!({"e": "ext", "op": "expire", "a": ad, "changed": ch, "list": ext.iter().map(abs).collect::<Vec<_>>()})
            }
            "lstNew" => {
                let ch = lst.on_swarm_event(&FromSwarm::NewListenAddr(NewListenAddr { listener_id: lid, addr: &m }));
                let mut v: Vec<i64> = lst.iter().map(abs).collect();
                v.sort();
                json!({"e": "lst", "op": "new", "a": ad, "changed": ch, "set": v})
            }
            "lstExpired" => {
                let ch = lst.on_swarm_event(&FromSwarm::ExpiredListenAddr(ExpiredListenAddr { listener_id: lid, addr: &m }));
                let mut v: Vec<i64> = lst.iter().map(abs).collect();
                v.sort();
                json!({"e": "lst", "op": "expired", "a": ad, "changed": ch, "set": v})
            }
            "paAdd" => {
                let p = vcommon::n(op, "p") as usize;
                // form: 0 plain, 1 with /p2p/<p> suffix (same address after normalisation), 2 with /p2p/<other> (must be refused)
                let form = vcommon::n(op, "form");
                let addr = match form {
                    0 => m.clone(),
                    1 => m.clone().with_p2p(peers[p]).unwrap(),
                    _ => m.clone().with_p2p(peers[(p + 1) % peers.len()]).unwrap(),
                };
                let ch = pa.on_swarm_event(&FromSwarm::NewExternalAddrOfPeer(NewExternalAddrOfPeer { peer_id: peers[p], addr: &addr }));
                json!({"e": "pa", "op": "add", "p": p, "a": ad, "form": form, "changed": ch})
            }
            "paFail" => {
                let p = vcommon::n(op, "p") as usize;
                let addrs: Vec<i64> = op["as"].as_array().unwrap().iter().map(|x| x.as_i64().unwrap()).collect();
                let errs: Vec<(Multiaddr, libp2p_core::transport::TransportError<std::io::Error>)> =
                    addrs.iter().map(|x| (a(*x), libp2p_core::transport::TransportError::Other(std::io::Error::other("x")))).collect();
                let err = DialError::Transport(errs);
                let ch = pa.on_swarm_event(&FromSwarm::DialFailure(DialFailure { peer_id: Some(peers[p]), error: &err, connection_id: ConnectionId::new_unchecked(0) }));
                json!({"e": "pa", "op": "fail", "p": p, "as": addrs, "changed": ch})
            }
            "paGet" => {
                let p = vcommon::n(op, "p") as usize;
                let got: Vec<Multiaddr> = pa.get(&peers[p]).collect();
                let all_p2p = got.iter().all(|g| g.to_string().ends_with(&format!("/p2p/{}", peers[p])));
                let mut v: Vec<i64> = got.iter().map(abs).collect();
                v.sort();
                json!({"e": "pa", "op": "get", "p": p, "set": v, "n": got.len(), "all_p2p": all_p2p})
            }
            x => panic!("op {x}"),
        });
        match r {
            Ok(v) => out.ev(v),
            Err(m) => out.ev(json!({"e": "panic", "msg": m})),
        }
    }
}

fn gen_helpers(r: &mut rand::rngs::StdRng) -> Value {
    let n = r.gen_range(5..=40);
    let wide = r.gen_bool(0.3); // many distinct addresses: exercises the capacities (20 external, 10 per peer)
    let hi = if wide { 24 } else { 4 };
    let mut ops = vec![];
    for _ in 0..n {
        let ad = r.gen_range(1..=hi);
        ops.push(match r.gen_range(0..12) {
            0..=2 => json!({"o": "extConfirm", "a": ad}),
            3 => json!({"o": "extExpire", "a": ad}),
            4 => json!({"o": "lstNew", "a": ad}),
            5 => json!({"o": "lstExpired", "a": ad}),
            6..=8 => json!({"o": "paAdd", "p": r.gen_range(0..3), "a": ad, "form": ([0i64, 0, 1, 2][r.gen_range(0..4)])}),
            9 => {
                let k = r.gen_range(1..=2);
                json!({"o": "paFail", "p": r.gen_range(0..3), "as": (0..k).map(|_| r.gen_range(1..=hi)).collect::<Vec<_>>()})
            }
            _ => json!({"o": "paGet", "p": r.gen_range(0..3)}),
        });
    }
    json!({"pcap": r.gen_range(1..=3), "ops": ops})
}

// ------------------------------------------------------------------ swarm part
fn swarm_run(out: &mut Out, s: &Value) {
    let cfg = json!({"concurrency": 8});
    let mut run: Run = Run::new(&cfg); // has listener 1 with address 100 already
    run.rig.log.drain();
    let mut lids: Vec<ListenerId> = vec![run.rig.ids.listener_of(run.listener).unwrap()];
    let mut evs: Vec<Value> = vec![json!({"e": "initListener", "l": 1, "addr": 100})];
    let la = |i: i64| -> Multiaddr { if i == 100 { crate::conn::addr(100) } else { a(i) } };
    let labs = |s: &str| -> i64 { if s == "/ip4/10.0.0.100/tcp/1" { 100 } else { abs(&s.parse().unwrap()) } };
    for c in s["cmds"].as_array().unwrap() {
        let k = vcommon::s(c, "c");
        let l = c.get("l").and_then(|x| x.as_i64()).unwrap_or(1) as usize;
        let ad = c.get("a").and_then(|x| x.as_i64()).unwrap_or(0);
        match k.as_str() {
            "listenOn" => {
                let lid = run.rig.swarm.listen_on(a(50 + lids.len() as i64)).unwrap();
                lids.push(lid);
                evs.push(json!({"e": "listenOn", "l": run.rig.ids.listener(lid)}));
            }
            "newAddr" => {
                if let Some(lid) = lids.get(l - 1) {
                    run.rig.world.push_event(Ev::NewAddress(*lid, la(ad)));
                }
            }
            "expireAddr" => {
                if let Some(lid) = lids.get(l - 1) {
                    run.rig.world.push_event(Ev::AddressExpired(*lid, la(ad)));
                }
            }
            "closeListener" => {
                if let Some(lid) = lids.get(l - 1) {
                    run.rig.world.push_event(Ev::ListenerClosed(*lid, vcommon::b(c, "ok")));
                }
            }
            "listenerError" => {
                if let Some(lid) = lids.get(l - 1) {
                    run.rig.world.push_event(Ev::ListenerError(*lid));
                }
            }
            "removeListener" => {
                if let Some(lid) = lids.get(l - 1) {
                    let r = run.rig.swarm.remove_listener(*lid);
                    evs.push(json!({"e": "removeListener", "l": l, "res": r}));
                }
            }
            "addExternal" => {
                run.rig.swarm.add_external_address(a(ad));
            }
            "removeExternal" => {
                run.rig.swarm.remove_external_address(&a(ad));
            }
            "behConfirm" => run.behs()[0].ctl.emit(ToSwarm::ExternalAddrConfirmed(a(ad))),
            "behExpire" => run.behs()[0].ctl.emit(ToSwarm::ExternalAddrExpired(a(ad))),
            "behCandidate" => run.behs()[0].ctl.emit(ToSwarm::NewExternalAddrCandidate(a(ad))),
            "poll" => {}
            x => panic!("cmd {x}"),
        }
        if k == "poll" || k == "addExternal" || k == "removeExternal" {
            if k == "poll" {
                if let Err(m) = vcommon::guard(|| run.rig.poll_quiescent()) {
                    evs.push(json!({"e": "panic", "msg": m}));
                }
            }
            for e in run.rig.log.drain() {
                let n = e["e"].as_str().unwrap_or("").to_string();
                let b1 = e.get("b").map(|b| b == "b1").unwrap_or(true);
                if !b1 {
                    continue;
                }
                match n.as_str() {
                    "cbNewListenAddr" | "cbExpiredListenAddr" => evs.push(json!({"e": n, "l": e["l"], "a": labs(e["addr"].as_str().unwrap())})),
                    "cbListenerClosed" => evs.push(json!({"e": n, "l": e["l"]})),
                    "cbExternalAddrConfirmed" | "cbExternalAddrExpired" | "cbNewExternalAddrCandidate" => evs.push(json!({"e": n, "a": labs(e["addr"].as_str().unwrap())})),
                    "swarmEvent" => {
                        let kind = e["kind"].as_str().unwrap();
                        match kind {
                            "newListenAddr" | "expiredListenAddr" => evs.push(json!({"e": "sw", "kind": kind, "l": e["l"], "a": labs(e["addr"].as_str().unwrap())})),
                            "listenerClosed" => {
                                let mut v: Vec<i64> = e["addrs"].as_array().unwrap().iter().map(|x| labs(x.as_str().unwrap())).collect();
                                v.sort();
                                evs.push(json!({"e": "sw", "kind": kind, "l": e["l"], "addrs": v}))
                            }
                            "externalAddrConfirmed" | "externalAddrExpired" => evs.push(json!({"e": "sw", "kind": kind, "a": labs(e["addr"].as_str().unwrap())})),
                            _ => {}
                        }
                    }
                    _ => {}
                }
            }
            let mut ls: Vec<i64> = run.rig.swarm.listeners().map(|m| labs(&m.to_string())).collect();
            ls.sort();
            let mut ex: Vec<i64> = run.rig.swarm.external_addresses().map(abs).collect();
            ex.sort();
            evs.push(json!({"e": "view", "listeners": ls, "external": ex, "quiescent": k == "poll"}));
        }
    }
    out.reset(s);
    for e in evs {
        out.ev(e);
    }
}

fn gen_swarm(r: &mut rand::rngs::StdRng) -> Value {
    let n = r.gen_range(4..=25);
    let mut cmds = vec![];
    let mut nl = 1;
    for _ in 0..n {
        let l = r.gen_range(1..=nl);
        let ad = r.gen_range(1..=3);
        cmds.push(match r.gen_range(0..20) {
            0..=1 if nl < 3 => {
                nl += 1;
                json!({"c": "listenOn"})
            }
            2..=5 => json!({"c": "newAddr", "l": l, "a": ad}),
            6..=7 => json!({"c": "expireAddr", "l": l, "a": if r.gen_bool(0.2) { 100 } else { ad }}),
            8 => json!({"c": "closeListener", "l": l, "ok": r.gen_bool(0.5)}),
            9 => json!({"c": "listenerError", "l": l}),
            10 => json!({"c": "removeListener", "l": l}),
            11..=12 => json!({"c": "addExternal", "a": ad}),
            13 => json!({"c": "removeExternal", "a": ad}),
            14 => json!({"c": "behConfirm", "a": ad}),
            15 => json!({"c": "behExpire", "a": ad}),
            16 => json!({"c": "behCandidate", "a": ad}),
            _ => json!({"c": "poll"}),
        });
    }
    cmds.push(json!({"c": "poll"}));
    json!({"cmds": cmds})
}

pub fn main(args: &vcommon::Args) {
    vcommon::quiet_panics();
    let peers: Vec<PeerId> = (0..3).map(|_| PeerId::random()).collect();
    match args.get(0) {
        "replay" => {
            let scheds = vcommon::read_schedules(args.get(1));
            let mut out = Out::create(args.get(2));
            for s in &scheds {
                if s.get("ops").is_some() {
                    helpers_run(&mut out, s, &peers)
                } else {
                    swarm_run(&mut out, s)
                }
            }
            println!("runs={} events={}", out.run, out.events);
            out.finish();
        }
        "helpers" | "swarm" => {
            let seed = args.num(1);
            let runs = args.num(2);
            let mut out = Out::create(args.get(3));
            let mut r = vcommon::rng(seed);
            for _ in 0..runs {
                if args.get(0) == "helpers" {
                    let s = gen_helpers(&mut r);
                    helpers_run(&mut out, &s, &peers);
                } else {
                    let s = gen_swarm(&mut r);
                    swarm_run(&mut out, &s);
                }
            }
            println!("runs={} events={}", out.run, out.events);
            out.finish();
        }
        m => panic!("addr mode {m}"),
    }
}
