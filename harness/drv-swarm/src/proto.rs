//! C11: protocol-change notifications. One established puppet connection whose probe handler (b1)
//! advertises a scripted list of protocol names from `listen_protocol()` (duplicates and invalid
//! names included) and reports scripted remote protocol additions/removals; every
//! Local/RemoteProtocolsChange the handler receives is logged.
use rand::Rng;
use vcommon::{json, Out, Value};

use crate::conn::Run;

const NAMES: [&str; 4] = ["/a", "/b", "/c", "bad"];

fn lst(v: &Value) -> Vec<String> {
    v.as_array().unwrap().iter().map(|x| NAMES[x.as_u64().unwrap() as usize].to_string()).collect()
}

fn run_sched(out: &mut Out, s: &Value) {
    let cfg = json!({"concurrency": 8});
    let mut run: Run = Run::new(&cfg);
    let init = lst(&s["init"]);
    {
        let b = run.rig.swarm.behaviour();
        b.b1.ctl.with(|c| c.handler_protocols = init.clone());
    }
    let mut evs: Vec<Value> = vec![];
    let adv = |l: &Vec<String>| json!({"e": "advertise", "list": l.iter().map(|n| json!([n, n.starts_with('/')])).collect::<Vec<_>>()});
    evs.push(adv(&init));
    run.exec(&json!({"c": "dial", "peer": 1, "cond": "Always", "addrs": [1]}));
    run.exec(&json!({"c": "envDial", "n": 0, "ok": true, "who": 1}));
    run.exec(&json!({"c": "poll"}));
    let cid = run.rig.ids.conn_of(1).unwrap();
    let take = |run: &mut Run, evs: &mut Vec<Value>| {
        for e in run.events.drain(..) {
            let n = e["e"].as_str().unwrap_or("");
            if (n == "hLocalProto" || n == "hRemoteProto") && e["b"] == "b1" {
                evs.push(e);
            } else if n == "panic" {
                evs.push(e);
            } else if n == "polled" && e["q"] == true {
                evs.push(json!({"e": "quiescent"}));
            }
        }
    };
    take(&mut run, &mut evs);
    for c in s["cmds"].as_array().unwrap() {
        match vcommon::s(c, "c").as_str() {
            "set" => {
                let l = lst(&c["list"]);
                let h = run.behs()[0].ctl.handler(cid).unwrap();
                h.lock().unwrap().protocols = l.clone();
                run.behs()[0].ctl.wake_handler(cid);
                evs.push(adv(&l));
            }
            "remote" => {
                let l = lst(&c["list"]);
                let added = vcommon::b(c, "added");
                let h = run.behs()[0].ctl.handler(cid).unwrap();
                h.lock().unwrap().report_remote.push_back((added, l.clone()));
                run.behs()[0].ctl.wake_handler(cid);
                evs.push(json!({"e": "report", "added": added, "list": l.iter().filter(|n| n.starts_with('/')).collect::<Vec<_>>()}));
            }
            "poll" => {
                run.exec(&json!({"c": "poll"}));
                take(&mut run, &mut evs);
            }
            x => panic!("cmd {x}"),
        }
    }
    run.exec(&json!({"c": "poll"}));
    take(&mut run, &mut evs);
    out.reset(s);
    for e in evs {
        out.ev(e);
    }
}

fn all_lists(maxlen: usize) -> Vec<Vec<u64>> {
    let mut all = vec![vec![]];
    let mut fr: Vec<Vec<u64>> = vec![vec![]];
    for _ in 0..maxlen {
        let mut nx = vec![];
        for s in &fr {
            for a in 0..NAMES.len() as u64 {
                let mut t = s.clone();
                t.push(a);
                nx.push(t);
            }
        }
        all.extend(nx.iter().cloned());
        fr = nx;
    }
    all
}

pub fn main(a: &vcommon::Args) {
    vcommon::quiet_panics();
    match a.get(0) {
        "replay" => {
            let scheds = vcommon::read_schedules(a.get(1));
            let mut out = Out::create(a.get(2));
            for s in &scheds {
                run_sched(&mut out, s);
            }
            println!("runs={} events={}", out.run, out.events);
            out.finish();
        }
        // exhaustive: every (initial list, next list) pair of lists of length <= maxlen, each followed by a poll
        "pairs" => {
            let maxlen = a.num(1) as usize;
            let mut out = Out::create(a.get(2));
            let ls = all_lists(maxlen);
            for i in &ls {
                for j in &ls {
                    let s = json!({"init": i, "cmds": [{"c": "set", "list": j}, {"c": "poll"}]});
                    run_sched(&mut out, &s);
                }
            }
            println!("runs={} events={}", out.run, out.events);
            out.finish();
        }
        "random" => {
            let seed = a.num(1);
            let runs = a.num(2);
            let mut out = Out::create(a.get(3));
            let mut r = vcommon::rng(seed);
            let mut rl = |r: &mut rand::rngs::StdRng| -> Vec<u64> { (0..r.gen_range(0..=3)).map(|_| r.gen_range(0..4)).collect() };
            for _ in 0..runs {
                let init = rl(&mut r);
                let mut cmds = vec![];
                for _ in 0..r.gen_range(2..=8) {
                    cmds.push(match r.gen_range(0..10) {
                        0..=3 => json!({"c": "set", "list": rl(&mut r)}),
                        4..=6 => json!({"c": "remote", "added": r.gen_bool(0.6), "list": rl(&mut r)}),
                        _ => json!({"c": "poll"}),
                    });
                }
                run_sched(&mut out, &json!({"init": init, "cmds": cmds}));
            }
            println!("runs={} events={}", out.run, out.events);
            out.finish();
        }
        m => panic!("proto mode {m}"),
    }
}
