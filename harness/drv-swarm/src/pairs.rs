//! Real pairs: 2-3 real Swarms (derived three-probe behaviour) over MemoryTransport + plaintext +
//! yamux, all polled by hand in one thread; the schedule chooses which Swarm runs next (that choice
//! is the interleaving). Each Swarm's events are written as its own run and validated against the
//! same single-Swarm trace spec (C01, C02, C06 hold per Swarm).
use libp2p_core::{transport::MemoryTransport, upgrade::Version, Transport as _};
use libp2p_identity::Keypair;
use rand::Rng;
use vcommon::{json, Out, Value};
use vswarm::{
    ids::{Ids, Log},
    probe::ProbeBehaviour,
    puppet::World,
    rig::{Rig, RigCfg},
};

use crate::conn::{write_run, Run, Suite, Three};

static NEXT_PORT: std::sync::atomic::AtomicI64 = std::sync::atomic::AtomicI64::new(1000);

fn mk(n: usize, cfg: &Value) -> (Vec<Run<Three>>, i64) {
    let base = NEXT_PORT.fetch_add(10, std::sync::atomic::Ordering::SeqCst);
    let keys: Vec<Keypair> = (0..n).map(|_| Keypair::generate_ed25519()).collect();
    let mut pids: Vec<_> = keys.iter().map(|k| k.public().to_peer_id()).collect();
    while pids.len() < 4 {
        pids.push(libp2p_identity::PeerId::random());
    }
    let mut runs = vec![];
    for k in 0..n {
        // rotate so that the local peer has index 0 in this Swarm's table
        let mut table = vec![pids[k]];
        for (j, p) in pids.iter().enumerate() {
            if j != k {
                table.push(*p);
            }
        }
        let ids = Ids::new(table);
        let log = Log::default();
        let t = MemoryTransport::default()
            .upgrade(Version::V1)
            .authenticate(libp2p_plaintext::Config::new(&keys[k]))
            .multiplex(libp2p_yamux::Config::default())
            .boxed();
        let b = Three::build(&ids, &log, cfg);
        for p in b.probes() {
            p.ctl.with(|c| c.handler_keep_alive = true);
        }
        let rc = RigCfg { npeers: 4, dial_concurrency: 2, ..Default::default() };
        let mut rig = Rig::with_transport(t, World::new(), &rc, ids, log, b);
        rig.swarm.listen_on(crate::conn::addr(base + k as i64)).expect("listen");
        rig.poll_quiescent();
        rig.log.drain();
        runs.push(Run::from_rig(rig, 1));
    }
    let _: Option<ProbeBehaviour> = None;
    (runs, base)
}

/// index of swarm j's peer in swarm k's table
fn peer_idx(k: usize, j: usize) -> i64 {
    if j == k {
        0
    } else if j < k {
        j as i64 + 1
    } else {
        j as i64
    }
}

fn exec(runs: &mut [Run<Three>], base: i64, c: &Value) {
    let name = vcommon::s(c, "c");
    if name == "pollAll" {
        // rounds until a whole round neither produced an event nor woke any Swarm's waker
        for _ in 0..500 {
            let mut progressed = false;
            let wakes0: Vec<usize> = runs.iter().map(|r| r.rig.det.wakes()).collect();
            for r in runs.iter_mut() {
                let before = r.events.len();
                r.exec(&json!({"c": "poll"}));
                if r.events.len() > before + 2 {
                    progressed = true;
                }
            }
            let wakes1: Vec<usize> = runs.iter().map(|r| r.rig.det.wakes()).collect();
            if !progressed && wakes0 == wakes1 {
                break;
            }
        }
        return;
    }
    let s = vcommon::n(c, "s") as usize;
    let mut c2 = c.clone();
    if name == "dial" {
        let to = vcommon::n(c, "to") as usize;
        c2["peer"] = json!(peer_idx(s, to));
        c2["addrs"] = json!([base + to as i64]);
    }
    if name == "disconnect" || name == "behCloseAll" {
        let to = vcommon::n(c, "to") as usize;
        c2["peer"] = json!(peer_idx(s, to));
    }
    runs[s].exec(&c2);
}

fn run_sched(out: &mut Out, s: &Value) {
    let n = vcommon::n(&s["cfg"], "n") as usize;
    let (mut runs, base) = mk(n, &s["cfg"]);
    for c in s["cmds"].as_array().unwrap() {
        exec(&mut runs, base, c);
    }
    exec(&mut runs, base, &json!({"c": "pollAll"}));
    for (k, r) in runs.iter_mut().enumerate() {
        let mut used = r.used.clone();
        used.sort();
        used.dedup();
        r.events.push(json!({"e": "end", "used": used, "muxers": []}));
        let ev = std::mem::take(&mut r.events);
        let mut cfg = s["cfg"].clone();
        cfg["swarm"] = json!(k);
        write_run(out, &cfg, s["cmds"].as_array().unwrap(), ev);
    }
}

pub fn main(a: &vcommon::Args) {
    vcommon::quiet_panics();
    match a.get(0) {
        "replay" => {
            let scheds = vcommon::read_schedules(a.get(1));
            let mut out = Out::create(a.get(2));
            // every Swarm of a run embeds the same schedule: replay each distinct one once
            let mut seen = std::collections::HashSet::new();
            for s in &scheds {
                let mut key = s.clone();
                key["cfg"]["swarm"] = json!(0);
                if seen.insert(key.to_string()) {
                    run_sched(&mut out, s);
                }
            }
            println!("runs={} events={}", out.run, out.events);
            out.finish();
        }
        "random" => {
            let seed = a.num(1);
            let runs = a.num(2);
            let mut out = Out::create(a.get(3));
            let mut r = vcommon::rng(seed);
            for _ in 0..runs {
                let n = r.gen_range(2..=3usize);
                let deny_p = [0.0, 0.0, 0.2][r.gen_range(0..3)];
                let mut cmds = vec![];
                let mut nid = vec![0i64; n];
                for _ in 0..r.gen_range(6..=24) {
                    let s = r.gen_range(0..n);
                    let mut to = r.gen_range(0..n);
                    if to == s && r.gen_bool(0.9) {
                        to = (s + 1) % n;
                    }
                    cmds.push(match r.gen_range(0..100) {
                        0..=19 => {
                            nid[s] += 1;
                            nid[to] += 1;
                            let conds = ["Always", "Always", "Disconnected", "NotDialing", "DisconnectedAndNotDialing"];
                            let mut plan = vec![];
                            for _ in 0..3 {
                                plan.push(json!([r.gen_bool(deny_p), r.gen_bool(deny_p)]));
                            }
                            json!({"c": "dial", "s": s, "to": to, "cond": conds[r.gen_range(0..5)], "plan": plan})
                        }
                        20..=27 if nid[s] > 0 => json!({"c": "close", "s": s, "id": r.gen_range(1..=nid[s])}),
                        28..=33 => json!({"c": "disconnect", "s": s, "to": to}),
                        34..=38 if nid[s] > 0 => json!({"c": "behClose", "s": s, "id": r.gen_range(1..=nid[s])}),
                        39..=42 if nid[s] > 0 => json!({"c": "keepAlive", "s": s, "id": r.gen_range(1..=nid[s]), "v": false}),
                        43..=69 => json!({"c": "poll", "s": s}),
                        70..=79 => json!({"c": "poll1", "s": s}),
                        80..=84 => json!({"c": "pollRaw", "s": s}),
                        _ => json!({"c": "pollAll"}),
                    });
                }
                run_sched(&mut out, &json!({"cfg": {"n": n, "suite": "pairs"}, "cmds": cmds}));
            }
            println!("runs={} events={}", out.run, out.events);
            out.finish();
        }
        m => panic!("pairs mode {m}"),
    }
}
