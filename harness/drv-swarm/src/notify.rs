//! C07: behaviour -> handler notifications. A real Swarm with a small notify buffer, three
//! established connections (two to peer 1, one to peer 2); behaviour b1 emits bursts of
//! NotifyHandler::One / ::Any commands interleaved with closes, muxer failures and a late new
//! connection; the probe handlers log every delivery with the emission sequence number.
use rand::Rng;
use vcommon::{json, Out, Value};

use crate::conn::Run;

fn setup(cfg: &Value) -> Run {
    let mut run: Run = Run::new(cfg);
    // connections 1,2 -> peer 1 ; 3 -> peer 2
    for (i, p) in [(0, 1), (1, 1), (2, 2)] {
        run.exec(&json!({"c": "dial", "peer": p, "cond": "Always", "addrs": [20 + i]}));
        run.exec(&json!({"c": "envDial", "n": i, "ok": true, "who": p}));
    }
    run.exec(&json!({"c": "poll"}));
    run
}

fn keep(e: &Value) -> bool {
    let n = e["e"].as_str().unwrap_or("");
    let b1 = e.get("b").map(|b| b == "b1").unwrap_or(true);
    match n {
        "bEmit" | "hEvent" => true,
        "cbConnEstablished" | "cbConnClosed" => b1,
        "close" | "behClose" | "behCloseAll" | "disconnect" | "failMux" | "keepAlive" | "panic" | "emitQueued" | "polled" | "ranTask" => true,
        _ => false,
    }
}

fn run_sched(out: &mut Out, s: &Value) {
    let cfg = s["cfg"].clone();
    let mut run = setup(&cfg);
    for c in s["cmds"].as_array().unwrap() {
        run.exec(c);
    }
    run.exec(&json!({"c": "poll"}));
    // resolve outstanding dials, then quiesce
    run.finish();
    out.reset_with(cfg.clone(), s);
    for e in std::mem::take(&mut run.events) {
        if keep(&e) {
            out.ev(e);
        }
    }
    out.ev(json!({"e": "end"}));
}

pub fn main(a: &vcommon::Args) {
    vcommon::quiet_panics();
    match a.get(0) {
        "replay" => {
            let scheds = vcommon::read_schedules(a.get(1));
            let mut out = Out::create(a.get(2));
            for s in &scheds {
                run_sched(&mut out, s);
            }
            println!("runs={} events={}", out.run, out.events);
            out.finish();
        }
        "random" => {
            let seed = a.num(1);
            let runs = a.num(2);
            let mut out = Out::create(a.get(3));
            let mut r = vcommon::rng(seed);
            for _ in 0..runs {
                let manual = r.gen_bool(0.5);
                let cfg = json!({"notify_buffer": r.gen_range(1..=2), "concurrency": 8, "manual": manual});
                let steps = r.gen_range(4..=12);
                let mut cmds: Vec<Value> = vec![];
                let mut nconn = 3i64;
                let mut nslots = 3i64;
                for _ in 0..steps {
                    let c = match r.gen_range(0..100) {
                        0..=39 => {
                            let m = r.gen_range(1..=6);
                            let targets: Vec<Value> = (0..m)
                                .map(|_| {
                                    if r.gen_bool(0.5) {
                                        let id = r.gen_range(1..=nconn);
                                        json!({"one": id, "peer": if id == 3 { 2 } else { 1 }})
                                    } else {
                                        json!({"any": r.gen_range(1..=2)})
                                    }
                                })
                                .collect();
                            json!({"c": "emit", "targets": targets})
                        }
                        40..=47 => json!({"c": "behClose", "id": r.gen_range(1..=nconn)}),
                        48..=53 => json!({"c": "close", "id": r.gen_range(1..=nconn)}),
                        54..=59 => json!({"c": "failMux", "id": r.gen_range(1..=nconn)}),
                        60..=62 => json!({"c": "disconnect", "peer": r.gen_range(1..=2)}),
                        63..=64 => json!({"c": "behCloseAll", "peer": r.gen_range(1..=2)}),
                        65..=72 if nconn < 6 => {
                            // a late connection to peer 1: dial now, complete immediately (established during the next poll)
                            nconn += 1;
                            nslots += 1;
                            cmds.push(json!({"c": "dial", "peer": 1, "cond": "Always", "addrs": [30 + nconn]}));
                            json!({"c": "envDial", "n": nslots - 1, "ok": true, "who": 1})
                        }
                        73..=80 if manual => json!({"c": "pollSwarm"}),
                        81..=86 if manual => json!({"c": "runTask", "k": r.gen_range(0..8)}),
                        73..=89 => json!({"c": "poll"}),
                        90..=94 if !manual => json!({"c": "pollRaw"}),
                        _ => json!({"c": "poll1"}),
                    };
                    cmds.push(c);
                }
                let s = json!({"cfg": cfg, "cmds": cmds});
                run_sched(&mut out, &s);
            }
            println!("runs={} events={}", out.run, out.events);
            out.finish();
        }
        m => panic!("notify mode {m}"),
    }
}
