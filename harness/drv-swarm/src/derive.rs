//! C58: #[derive(NetworkBehaviour)] over three probe behaviours: every FromSwarm reaches every
//! field in field order, handler events are routed back to the field whose handler produced them,
//! a connection is denied iff some field denies, pending-dial addresses = union of the fields'.
use rand::Rng;
use vcommon::{json, Out, Value};

use crate::conn::{gen_cmd, write_run, Run, Three};

fn run_sched(out: &mut Out, cfg: &Value, cmds: &[Value]) {
    let mut run: Run<Three> = Run::new(cfg);
    for c in cmds {
        run.exec(c);
    }
    run.finish();
    let ev: Vec<Value> = std::mem::take(&mut run.events).into_iter().filter(|e| e["e"] != "snap").collect();
    write_run(out, cfg, cmds, ev);
}

pub fn main(a: &vcommon::Args) {
    vcommon::quiet_panics();
    match a.get(0) {
        "replay" => {
            let scheds = vcommon::read_schedules(a.get(1));
            let mut out = Out::create(a.get(2));
            for s in &scheds {
                run_sched(&mut out, &s["cfg"], s["cmds"].as_array().unwrap());
            }
            println!("runs={} events={}", out.run, out.events);
            out.finish();
        }
        "random" => {
            let seed = a.num(1);
            let runs = a.num(2);
            let mut out = Out::create(a.get(3));
            let mut r = vcommon::rng(seed);
            for _ in 0..runs {
                let cfg = json!({"concurrency": 3, "maxconn": 6});
                let mut run: Run<Three> = Run::new(&cfg);
                let mut sched = vec![];
                let deny_p = [0.0, 0.15, 0.35][r.gen_range(0..3)];
                for _ in 0..r.gen_range(10..=30) {
                    let nconn = run.used.len() as i64;
                    let mut c = match r.gen_range(0..100) {
                        0..=11 if nconn < 6 => {
                            // dial with per-field behaviour addresses and the extend flag
                            let mut beh = vec![];
                            for _ in 0..3 {
                                let l: Vec<i64> = (0..r.gen_range(0..=2)).map(|_| [2, 3, 4, 5, 100][r.gen_range(0..5)]).collect();
                                beh.push(json!(l));
                            }
                            let mut plan = vec![];
                            for _ in 0..3 {
                                plan.push(json!([r.gen_bool(deny_p), r.gen_bool(deny_p)]));
                            }
                            let na = r.gen_range(0..=2);
                            json!({"c": "dial", "peer": r.gen_range(1..=2), "cond": "Always", "addrs": (0..na).map(|_| r.gen_range(1..=3)).collect::<Vec<i64>>(),
                                "beh_addrs": beh, "extend": r.gen_bool(0.7), "plan": plan})
                        }
                        28..=33 => {
                            let mut beh = vec![];
                            for _ in 0..3 {
                                let l: Vec<i64> = (0..r.gen_range(0..=2)).map(|_| [2, 3, 4, 5][r.gen_range(0..4)]).collect();
                                beh.push(json!(l));
                            }
                            let mut plan = vec![];
                            for _ in 0..3 {
                                plan.push(json!([r.gen_bool(deny_p), false]));
                            }
                            json!({"c": "hpoc", "peer": if r.gen_bool(0.5) { -1 } else { r.gen_range(1..=2) }, "beh_addrs": beh, "plan": plan})
                        }
                        12..=19 if nconn > 0 => json!({"c": "hEmit", "id": r.gen_range(1..=nconn), "field": r.gen_range(0..3)}),
                        20..=27 if nconn > 0 => json!({"c": "emitF", "id": r.gen_range(1..=nconn), "field": r.gen_range(0..3), "peer": r.gen_range(1..=2)}),
                        _ => gen_cmd(&mut r, &run, 6, deny_p),
                    };
                    if c["c"] == "envDial" && c["who"] == -2 {
                        let n = c["n"].as_u64().unwrap() as usize;
                        let id = run.slot_conn[n];
                        let exp = run.events.iter().find(|e| e["e"] == "dial" && e["id"] == id).map(|e| e["peer"].as_i64().unwrap()).unwrap_or(1);
                        c["who"] = json!(if exp >= 0 { exp } else { r.gen_range(1..=2) });
                    }
                    run.exec(&c);
                    sched.push(c);
                }
                run.finish();
                let ev: Vec<Value> = std::mem::take(&mut run.events).into_iter().filter(|e| e["e"] != "snap").collect();
                write_run(&mut out, &cfg, &sched, ev);
            }
            println!("runs={} events={}", out.run, out.events);
            out.finish();
        }
        m => panic!("derive mode {m}"),
    }
}
