//! C45: the REAL request-response `Behaviour` together with its REAL per-connection `Handler`s and a
//! byte-level codec. The driver plays the Swarm (dial outcomes, connection establishment / denial /
//! closing / closure, delivery or loss of `NotifyHandler` commands, substream negotiation results)
//! and the remote peers (scripted in-memory streams: respond, stall, EOF, IO errors), and the
//! application (answer or drop response channels).
//!
//! Schedule: {"to": request timeout ms, "ops": [..]}; remote peers 0..2, connection j (0..2) of peer p = 2p+j.
//!   {"a":"send","p"}                       send_request to peer p
//!   {"a":"dial","p","j","r"}               resolve a pending dial to p: r = "ok" | "fail" | "deny" (denied by another
//!                                          behaviour after handle_established_outbound_connection)
//!   {"a":"inconn","p","j","r"}             inbound connection from p: r = "ok" | "deny"
//!   {"a":"neg","c","i","r"}                i-th pending substream request of connection c: "ok"|"timeout"|"unsup"|"io"
//!   {"a":"remote","c","i","r"}             i-th outbound stream of c: remote "respond"|"eof"|"reset"|"garbage"
//!   {"a":"inb","c","r"}                    inbound stream on c: remote sends "req" | "partial" | "eof" | "reset"
//!   {"a":"app","i","r"}                    i-th undecided inbound request: "respond" | "drop"
//!   {"a":"wfail","c"}                      local writes on the streams of c start failing
//!   {"a":"sleep"}                          wait longer than the request timeout (only meaningful with small "to")
//!   {"a":"closing","c"} {"a":"close","c"}  connection task ended (commands to it are lost) / ConnectionClosed delivered
//! At the end the driver fails all pending dials, closes every connection and drains, then logs `end`.
use std::{collections::VecDeque, io, time::Duration};

use futures::{AsyncRead, AsyncReadExt, AsyncWrite, AsyncWriteExt};
use libp2p_core::{muxing::SubstreamBox, transport::PortUse, ConnectedPoint, Endpoint, Multiaddr};
use libp2p_identity::PeerId;
use libp2p_request_response as rr;
use libp2p_swarm::{
    behaviour::{ConnectionClosed, ConnectionEstablished, DialFailure, FromSwarm, ListenFailure},
    dial_opts::PeerCondition,
    handler::{ConnectionEvent, ConnectionHandlerEvent, DialUpgradeError, FullyNegotiatedInbound, FullyNegotiatedOutbound, StreamUpgradeError},
    ConnectionDenied, ConnectionHandler, ConnectionId, DialError, ListenError, NetworkBehaviour, NotifyHandler, Stream, StreamProtocol,
    THandler, ToSwarm,
};
use rand::Rng;
use vcommon::{exec::Det, json, pipe, Out, Value};

const PROTO: StreamProtocol = StreamProtocol::new("/verif/rr/1");
const NP: usize = 2;

/// Two-byte messages: [0x51, x] request, [0x52, x] response.
#[derive(Clone, Default)]
struct Codec2;

async fn read2<T: AsyncRead + Unpin + Send>(io: &mut T, tag: u8) -> io::Result<u8> {
    let mut b = [0u8; 2];
    io.read_exact(&mut b).await?;
    if b[0] != tag {
        return Err(io::Error::new(io::ErrorKind::InvalidData, "bad tag"));
    }
    Ok(b[1])
}

impl rr::Codec for Codec2 {
    type Protocol = StreamProtocol;
    type Request = u8;
    type Response = u8;
    async fn read_request<T: AsyncRead + Unpin + Send>(&mut self, _: &StreamProtocol, io: &mut T) -> io::Result<u8> {
        read2(io, 0x51).await
    }
    async fn read_response<T: AsyncRead + Unpin + Send>(&mut self, _: &StreamProtocol, io: &mut T) -> io::Result<u8> {
        read2(io, 0x52).await
    }
    async fn write_request<T: AsyncWrite + Unpin + Send>(&mut self, _: &StreamProtocol, io: &mut T, r: u8) -> io::Result<()> {
        io.write_all(&[0x51, r]).await
    }
    async fn write_response<T: AsyncWrite + Unpin + Send>(&mut self, _: &StreamProtocol, io: &mut T, r: u8) -> io::Result<()> {
        io.write_all(&[0x52, r]).await
    }
}

type Beh = rr::Behaviour<Codec2>;
type Hdl = THandler<Beh>;

/// local end = listener end of the pipe: reads direction 0, writes direction 1
fn stream(det: &Det) -> (Stream, pipe::PipeCtl) {
    let (a, b, ctl) = pipe::pipe(true);
    let d = multistream_select::dialer_select_proto(a, vec!["/verif/rr/1"], multistream_select::Version::V1);
    let l = multistream_select::listener_select_proto(SubstreamBox::new(b), vec!["/verif/rr/1"]);
    let mut both = Box::pin(futures::future::join(d, l));
    let (rd, rl) = det.run_until_stalled(both.as_mut(), 1000).expect("negotiation completes");
    let (_, remote_io) = rd.expect("dialer");
    let (_, io) = rl.expect("listener");
    std::mem::forget(remote_io); // the remote end is operated through `ctl` only
    (libp2p_swarm::verif::stream(io), ctl)
}

#[derive(PartialEq, Clone, Copy)]
enum CState {
    Est,
    Closing,
}

struct Conn {
    c: usize,
    state: CState,
    handler: Hdl,
    pending_substreams: usize,
    out_streams: Vec<pipe::PipeCtl>,
    all_streams: Vec<pipe::PipeCtl>,
    outbound: bool,
}

struct World {
    beh: Beh,
    peers: Vec<PeerId>,
    conns: Vec<Option<Conn>>,
    dialing: Vec<VecDeque<ConnectionId>>,
    channels: Vec<rr::ResponseChannel<u8>>,
    det: Det,
    evs: Vec<Value>,
    to_ms: u64,
    next_val: u8,
}

fn addr(c: usize) -> Multiaddr {
    format!("/ip4/10.0.0.{}/tcp/{}", c / 2 + 1, 4000 + c).parse().unwrap()
}

fn cid(c: usize) -> ConnectionId {
    ConnectionId::new_unchecked(1000 + c)
}

impl World {
    fn pidx(&self, p: &PeerId) -> i64 {
        self.peers.iter().position(|x| x == p).map(|i| i as i64).unwrap_or(-1)
    }

    fn swarm_connected(&self, p: usize) -> bool {
        (0..2).any(|j| self.conns[2 * p + j].is_some())
    }

    fn log_event(&mut self, e: rr::Event<u8, u8>) {
        let v = match e {
            rr::Event::Message { peer, connection_id, message } => match message {
                rr::Message::Request { request_id, channel, .. } => {
                    self.channels.push(channel);
                    json!({"e": "req", "iid": format!("{request_id}").parse::<i64>().unwrap(), "p": self.pidx(&peer), "c": format!("{connection_id}")})
                }
                rr::Message::Response { request_id, .. } => {
                    json!({"e": "out", "id": format!("{request_id}").parse::<i64>().unwrap(), "k": "response", "p": self.pidx(&peer)})
                }
            },
            rr::Event::OutboundFailure { peer, request_id, error, .. } => {
                let k = match error {
                    rr::OutboundFailure::DialFailure => "dial",
                    rr::OutboundFailure::Timeout => "timeout",
                    rr::OutboundFailure::ConnectionClosed => "closed",
                    rr::OutboundFailure::UnsupportedProtocols => "unsup",
                    rr::OutboundFailure::Io(_) => "io",
                };
                json!({"e": "out", "id": format!("{request_id}").parse::<i64>().unwrap(), "k": k, "p": self.pidx(&peer)})
            }
            rr::Event::InboundFailure { peer, request_id, error, .. } => {
                let k = match error {
                    rr::InboundFailure::Timeout => "timeout",
                    rr::InboundFailure::ConnectionClosed => "closed",
                    rr::InboundFailure::UnsupportedProtocols => "unsup",
                    rr::InboundFailure::ResponseOmission => "omission",
                    rr::InboundFailure::Io(_) => "io",
                };
                json!({"e": "in", "iid": format!("{request_id}").parse::<i64>().unwrap(), "k": k, "p": self.pidx(&peer)})
            }
            rr::Event::ResponseSent { peer, request_id, .. } => {
                json!({"e": "in", "iid": format!("{request_id}").parse::<i64>().unwrap(), "k": "sent", "p": self.pidx(&peer)})
            }
        };
        self.evs.push(v);
    }

    /// One round: drain the behaviour (acting as the Swarm on its commands), then poll every live
    /// handler to quiescence. Returns whether anything happened.
    fn round(&mut self) -> bool {
        let mut progress = false;
        let det = self.det.clone();
        loop {
            let items = vcommon::exec::drain(&det, 64, |cx| self.beh.poll(cx));
            if items.is_empty() {
                break;
            }
            progress = true;
            for it in items {
                match it {
                    ToSwarm::GenerateEvent(e) => self.log_event(e),
                    ToSwarm::Dial { opts } => {
                        let peer = opts.get_peer_id().expect("dial by peer id");
                        let p = self.pidx(&peer) as usize;
                        let id = opts.connection_id();
                        // default condition of DialOpts::peer_id: DisconnectedAndNotDialing
                        if self.swarm_connected(p) || !self.dialing[p].is_empty() {
                            let err = DialError::DialPeerConditionFalse(PeerCondition::DisconnectedAndNotDialing);
                            self.evs.push(json!({"e": "dial_skipped", "p": p}));
                            self.beh.on_swarm_event(FromSwarm::DialFailure(DialFailure { peer_id: Some(peer), error: &err, connection_id: id }));
                        } else {
                            // the swarm asks the behaviour for addresses
                            let _ = self.beh.handle_pending_outbound_connection(id, Some(peer), &[], Endpoint::Dialer);
                            self.dialing[p].push_back(id);
                            self.evs.push(json!({"e": "dialing", "p": p}));
                        }
                    }
                    ToSwarm::NotifyHandler { peer_id, handler, event } => {
                        let target = match handler {
                            NotifyHandler::One(id) => (0..2 * NP).find(|c| cid(*c) == id),
                            NotifyHandler::Any => {
                                let p = self.pidx(&peer_id) as usize;
                                (0..2).map(|j| 2 * p + j).find(|c| self.conns[*c].is_some())
                            }
                        };
                        match target.and_then(|c| self.conns[c].as_mut()) {
                            Some(conn) if conn.state == CState::Est => conn.handler.on_behaviour_event(event),
                            _ => self.evs.push(json!({"e": "cmd_lost"})), // connection task gone: the command is dropped
                        }
                    }
                    _ => {}
                }
            }
        }
        for c in 0..2 * NP {
            loop {
                let Some(conn) = self.conns[c].as_mut() else { break };
                if conn.state != CState::Est {
                    break;
                }
                let before = det.wakes();
                let mut cx = det.cx();
                match conn.handler.poll(&mut cx) {
                    std::task::Poll::Ready(ConnectionHandlerEvent::NotifyBehaviour(ev)) => {
                        progress = true;
                        let peer = self.peers[c / 2];
                        self.beh.on_connection_handler_event(peer, cid(c), ev);
                    }
                    std::task::Poll::Ready(ConnectionHandlerEvent::OutboundSubstreamRequest { .. }) => {
                        progress = true;
                        conn.pending_substreams += 1;
                    }
                    std::task::Poll::Ready(_) => {
                        progress = true;
                    }
                    std::task::Poll::Pending => {
                        if det.wakes() == before {
                            break;
                        }
                    }
                }
            }
        }
        progress
    }

    fn settle(&mut self) {
        for _ in 0..200 {
            if !self.round() {
                return;
            }
        }
        self.evs.push(json!({"e": "driver_livelock"}));
    }

    fn establish(&mut self, p: usize, j: usize, outbound: bool, deny: bool, dial_id: Option<ConnectionId>) {
        let c = 2 * p + j;
        let peer = self.peers[p];
        let id = cid(c);
        let _ = dial_id;
        let local: Multiaddr = "/ip4/10.0.0.100/tcp/4001".parse().unwrap();
        let handler = if outbound {
            self.beh.handle_established_outbound_connection(id, peer, &addr(c), Endpoint::Dialer, PortUse::Reuse)
        } else {
            self.beh.handle_established_inbound_connection(id, peer, &local, &addr(c))
        }
        .expect("request-response never denies");
        let ep = if outbound {
            ConnectedPoint::Dialer { address: addr(c), role_override: Endpoint::Dialer, port_use: PortUse::Reuse }
        } else {
            ConnectedPoint::Listener { local_addr: local.clone(), send_back_addr: addr(c) }
        };
        if deny {
            // another behaviour of the composed NetworkBehaviour denied the established connection
            drop(handler);
            let cause = ConnectionDenied::new(io::Error::other("denied by another behaviour"));
            self.evs.push(json!({"e": "est_denied", "p": p, "c": c, "outbound": outbound}));
            if outbound {
                let err = DialError::Denied { cause };
                self.beh.on_swarm_event(FromSwarm::DialFailure(DialFailure { peer_id: Some(peer), error: &err, connection_id: id }));
            } else {
                let err = ListenError::Denied { cause };
                self.beh.on_swarm_event(FromSwarm::ListenFailure(ListenFailure {
                    local_addr: &local,
                    send_back_addr: &addr(c),
                    error: &err,
                    connection_id: id,
                    peer_id: Some(peer),
                }));
            }
            return;
        }
        let other = if self.conns[c ^ 1].is_some() { 1 } else { 0 };
        self.conns[c] = Some(Conn { c, state: CState::Est, handler, pending_substreams: 0, out_streams: vec![], all_streams: vec![], outbound });
        self.evs.push(json!({"e": "conn", "p": p, "c": c, "outbound": outbound}));
        self.beh.on_swarm_event(FromSwarm::ConnectionEstablished(ConnectionEstablished {
            peer_id: peer,
            connection_id: id,
            endpoint: &ep,
            failed_addresses: &[],
            other_established: other,
        }));
    }

    fn close(&mut self, c: usize) {
        let Some(conn) = self.conns[c].take() else { return };
        let ep = if conn.outbound {
            ConnectedPoint::Dialer { address: addr(c), role_override: Endpoint::Dialer, port_use: PortUse::Reuse }
        } else {
            ConnectedPoint::Listener { local_addr: "/ip4/10.0.0.100/tcp/4001".parse().unwrap(), send_back_addr: addr(c) }
        };
        debug_assert_eq!(conn.c, c);
        drop(conn);
        let rem = if self.conns[c ^ 1].is_some() { 1 } else { 0 };
        self.evs.push(json!({"e": "close", "c": c}));
        self.beh.on_swarm_event(FromSwarm::ConnectionClosed(ConnectionClosed {
            peer_id: self.peers[c / 2],
            connection_id: cid(c),
            endpoint: &ep,
            cause: None,
            remaining_established: rem,
        }));
    }

    /// resolve a connection operand: c >= 0 literal; c = -1: the (i mod n)-th connection satisfying `ok`
    fn pick_conn(&self, op: &Value, ok: impl Fn(&Conn) -> bool) -> Option<usize> {
        let c = vcommon::n(op, "c");
        if c >= 0 {
            return Some(c as usize);
        }
        let i = op.get("i").and_then(|x| x.as_u64()).unwrap_or(0) as usize;
        let el: Vec<usize> = (0..2 * NP).filter(|c| self.conns[*c].as_ref().map(|x| ok(x)).unwrap_or(false)).collect();
        if el.is_empty() { None } else { Some(el[i % el.len()]) }
    }

    fn op(&mut self, op: &Value) {
        let a = vcommon::s(op, "a");
        let r = op.get("r").and_then(|x| x.as_str()).unwrap_or("").to_string();
        match a.as_str() {
            "send" => {
                let p = vcommon::n(op, "p") as usize;
                self.next_val = self.next_val.wrapping_add(1);
                let id = self.beh.send_request(&self.peers[p], self.next_val);
                self.evs.push(json!({"e": "send", "id": format!("{id}").parse::<i64>().unwrap(), "p": p}));
            }
            "dial" => {
                let mut p = vcommon::n(op, "p");
                if p < 0 {
                    // any peer with a pending dial
                    match (0..NP).find(|p| !self.dialing[*p].is_empty()) {
                        Some(x) => p = x as i64,
                        None => return,
                    }
                }
                let p = p as usize;
                let mut j = vcommon::n(op, "j") as usize;
                if self.conns[2 * p + j].is_some() && self.conns[2 * p + (j ^ 1)].is_none() {
                    j ^= 1;
                }
                let Some(id) = self.dialing[p].front().copied() else { return };
                if r == "fail" || r == "denyp" {
                    self.dialing[p].pop_front();
                    // "denyp": another behaviour denied the dial at the PENDING stage (handle_pending_outbound_connection),
                    // i.e. before any handler exists (seeded mutant C45-1)
                    let err = if r == "denyp" { DialError::Denied { cause: ConnectionDenied::new(io::Error::other("denied at the pending stage")) } } else { DialError::Transport(vec![]) };
                    self.evs.push(json!({"e": "dial_failed", "p": p}));
                    self.beh.on_swarm_event(FromSwarm::DialFailure(DialFailure { peer_id: Some(self.peers[p]), error: &err, connection_id: id }));
                } else {
                    if self.conns[2 * p + j].is_some() {
                        return;
                    }
                    self.dialing[p].pop_front();
                    self.establish(p, j, true, r == "deny", Some(id));
                }
            }
            "inconn" => {
                let p = vcommon::n(op, "p") as usize;
                let j = vcommon::n(op, "j") as usize;
                if self.conns[2 * p + j].is_some() {
                    return;
                }
                self.establish(p, j, false, r == "deny", None);
            }
            "neg" => {
                let Some(c) = self.pick_conn(op, |x| x.state == CState::Est && x.pending_substreams > 0) else { return };
                let det = self.det.clone();
                let Some(conn) = self.conns[c].as_mut() else { return };
                if conn.state != CState::Est || conn.pending_substreams == 0 {
                    return;
                }
                conn.pending_substreams -= 1;
                let ev = match r.as_str() {
                    "ok" => {
                        let (s, ctl) = stream(&det);
                        conn.out_streams.push(ctl.clone());
                        conn.all_streams.push(ctl);
                        ConnectionEvent::FullyNegotiatedOutbound(FullyNegotiatedOutbound { protocol: (s, PROTO), info: () })
                    }
                    "timeout" => ConnectionEvent::DialUpgradeError(DialUpgradeError { info: (), error: StreamUpgradeError::Timeout }),
                    "unsup" => ConnectionEvent::DialUpgradeError(DialUpgradeError { info: (), error: StreamUpgradeError::NegotiationFailed }),
                    _ => ConnectionEvent::DialUpgradeError(DialUpgradeError { info: (), error: StreamUpgradeError::Io(io::ErrorKind::ConnectionReset.into()) }),
                };
                conn.handler.on_connection_event(ev);
            }
            "remote" => {
                let Some(c) = self.pick_conn(op, |x| !x.out_streams.is_empty()) else { return };
                let Some(conn) = self.conns[c].as_mut() else { return };
                if conn.out_streams.is_empty() {
                    return;
                }
                let i = vcommon::n(op, "i") as usize % conn.out_streams.len();
                let ctl = conn.out_streams.remove(i);
                match r.as_str() {
                    "respond" => {
                        ctl.inject(0, &[0x52, 7]);
                        ctl.close_dir(0);
                    }
                    "eof" => ctl.close_dir(0),
                    "garbage" => {
                        ctl.inject(0, &[0x00, 0x00]);
                        ctl.close_dir(0);
                    }
                    _ => ctl.fail_read(0),
                }
            }
            "inb" => {
                let Some(c) = self.pick_conn(op, |x| x.state == CState::Est) else { return };
                let det = self.det.clone();
                let Some(conn) = self.conns[c].as_mut() else { return };
                if conn.state != CState::Est {
                    return;
                }
                let (s, ctl) = stream(&det);
                match r.as_str() {
                    "req" => ctl.inject(0, &[0x51, 9]),
                    "partial" => ctl.inject(0, &[0x51]),
                    "eof" => ctl.close_dir(0),
                    _ => ctl.fail_read(0),
                }
                conn.all_streams.push(ctl);
                conn.handler.on_connection_event(ConnectionEvent::FullyNegotiatedInbound(FullyNegotiatedInbound { protocol: (s, PROTO), info: () }));
            }
            "app" => {
                if self.channels.is_empty() {
                    return;
                }
                let i = vcommon::n(op, "i") as usize % self.channels.len();
                let ch = self.channels.remove(i);
                if r == "respond" {
                    let _ = self.beh.send_response(ch, 3);
                } else {
                    drop(ch);
                }
            }
            "wfail" => {
                let Some(c) = self.pick_conn(op, |x| !x.all_streams.is_empty()) else { return };
                let Some(conn) = self.conns[c].as_mut() else { return };
                for ctl in &conn.all_streams {
                    ctl.with(1, |d| d.fail_write = true);
                }
            }
            "sleep" => {
                std::thread::sleep(Duration::from_millis(self.to_ms + self.to_ms / 2 + 5));
            }
            "closing" => {
                let Some(c) = self.pick_conn(op, |x| x.state == CState::Est) else { return };
                if let Some(conn) = self.conns[c].as_mut() {
                    conn.state = CState::Closing;
                    self.evs.push(json!({"e": "closing", "c": c}));
                }
            }
            "close" => {
                let Some(c) = self.pick_conn(op, |_| true) else { return };
                self.close(c);
            }
            x => panic!("op {x}"),
        }
        self.settle();
    }

    fn finish(&mut self) {
        for p in 0..NP {
            while let Some(id) = self.dialing[p].pop_front() {
                let err = DialError::Transport(vec![]);
                self.evs.push(json!({"e": "dial_failed", "p": p}));
                self.beh.on_swarm_event(FromSwarm::DialFailure(DialFailure { peer_id: Some(self.peers[p]), error: &err, connection_id: id }));
                self.settle();
            }
        }
        for c in 0..2 * NP {
            self.close(c);
            self.settle();
        }
        // dials triggered meanwhile
        for p in 0..NP {
            while let Some(id) = self.dialing[p].pop_front() {
                let err = DialError::Transport(vec![]);
                self.beh.on_swarm_event(FromSwarm::DialFailure(DialFailure { peer_id: Some(self.peers[p]), error: &err, connection_id: id }));
                self.settle();
            }
        }
        self.evs.push(json!({"e": "end"}));
    }
}

fn run(out: &mut Out, sched: &Value, peers: &[PeerId]) {
    let to_ms = vcommon::n(sched, "to") as u64;
    out.reset_with(json!({"to": to_ms}), sched);
    let cfg = rr::Config::default().with_request_timeout(Duration::from_millis(to_ms)).with_max_concurrent_streams(
        sched.get("mcs").and_then(|x| x.as_u64()).unwrap_or(100) as usize,
    );
    let mut w = World {
        beh: rr::Behaviour::with_codec(Codec2, [(PROTO, rr::ProtocolSupport::Full)], cfg),
        peers: peers.to_vec(),
        conns: (0..2 * NP).map(|_| None).collect(),
        dialing: vec![VecDeque::new(); NP],
        channels: vec![],
        det: Det::new(),
        evs: vec![],
        to_ms,
        next_val: 0,
    };
    let ops = sched["ops"].as_array().unwrap();
    let mut failed = false;
    for op in ops {
        let r = vcommon::guard(|| w.op(op));
        for e in w.evs.drain(..) {
            out.ev(e);
        }
        if let Err(m) = r {
            out.ev(json!({"e": "panic", "msg": m}));
            failed = true;
            break;
        }
    }
    if !failed {
        let r = vcommon::guard(|| w.finish());
        for e in w.evs.drain(..) {
            out.ev(e);
        }
        if let Err(m) = r {
            out.ev(json!({"e": "panic", "msg": m}));
        }
    }
}

fn random_sched(rng: &mut impl Rng, deny: bool) -> Value {
    let fast = rng.gen_range(0..8) == 0;
    let to = if fast { 30 } else { 60_000 };
    let len = rng.gen_range(5..=40);
    let mut ops = vec![];
    let pick = |rng: &mut dyn rand::RngCore, xs: &[&str]| xs[(rng.next_u32() as usize) % xs.len()].to_string();
    for _ in 0..len {
        let x = rng.gen_range(0..100);
        let p = rng.gen_range(0..NP);
        let j = rng.gen_range(0..2);
        // mostly "whichever connection is eligible", sometimes a fixed (possibly ineligible) one
        let c: i64 = if rng.gen_bool(0.8) { -1 } else { (2 * p + j) as i64 };
        let i = rng.gen_range(0..4);
        let op = if x < 20 {
            json!({"a": "send", "p": p})
        } else if x < 32 {
            let r = if deny { pick(rng, &["ok", "ok", "ok", "ok", "fail", "deny", "denyp"]) } else { pick(rng, &["ok", "ok", "ok", "fail"]) };
            json!({"a": "dial", "p": if rng.gen_bool(0.8) { -1 } else { p as i64 }, "j": j, "r": r})
        } else if x < 37 {
            let r = if deny { pick(rng, &["ok", "ok", "ok", "deny"]) } else { "ok".to_string() };
            json!({"a": "inconn", "p": p, "j": j, "r": r})
        } else if x < 53 {
            json!({"a": "neg", "c": c, "i": i, "r": pick(rng, &["ok", "ok", "ok", "ok", "ok", "timeout", "unsup", "io"])})
        } else if x < 65 {
            json!({"a": "remote", "c": c, "i": i, "r": pick(rng, &["respond", "respond", "respond", "respond", "eof", "reset", "garbage"])})
        } else if x < 76 {
            json!({"a": "inb", "c": c, "i": i, "r": pick(rng, &["req", "req", "req", "req", "req", "partial", "eof", "reset"])})
        } else if x < 87 {
            json!({"a": "app", "i": i, "r": pick(rng, &["respond", "respond", "respond", "drop"])})
        } else if x < 89 {
            json!({"a": "wfail", "c": c, "i": i})
        } else if x < 92 {
            if fast { json!({"a": "sleep"}) } else { json!({"a": "send", "p": p}) }
        } else if x < 96 {
            json!({"a": "closing", "c": c, "i": i})
        } else {
            json!({"a": "close", "c": c, "i": i})
        };
        ops.push(op);
    }
    // one run in six with a tiny stream budget (inbound streams dropped, outbound "max sub-streams reached")
    let mcs = if rng.gen_range(0..6) == 0 { rng.gen_range(1..=2) } else { 100 };
    json!({"to": to, "mcs": mcs, "ops": ops})
}

pub fn main(a: &vcommon::Args) {
    vcommon::quiet_panics();
    let peers: Vec<PeerId> = (0..NP).map(|_| PeerId::random()).collect();
    match a.get(0) {
        "replay" => {
            let scheds = vcommon::read_schedules(a.get(1));
            let mut out = Out::create(a.get(2));
            for s in &scheds {
                run(&mut out, s, &peers);
            }
            println!("runs={} events={}", out.run, out.events);
            out.finish();
        }
        // every op sequence of length n over a 15-letter alphabet (wildcard operands), after one send
        "exhaustive" => {
            let n = a.num(1) as usize;
            let mut out = Out::create(a.get(2));
            let alpha: Vec<Value> = vec![
                json!({"a": "send", "p": 0}),
                json!({"a": "dial", "p": -1, "j": 0, "r": "ok"}),
                json!({"a": "dial", "p": -1, "j": 0, "r": "fail"}),
                json!({"a": "dial", "p": -1, "j": 0, "r": "deny"}),
                json!({"a": "dial", "p": -1, "j": 0, "r": "denyp"}),
                json!({"a": "inconn", "p": 0, "j": 1, "r": "ok"}),
                json!({"a": "inconn", "p": 0, "j": 1, "r": "deny"}),
                json!({"a": "neg", "c": -1, "i": 0, "r": "ok"}),
                json!({"a": "neg", "c": -1, "i": 0, "r": "unsup"}),
                json!({"a": "remote", "c": -1, "i": 0, "r": "respond"}),
                json!({"a": "remote", "c": -1, "i": 0, "r": "reset"}),
                json!({"a": "inb", "c": -1, "i": 0, "r": "req"}),
                json!({"a": "app", "i": 0, "r": "respond"}),
                json!({"a": "app", "i": 0, "r": "drop"}),
                json!({"a": "closing", "c": -1, "i": 0}),
                json!({"a": "close", "c": -1, "i": 0}),
            ];
            let k = alpha.len();
            for code in 0..k.pow(n as u32) {
                let mut c = code;
                let mut ops = vec![json!({"a": "send", "p": 0})];
                for _ in 0..n {
                    ops.push(alpha[c % k].clone());
                    c /= k;
                }
                run(&mut out, &json!({"to": 60000, "ops": ops}), &peers);
            }
            println!("runs={} events={}", out.run, out.events);
            out.finish();
        }
        "random" => {
            let seed = a.num(1);
            let runs = a.num(2);
            let deny = a.kv_num("deny", 1) == 1;
            let mut out = Out::create(a.get(3));
            let mut rng = vcommon::rng(seed.wrapping_mul(7919).wrapping_add(45));
            for _ in 0..runs {
                let s = random_sched(&mut rng, deny);
                run(&mut out, &s, &peers);
            }
            println!("runs={} events={}", out.run, out.events);
            out.finish();
        }
        m => {
            eprintln!("unknown sub-mode {m}");
            std::process::exit(2)
        }
    }
}
