//! Driver for libp2p-request-response: every request gets exactly one outcome (C45).
mod outcomes;

fn main() {
    let a = vcommon::Args::parse();
    match a.mode.as_str() {
        "outcomes" => outcomes::main(&a),
        m => {
            eprintln!("unknown mode {m}");
            std::process::exit(2)
        }
    }
}
