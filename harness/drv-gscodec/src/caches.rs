//! C33: the real gossipsub `DuplicateCache` (under the `verif_codec::clock` shim, logical time in
//! units of 1000 s so that the micro-seconds a run takes can never add up to a unit) and the
//! real `MessageCache` (purely logical: shift = heartbeat) under arbitrary op sequences.
//!
//! Schedules:
//! `{"kind":"dup","ttl":T,"ops":[{"a":"tick","d":1}|{"a":"ins","k":K}|{"a":"has","k":K}..]}`
//! `{"kind":"mc","gossip":G,"hist":H,"ops":[{"a":"put","id":I,"t":T}|{"a":"val","id":I}|{"a":"rm","id":I}|
//!    {"a":"shift"}|{"a":"gossip","t":T}|{"a":"iwant","id":I,"p":P}|{"a":"obs","id":I,"p":P}..]}`
//! With `"auto":true` a `gossip` observation for every topic is logged after every mutating op.
use std::time::Duration;

use libp2p_gossipsub::{
    verif_codec::{clock, DuplicateCache, MessageCache},
    IdentTopic, MessageId, RawMessage,
};
use libp2p_identity::PeerId;
use rand::{seq::SliceRandom, Rng};
use vcommon::{json, Out, Value};

const UNIT: u64 = 1000;
const TOPICS: i64 = 2;

fn mid(i: i64) -> MessageId {
    MessageId::new(&[b'm', i as u8])
}

fn idx_of(m: &MessageId) -> i64 {
    m.0.get(1).copied().unwrap_or(255) as i64
}

fn topic(t: i64) -> IdentTopic {
    IdentTopic::new(format!("topic{t}"))
}

fn run_dup(out: &mut Out, sched: &Value) {
    let ttl = vcommon::n(sched, "ttl") as u64;
    out.reset_with(json!({"kind": "dup", "ttl": ttl}), sched);
    let mut cache: DuplicateCache<MessageId> = DuplicateCache::new(Duration::from_secs(ttl * UNIT));
    let mut now: u64 = 1;
    for op in sched["ops"].as_array().unwrap() {
        match vcommon::s(op, "a").as_str() {
            "tick" => {
                let d = vcommon::n(op, "d") as u64;
                clock::advance(Duration::from_secs(d * UNIT));
                now += d;
            }
            "ins" => {
                let k = vcommon::n(op, "k");
                match vcommon::guard(|| cache.insert(mid(k))) {
                    Ok(r) => out.ev(json!({"e": "ins", "k": k, "now": now, "res": r})),
                    Err(m) => out.ev(json!({"e": "panic", "msg": m})),
                }
            }
            "has" => {
                let k = vcommon::n(op, "k");
                match vcommon::guard(|| cache.contains(&mid(k))) {
                    Ok(r) => out.ev(json!({"e": "has", "k": k, "now": now, "res": r})),
                    Err(m) => out.ev(json!({"e": "panic", "msg": m})),
                }
            }
            x => panic!("dup op {x}"),
        }
    }
}

fn run_mc(out: &mut Out, sched: &Value, peers: &[PeerId]) {
    let g = vcommon::n(sched, "gossip") as usize;
    let h = vcommon::n(sched, "hist") as usize;
    let auto = sched.get("auto").and_then(|x| x.as_bool()).unwrap_or(false);
    out.reset_with(json!({"kind": "mc", "gossip": g, "hist": h}), sched);
    let mut mc = MessageCache::new(g, h);
    let gossip_of = |mc: &MessageCache, t: i64| -> Value {
        match vcommon::guard(|| mc.get_gossip_message_ids(&topic(t).hash())) {
            Ok(ids) => json!({"e": "gossip", "t": t, "ids": ids.iter().map(idx_of).collect::<Vec<_>>()}),
            Err(m) => json!({"e": "panic", "msg": m}),
        }
    };
    for op in sched["ops"].as_array().unwrap() {
        let a = vcommon::s(op, "a");
        let ev = match a.as_str() {
            "put" => {
                let id = vcommon::n(op, "id");
                let t = vcommon::n(op, "t");
                let msg = RawMessage {
                    source: None,
                    data: vec![id as u8],
                    sequence_number: None,
                    topic: topic(t).hash(),
                    signature: None,
                    key: None,
                    validated: false,
                };
                vcommon::guard(|| mc.put(&mid(id), msg)).map(|r| json!({"e": "put", "id": id, "t": t, "res": r}))
            }
            "val" => {
                let id = vcommon::n(op, "id");
                vcommon::guard(|| mc.validate(&mid(id)).is_some()).map(|r| json!({"e": "val", "id": id, "res": r}))
            }
            "rm" => {
                let id = vcommon::n(op, "id");
                vcommon::guard(|| mc.remove(&mid(id)).is_some()).map(|r| json!({"e": "rm", "id": id, "res": r}))
            }
            "shift" => vcommon::guard(|| mc.shift()).map(|_| json!({"e": "shift"})),
            "gossip" => Ok(gossip_of(&mc, vcommon::n(op, "t"))),
            "iwant" => {
                let id = vcommon::n(op, "id");
                let p = vcommon::n(op, "p");
                vcommon::guard(|| mc.get_with_iwant_counts(&mid(id), &peers[p as usize]).map(|(m, c)| (m.data.clone(), c))).map(|r| match r {
                    None => json!({"e": "iwant", "id": id, "p": p, "res": 0}),
                    // the message handed out must be the one that was put under this id
                    Some((data, c)) if data == vec![id as u8] => json!({"e": "iwant", "id": id, "p": p, "res": c}),
                    Some(_) => json!({"e": "iwant_wrong_message", "id": id}),
                })
            }
            "obs" => {
                let id = vcommon::n(op, "id");
                let p = vcommon::n(op, "p");
                vcommon::guard(|| mc.observe_duplicate(&mid(id), &peers[p as usize])).map(|_| json!({"e": "obs", "id": id, "p": p}))
            }
            x => panic!("mc op {x}"),
        };
        match ev {
            Ok(v) => out.ev(v),
            Err(m) => {
                out.ev(json!({"e": "panic", "msg": m}));
                return;
            }
        }
        if auto && a != "gossip" && a != "iwant" && a != "obs" {
            for t in 1..=TOPICS {
                out.ev(gossip_of(&mc, t));
            }
        }
    }
}

fn run(out: &mut Out, sched: &Value, peers: &[PeerId]) {
    match vcommon::s(sched, "kind").as_str() {
        "dup" => run_dup(out, sched),
        "mc" => run_mc(out, sched, peers),
        k => panic!("kind {k}"),
    }
}

fn seqs(alphabet: &[Value], n: usize) -> Vec<Vec<Value>> {
    let mut all: Vec<Vec<Value>> = vec![vec![]];
    let mut last: Vec<Vec<Value>> = vec![vec![]];
    for _ in 0..n {
        let mut next = vec![];
        for s in &last {
            for a in alphabet {
                let mut t = s.clone();
                t.push(a.clone());
                next.push(t);
            }
        }
        all.extend(next.iter().cloned());
        last = next;
    }
    all
}

fn exhaustive(thorough: bool) -> Vec<Value> {
    let mut out = vec![];
    // duplicate cache: two keys, every op sequence
    let alpha: Vec<Value> = vec![
        json!({"a": "ins", "k": 0}),
        json!({"a": "ins", "k": 1}),
        json!({"a": "has", "k": 0}),
        json!({"a": "has", "k": 1}),
        json!({"a": "tick", "d": 1}),
    ];
    for (ttl, n) in if thorough { vec![(1, 6), (2, 7), (3, 6)] } else { vec![(1, 4), (2, 5)] } {
        for ops in seqs(&alpha, n) {
            if ops.iter().any(|o| o["a"] == "ins") {
                out.push(json!({"kind": "dup", "ttl": ttl, "ops": ops}));
            }
        }
    }
    // message cache: one message (+ gossip observed after every step), every op sequence
    let alpha: Vec<Value> = vec![
        json!({"a": "put", "id": 1, "t": 1}),
        json!({"a": "val", "id": 1}),
        json!({"a": "rm", "id": 1}),
        json!({"a": "shift"}),
        json!({"a": "iwant", "id": 1, "p": 0}),
    ];
    for (g, h, n) in if thorough { vec![(0, 0, 4), (1, 1, 6), (1, 2, 7), (2, 3, 7), (3, 3, 6)] } else { vec![(0, 0, 3), (1, 1, 4), (1, 2, 4), (2, 3, 4)] } {
        for ops in seqs(&alpha, n) {
            if ops.iter().any(|o| o["a"] == "put") {
                out.push(json!({"kind": "mc", "gossip": g, "hist": h, "auto": true, "ops": ops}));
            }
        }
    }
    // directed: a removed message that is put again while its old history entry is still around
    for (g, h) in [(1, 2), (2, 3), (3, 4)] {
        for gap in 0..h {
            let mut ops = vec![json!({"a": "put", "id": 1, "t": 1}), json!({"a": "val", "id": 1})];
            ops.extend((0..gap).map(|_| json!({"a": "shift"})));
            ops.push(json!({"a": "rm", "id": 1}));
            ops.push(json!({"a": "shift"}));
            ops.push(json!({"a": "put", "id": 1, "t": 2}));
            ops.push(json!({"a": "val", "id": 1}));
            for _ in 0..h {
                ops.push(json!({"a": "iwant", "id": 1, "p": 1}));
                ops.push(json!({"a": "shift"}));
            }
            ops.push(json!({"a": "iwant", "id": 1, "p": 1}));
            out.push(json!({"kind": "mc", "gossip": g, "hist": h, "auto": true, "ops": ops}));
        }
    }
    out
}

fn random(seed: u64, runs: u64) -> Vec<Value> {
    let mut rng = vcommon::rng(seed ^ 0x33);
    let mut out = vec![];
    for r in 0..runs {
        if r % 3 == 0 {
            let ttl = rng.gen_range(1..=4);
            let nk = rng.gen_range(1..=4);
            let n = rng.gen_range(5..=40);
            let ops: Vec<Value> = (0..n)
                .map(|_| match rng.gen_range(0..10) {
                    0..=3 => json!({"a": "ins", "k": rng.gen_range(0..nk)}),
                    4..=6 => json!({"a": "has", "k": rng.gen_range(0..nk)}),
                    7 | 8 => json!({"a": "tick", "d": 1}),
                    _ => json!({"a": "tick", "d": rng.gen_range(1..=ttl)}),
                })
                .collect();
            out.push(json!({"kind": "dup", "ttl": ttl, "ops": ops}));
        } else {
            let h = rng.gen_range(0..=4);
            let g = rng.gen_range(0..=h);
            let ni = rng.gen_range(1..=4);
            let n = rng.gen_range(5..=40);
            let ops: Vec<Value> = (0..n)
                .map(|_| {
                    let id = rng.gen_range(1..=ni);
                    match rng.gen_range(0..16) {
                        0..=3 => json!({"a": "put", "id": id, "t": rng.gen_range(1..=TOPICS)}),
                        4 | 5 | 6 => json!({"a": "val", "id": id}),
                        7 => json!({"a": "rm", "id": id}),
                        8 | 9 | 10 => json!({"a": "shift"}),
                        11 | 12 => json!({"a": "gossip", "t": rng.gen_range(1..=TOPICS)}),
                        13 | 14 => json!({"a": "iwant", "id": id, "p": rng.gen_range(0..3)}),
                        _ => json!({"a": "obs", "id": id, "p": rng.gen_range(0..3)}),
                    }
                })
                .collect();
            out.push(json!({"kind": "mc", "gossip": g, "hist": h, "auto": *[true, false].choose(&mut rng).unwrap(), "ops": ops}));
        }
    }
    out
}

pub fn main(a: &vcommon::Args) {
    let sub = a.get(0);
    let (scheds, outp) = match sub {
        "replay" => (vcommon::read_schedules(a.get(1)), a.get(2)),
        "exhaustive" => (exhaustive(a.get(1) == "thorough"), a.get(2)),
        "random" => (random(a.num(1), a.num(2)), a.get(3)),
        m => {
            eprintln!("caches: unknown sub-mode {m}");
            std::process::exit(2)
        }
    };
    let peers: Vec<PeerId> = (0..4).map(|_| PeerId::random()).collect();
    let mut out = Out::create(outp);
    vcommon::quiet_panics();
    for s in &scheds {
        run(&mut out, s, &peers);
    }
    println!("runs={} events={}", out.run, out.events);
    out.finish();
}
