//! C34: every builder call sequence is applied to the real `ConfigBuilder`; the record holds the
//! `build()` verdict and, for an accepted config, what the returned `Config` says through its
//! public getters. Every accepted config is then given to a real `Behaviour`, which is driven
//! through heartbeats with 0..6 subscribed peers (inbound/outbound, with and without GRAFTs).
//!
//! Schedule = `{"calls":[["mesh_n",3],["mesh_n_low_for_topic",10,"t1"],["set_topic_config","t1",[o,lo,n,hi]],..]}`
//! Record   = schedule + `ok`, `err`, `dflt`=[out,low,n,high], `topics`=[{t,q,tx}], `hist`, `gossip`, `tx`,
//!            `hbn` (heartbeat scenarios run), `hbbad` (those that panicked).
use libp2p_core::{transport::PortUse, ConnectedPoint, Endpoint, Multiaddr};
use libp2p_gossipsub::{
    self as gs,
    verif::{self, pb, HandlerEvent, PeerKind},
    Behaviour, ConfigBuilder, IdentTopic, MessageAuthenticity, TopicHash,
};
use libp2p_identity::{Keypair, PeerId};
use libp2p_swarm::{
    behaviour::{ConnectionEstablished, FromSwarm},
    ConnectionId, NetworkBehaviour,
};
use rand::{seq::SliceRandom, Rng};
use vcommon::{json, Out, Value};

fn th(t: &str) -> TopicHash {
    IdentTopic::new(t).hash()
}

fn apply(b: &mut ConfigBuilder, call: &Value) {
    let a = call.as_array().expect("call array");
    let name = a[0].as_str().unwrap();
    let num = |i: usize| a[i].as_u64().unwrap() as usize;
    let top = |i: usize| th(a[i].as_str().unwrap());
    match name {
        "mesh_n" => b.mesh_n(num(1)),
        "mesh_n_low" => b.mesh_n_low(num(1)),
        "mesh_n_high" => b.mesh_n_high(num(1)),
        "mesh_outbound_min" => b.mesh_outbound_min(num(1)),
        "mesh_n_for_topic" => b.mesh_n_for_topic(num(1), top(2)),
        "mesh_n_low_for_topic" => b.mesh_n_low_for_topic(num(1), top(2)),
        "mesh_n_high_for_topic" => b.mesh_n_high_for_topic(num(1), top(2)),
        "mesh_outbound_min_for_topic" => b.mesh_outbound_min_for_topic(num(1), top(2)),
        "set_topic_config" => {
            let q = a[2].as_array().unwrap();
            let v = |i: usize| q[i].as_u64().unwrap() as usize;
            b.set_topic_config(top(1), gs::verif_codec::TopicMeshConfig { mesh_outbound_min: v(0), mesh_n_low: v(1), mesh_n: v(2), mesh_n_high: v(3) })
        }
        "max_transmit_size" => b.max_transmit_size(num(1)),
        "max_transmit_size_for_topic" => b.max_transmit_size_for_topic(num(1), top(2)),
        "history_length" => b.history_length(num(1)),
        "history_gossip" => b.history_gossip(num(1)),
        x => panic!("unknown builder call {x}"),
    };
}

fn topics_of(sched: &Value) -> Vec<String> {
    let mut v: Vec<String> = vec![];
    for c in sched["calls"].as_array().unwrap() {
        for x in c.as_array().unwrap().iter().skip(1) {
            if let Some(s) = x.as_str() {
                if !v.iter().any(|y| y == s) {
                    v.push(s.to_string());
                }
            }
        }
    }
    v.push("tz".into()); // a topic no call mentions: answers with the defaults
    v
}

/// One behaviour, `k` peers (the first `outb` dialed by us) subscribed to all topics, we subscribe,
/// optionally everybody GRAFTs us, then heartbeats.
fn heartbeat_scenario(cfg: &gs::Config, topics: &[String], k: usize, outb: usize, graft: bool) -> Result<(), String> {
    let key = Keypair::generate_ed25519();
    let mut gsb: Behaviour = Behaviour::new(MessageAuthenticity::Signed(key), cfg.clone()).map_err(|e| format!("new: {e}"))?;
    let peers: Vec<PeerId> = (0..k).map(|_| PeerId::random()).collect();
    let local: Multiaddr = "/ip4/10.9.9.9/tcp/9".parse().unwrap();
    let mut handlers = vec![];
    for (i, p) in peers.iter().enumerate() {
        let cid = ConnectionId::new_unchecked(i + 1);
        let addr: Multiaddr = format!("/ip4/10.0.0.{}/tcp/1000", i + 1).parse().unwrap();
        let out = i < outb;
        let (h, ep) = if out {
            (
                gsb.handle_established_outbound_connection(cid, *p, &addr, Endpoint::Dialer, PortUse::Reuse),
                ConnectedPoint::Dialer { address: addr.clone(), role_override: Endpoint::Dialer, port_use: PortUse::Reuse },
            )
        } else {
            (
                gsb.handle_established_inbound_connection(cid, *p, &local, &addr),
                ConnectedPoint::Listener { local_addr: local.clone(), send_back_addr: addr.clone() },
            )
        };
        handlers.push(h.map_err(|_| "connection denied")?);
        gsb.on_swarm_event(FromSwarm::ConnectionEstablished(ConnectionEstablished {
            peer_id: *p,
            connection_id: cid,
            endpoint: &ep,
            failed_addresses: &[],
            other_established: 0,
        }));
        gsb.on_connection_handler_event(*p, cid, HandlerEvent::PeerKind(PeerKind::Gossipsubv1_1));
        let rpc = pb::Rpc {
            subscriptions: topics.iter().map(|t| pb::rpc::SubOpts { subscribe: Some(true), topic_id: Some(th(t).into_string()), ..Default::default() }).collect(),
            ..Default::default()
        };
        if let Ok(Some(ev)) = verif::rpc_event(cfg, rpc) {
            gsb.on_connection_handler_event(*p, cid, ev);
        }
    }
    for t in topics {
        let _ = gsb.subscribe(&IdentTopic::new(t.clone()));
    }
    gsb.verif_heartbeat();
    if graft {
        for (i, p) in peers.iter().enumerate() {
            let rpc = pb::Rpc {
                control: Some(pb::ControlMessage {
                    graft: topics.iter().map(|t| pb::ControlGraft { topic_id: Some(th(t).into_string()) }).collect(),
                    ..Default::default()
                }),
                ..Default::default()
            };
            if let Ok(Some(ev)) = verif::rpc_event(cfg, rpc) {
                gsb.on_connection_handler_event(*p, ConnectionId::new_unchecked(i + 1), ev);
            }
        }
    }
    gsb.verif_heartbeat();
    gsb.verif_heartbeat();
    drop(handlers);
    Ok(())
}

fn run(out: &mut Out, sched: &Value) {
    let mut rec = sched.clone();
    let mut b = ConfigBuilder::default();
    let built = vcommon::guard(|| {
        for c in sched["calls"].as_array().unwrap() {
            apply(&mut b, c);
        }
        b.build()
    });
    match built {
        Err(m) => {
            rec["ok"] = json!(false);
            rec["panic"] = json!(m);
        }
        Ok(Err(e)) => {
            rec["ok"] = json!(false);
            rec["err"] = json!(format!("{e:?}"));
        }
        Ok(Ok(cfg)) => {
            rec["ok"] = json!(true);
            rec["dflt"] = json!([cfg.mesh_outbound_min(), cfg.mesh_n_low(), cfg.mesh_n(), cfg.mesh_n_high()]);
            let topics = topics_of(sched);
            rec["topics"] = topics
                .iter()
                .map(|t| {
                    let h = th(t);
                    json!({"t": t, "q": [cfg.mesh_outbound_min_for_topic(&h), cfg.mesh_n_low_for_topic(&h), cfg.mesh_n_for_topic(&h), cfg.mesh_n_high_for_topic(&h)],
                           "tx": cfg.max_transmit_size_for_topic(&h)})
                })
                .collect();
            rec["hist"] = json!(cfg.history_length());
            rec["gossip"] = json!(cfg.history_gossip());
            rec["tx"] = json!(cfg.max_transmit_size());
            let mut n = 0;
            let mut bad = vec![];
            for k in [0usize, 1, 2, 3, 4, 6] {
                for outb in if k == 0 { vec![0] } else { vec![0, k] } {
                    for graft in [false, true] {
                        if k == 0 && graft {
                            continue;
                        }
                        n += 1;
                        match vcommon::guard(|| heartbeat_scenario(&cfg, &topics, k, outb, graft)) {
                            Ok(Ok(())) => {}
                            Ok(Err(m)) => bad.push(json!({"k": k, "out": outb, "graft": graft, "res": format!("setup: {m}")})),
                            Err(m) => bad.push(json!({"k": k, "out": outb, "graft": graft, "res": format!("panic: {}", m.chars().take(80).collect::<String>())})),
                        }
                    }
                }
            }
            rec["hbn"] = json!(n);
            rec["hbbad"] = json!(bad);
        }
    }
    out.ev(rec);
}

const SETTERS: [&str; 4] = ["mesh_outbound_min", "mesh_n_low", "mesh_n", "mesh_n_high"];

fn quads(vals: &[u64]) -> Vec<[u64; 4]> {
    let mut v = vec![];
    for a in vals {
        for b in vals {
            for c in vals {
                for d in vals {
                    v.push([*a, *b, *c, *d]);
                }
            }
        }
    }
    v
}

fn exhaustive(thorough: bool) -> Vec<Value> {
    let vals: Vec<u64> = if thorough { vec![0, 1, 2, 3] } else { vec![0, 1, 2] };
    let mut out = vec![];
    // (a) default parameter set x default transmit size x history
    for q in quads(&vals) {
        for dtx in [None, Some(99u64), Some(100)] {
            for (h, g) in [(None, None), (Some(0u64), Some(1u64)), (Some(1), Some(1)), (Some(1), Some(0))] {
                if (dtx.is_some() && h.is_some()) && !thorough {
                    continue;
                }
                let mut calls: Vec<Value> = (0..4).map(|i| json!([SETTERS[i], q[i]])).collect();
                if let Some(x) = dtx {
                    calls.push(json!(["max_transmit_size", x]));
                }
                if let (Some(h), Some(g)) = (h, g) {
                    calls.push(json!(["history_length", h]));
                    calls.push(json!(["history_gossip", g]));
                }
                out.push(json!({ "calls": calls }));
            }
        }
    }
    // (b) one per-topic parameter set (set_topic_config) x per-topic transmit size, defaults untouched
    for q in quads(&vals) {
        for ttx in [None, Some(99u64), Some(100)] {
            let mut calls = vec![json!(["set_topic_config", "t1", q])];
            if let Some(x) = ttx {
                calls.push(json!(["max_transmit_size_for_topic", x, "t1"]));
            }
            out.push(json!({ "calls": calls }));
        }
    }
    // (c) individual *_for_topic setters (the other fields come from TopicMeshConfig::default() = 2/5/6/12)
    let tv: [u64; 7] = [0, 1, 3, 5, 6, 12, 13];
    for i in 0..4 {
        for v in tv {
            for ttx in [None, Some(100u64)] {
                let mut calls = vec![json!([format!("{}_for_topic", SETTERS[i]), v, "t1"])];
                if let Some(x) = ttx {
                    calls.push(json!(["max_transmit_size_for_topic", x, "t1"]));
                }
                out.push(json!({ "calls": calls }));
                for j in 0..4 {
                    if j != i {
                        for w in [0u64, 7] {
                            let mut c2 = calls.clone();
                            c2.insert(1, json!([format!("{}_for_topic", SETTERS[j]), w, "t2"]));
                            c2.insert(1, json!([format!("{}_for_topic", SETTERS[j]), w, "t1"]));
                            out.push(json!({ "calls": c2 }));
                        }
                    }
                }
            }
        }
    }
    // (d) realistic magnitudes, incl. the inputs of DESIGN 7-8
    for calls in [
        json!([["mesh_n_low", 10], ["mesh_n", 3], ["mesh_n_high", 2], ["mesh_outbound_min", 9]]),
        json!([["max_transmit_size", 10]]),
        json!([["mesh_n_low_for_topic", 10, "t1"]]),
        json!([["mesh_n_low_for_topic", 10, "t1"], ["max_transmit_size_for_topic", 1000, "t1"]]),
        json!([["mesh_n_low", 15], ["mesh_n", 30], ["mesh_n_high", 60]]),
        json!([["mesh_n", 4]]),
        json!([["mesh_n", 13]]),
        json!([["mesh_outbound_min", 3]]),
        json!([["mesh_outbound_min", 4]]),
        json!([["mesh_n_high", 5]]),
        json!([["set_topic_config", "t1", [7, 3, 5, 7]]]),
        json!([["set_topic_config", "t1", [2, 8, 5, 7]]]),
        json!([["set_topic_config", "t1", [2, 3, 5, 4]]]),
        json!([["set_topic_config", "t1", [2, 3, 5, 7]], ["set_topic_config", "t2", [3, 3, 5, 7]]]),
        json!([["history_length", 2], ["history_gossip", 3]]),
        json!([]),
    ] {
        out.push(json!({ "calls": calls }));
    }
    out
}

fn random(seed: u64, runs: u64) -> Vec<Value> {
    let mut rng = vcommon::rng(seed ^ 0x34);
    let vals: [u64; 12] = [0, 1, 2, 3, 4, 5, 6, 7, 8, 12, 13, 30];
    let txs: [u64; 6] = [0, 50, 99, 100, 101, 65536];
    let mut out = vec![];
    for _ in 0..runs {
        let n = rng.gen_range(1..=9);
        let mut calls = vec![];
        for _ in 0..n {
            let t = *["t1", "t2"].choose(&mut rng).unwrap();
            let v = *vals.choose(&mut rng).unwrap();
            calls.push(match rng.gen_range(0..12) {
                0..=3 => json!([SETTERS[rng.gen_range(0..4)], v]),
                4..=6 => json!([format!("{}_for_topic", SETTERS[rng.gen_range(0..4)]), v, t]),
                7 => {
                    // mostly ordered quads so that acceptance is frequent
                    let mut q = [*vals.choose(&mut rng).unwrap(), *vals.choose(&mut rng).unwrap(), *vals.choose(&mut rng).unwrap(), *vals.choose(&mut rng).unwrap()];
                    if rng.gen_bool(0.7) {
                        q[1..].sort();
                    }
                    json!(["set_topic_config", t, q])
                }
                8 => json!(["max_transmit_size", txs.choose(&mut rng).unwrap()]),
                9 => json!(["max_transmit_size_for_topic", txs.choose(&mut rng).unwrap(), t]),
                10 => json!(["history_length", rng.gen_range(0..7)]),
                _ => json!(["history_gossip", rng.gen_range(0..7)]),
            });
        }
        out.push(json!({ "calls": calls }));
    }
    out
}

pub fn main(a: &vcommon::Args) {
    let sub = a.get(0);
    let (scheds, outp) = match sub {
        "replay" => (vcommon::read_ndjson(a.get(1)).into_iter().map(|v| json!({"calls": v["calls"]})).collect(), a.get(2)),
        "exhaustive" => (exhaustive(a.get(1) == "thorough"), a.get(2)),
        "random" => (random(a.num(1), a.num(2)), a.get(3)),
        m => {
            eprintln!("config: unknown sub-mode {m}");
            std::process::exit(2)
        }
    };
    let mut out = Out::create(outp);
    vcommon::quiet_panics();
    for s in &scheds {
        run(&mut out, s);
    }
    println!("records={}", out.events);
    out.finish();
}
