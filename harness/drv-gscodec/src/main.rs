//! Driver for gossipsub wire/caches/config and prost-codec (C57, C31, C33, C34, C30).
mod caches;
mod config;
mod framing;
mod validate;

fn main() {
    let a = vcommon::Args::parse();
    match a.mode.as_str() {
        "framing" => framing::main(&a),
        "config" => config::main(&a),
        "caches" => caches::main(&a),
        "validate" => validate::main(&a),
        m => {
            eprintln!("unknown mode {m}");
            std::process::exit(2)
        }
    }
}
