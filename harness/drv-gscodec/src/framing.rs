//! C57 / C31: the real length-prefixed protobuf decoders (`prost_codec::Codec` and gossipsub's
//! `GossipsubCodec`) fed chunk by chunk, exactly like `FramedRead` does: append the chunk to the
//! read buffer, then call `Decoder::decode(&mut BytesMut)` until it returns `Ok(None)` / `Err`.
//!
//! Schedule (self-contained, replayable):
//! `{"codec":"prost"|"gs", "via":"new"|"config", "limit":L, "maxpub":P, "maxctl":C,
//!   "frames":[<frame spec>..], "junk":[bytes..], "chunks":[n..] | "bytes"}`
//! prost frame spec `{"id":i,"d":data_len}`; gs frame spec `{"id":i,"npub":k,"nsub":k,"nihave":k,"ngraft":k,"pad":p}`.
//! Trace: reset(cfg + per-frame offsets and fingerprints) / feed / dec / end.
use std::collections::HashMap;

use asynchronous_codec::{Decoder, Encoder};
use bytes::BytesMut;
use futures::FutureExt;
use libp2p_core::upgrade::{InboundUpgrade, UpgradeInfo};
use libp2p_gossipsub::{
    verif_codec::{proto, ControlAction, GossipsubCodec, HandlerEvent},
    ConfigBuilder, ValidationMode,
};
use prost::Message as _;
use rand::{seq::SliceRandom, Rng};
use vcommon::{json, Out, Value};

#[derive(Default, Clone, Debug)]
struct Fp {
    id: u64,
    npub: u64,
    nsub: u64,
    nctl: u64,
    dsum: u64,
}

fn dsum<'a>(datas: impl Iterator<Item = &'a [u8]>) -> u64 {
    let mut s: u64 = 0;
    for d in datas {
        s = (s * 31 + d.len() as u64) % 65521;
        for b in d {
            s = (s * 31 + *b as u64) % 65521;
        }
    }
    s
}

fn id_of(s: &str) -> u64 {
    let digits: String = s.chars().skip(1).take_while(|c| c.is_ascii_digit()).collect();
    digits.parse().unwrap_or(999)
}

/// bytes a length-delimited protobuf field with a 1-byte tag occupies
fn field_len(inner: usize) -> usize {
    1 + prost::length_delimiter_len(inner) + inner
}

enum AnyCodec {
    Prost(prost_codec::Codec<prost_codec::proto::Message>),
    Gs(GossipsubCodec),
}

impl AnyCodec {
    fn decode(&mut self, buf: &mut BytesMut) -> Result<Option<Fp>, String> {
        match self {
            AnyCodec::Prost(c) => match c.decode(buf) {
                Ok(None) => Ok(None),
                Ok(Some(m)) => Ok(Some(Fp {
                    id: m.data.first().copied().unwrap_or(0) as u64,
                    dsum: dsum(std::iter::once(&m.data[..])),
                    ..Default::default()
                })),
                Err(e) => Err(e.to_string()),
            },
            AnyCodec::Gs(c) => match c.decode(buf) {
                Ok(None) => Ok(None),
                Ok(Some(HandlerEvent::Message { rpc, invalid_messages })) => {
                    let topic = rpc
                        .messages
                        .first()
                        .map(|m| m.topic.as_str().to_string())
                        .or_else(|| invalid_messages.first().map(|(m, _)| m.topic.as_str().to_string()))
                        .or_else(|| rpc.subscriptions.first().map(|s| s.topic_hash.as_str().to_string()));
                    Ok(Some(Fp {
                        id: topic.map(|t| id_of(&t)).unwrap_or(0),
                        npub: (rpc.messages.len() + invalid_messages.len()) as u64,
                        nsub: rpc.subscriptions.len() as u64,
                        nctl: rpc.control_msgs.iter().filter(|c| !matches!(c, ControlAction::Extensions(_))).count() as u64,
                        dsum: dsum(rpc.messages.iter().map(|m| &m.data[..]).chain(invalid_messages.iter().map(|(m, _)| &m.data[..]))),
                    }))
                }
                Ok(Some(_)) => Err("unexpected handler event".into()),
                Err(e) => Err(e.to_string()),
            },
        }
    }
}

fn gs_codec(via: &str, limit: usize, maxpub: usize, maxctl: usize) -> Result<GossipsubCodec, String> {
    match via {
        "new" => Ok(GossipsubCodec::new(limit, ValidationMode::Anonymous, HashMap::new(), maxpub, maxctl)),
        // the production path: Config -> ProtocolConfig -> upgrade_inbound -> Framed<_, GossipsubCodec>
        "config" => {
            let cfg = ConfigBuilder::default()
                .max_transmit_size(limit)
                .max_publish_messages(maxpub)
                .max_control_message_size(maxctl)
                .validation_mode(ValidationMode::Anonymous)
                .build()
                .map_err(|e| format!("config rejected: {e}"))?;
            let pc = libp2p_gossipsub::verif_codec::protocol_config(&cfg);
            let info = pc.protocol_info().into_iter().next().ok_or("no protocol")?;
            let sock = futures::io::Cursor::new(Vec::<u8>::new());
            let (framed, _kind) = pc.upgrade_inbound(sock, info).now_or_never().ok_or("upgrade pending")?.map_err(|_| "infallible")?;
            Ok(framed.into_parts().codec)
        }
        v => Err(format!("via {v}")),
    }
}

fn build_rpc(f: &Value) -> (proto::Rpc, Fp, usize) {
    let id = vcommon::n(f, "id") as u64;
    let npub = vcommon::n(f, "npub") as usize;
    let nsub = vcommon::n(f, "nsub") as usize;
    let nihave = vcommon::n(f, "nihave") as usize;
    let ngraft = vcommon::n(f, "ngraft") as usize;
    let pad = vcommon::n(f, "pad") as usize;
    let mut rpc = proto::Rpc::default();
    for k in 0..nsub {
        rpc.subscriptions.push(proto::SubOpts {
            subscribe: Some(k % 2 == 0),
            topic_id: Some(format!("s{id}")),
            ..Default::default()
        });
    }
    for k in 0..npub {
        let data: Vec<u8> = if k == 0 { (0..pad).map(|i| (id as usize + i) as u8).collect() } else { vec![k as u8] };
        rpc.publish.push(proto::Message {
            topic: format!("t{id}"),
            data: if data.is_empty() { None } else { Some(data) },
            ..Default::default()
        });
    }
    if npub == 0 && pad > 0 {
        // pad through an unknown-to-nobody field: one more subscription with a long topic
        rpc.subscriptions.push(proto::SubOpts { subscribe: Some(true), topic_id: Some(format!("s{id}{}", "x".repeat(pad - 1))), ..Default::default() });
    }
    if nihave + ngraft > 0 {
        let mut c = proto::ControlMessage::default();
        for k in 0..nihave {
            c.ihave.push(proto::ControlIHave { topic_id: Some(format!("t{id}")), message_ids: vec![vec![k as u8, id as u8]] });
        }
        for _ in 0..ngraft {
            c.graft.push(proto::ControlGraft { topic_id: Some(format!("t{id}")) });
        }
        rpc.control = Some(c);
    }
    // the quantities the limits talk about, computed from the message structure
    let ctl: usize = rpc.subscriptions.iter().map(|s| field_len(s.encoded_len())).sum::<usize>()
        + rpc.control.as_ref().map(|c| field_len(c.encoded_len())).unwrap_or(0);
    let fid = if npub > 0 || !rpc.subscriptions.is_empty() { id } else { 0 };
    let fp = Fp {
        id: fid,
        npub: npub as u64,
        nsub: rpc.subscriptions.len() as u64,
        nctl: (nihave + ngraft) as u64,
        dsum: dsum(rpc.publish.iter().map(|m| m.data.as_deref().unwrap_or(&[]))),
    };
    (rpc, fp, ctl)
}

/// gs frame spec whose encoding is exactly `n` bytes (one publish message, padded data)
pub fn gs_frame_of_len(id: u64, n: usize) -> Option<Value> {
    for (npub, nsub) in [(1, 0), (0, 1), (1, 1)] {
        for pad in 0..=n {
            let f = json!({"id": id, "npub": npub, "nsub": nsub, "nihave": 0, "ngraft": 0, "pad": pad});
            let l = build_rpc(&f).0.encoded_len();
            if l == n {
                return Some(f);
            }
            if l > n {
                break;
            }
        }
    }
    if n == 0 {
        return Some(json!({"id": id, "npub": 0, "nsub": 0, "nihave": 0, "ngraft": 0, "pad": 0}));
    }
    None
}

/// prost frame spec whose encoding is exactly `n` bytes
pub fn prost_frame_of_len(id: u64, n: usize) -> Option<Value> {
    if n == 0 {
        return Some(json!({"id": id, "d": 0}));
    }
    (1..=n).map(|d| (d, field_len(d))).find(|(_, l)| *l == n).map(|(d, _)| json!({"id": id, "d": d}))
}

fn run(out: &mut Out, sched: &Value) {
    let codec = vcommon::s(sched, "codec");
    // "hugelimit": k  =>  the codec limit is usize::MAX - k (TLC integers are 32-bit: the trace carries the capped
    // "limit" of the schedule; such schedules consist of junk only, where the limit does not enter the specification)
    let limit = match sched.get("hugelimit").and_then(|x| x.as_u64()) {
        Some(k) => usize::MAX - k as usize,
        None => vcommon::n(sched, "limit") as usize,
    };
    let maxpub = sched.get("maxpub").and_then(|x| x.as_i64()).unwrap_or(0) as usize;
    let maxctl = sched.get("maxctl").and_then(|x| x.as_i64()).unwrap_or(0) as usize;
    let via = sched.get("via").and_then(|x| x.as_str()).unwrap_or("new");
    // ---- encode the stream with the real encoder
    let mut dec = match codec.as_str() {
        "prost" => AnyCodec::Prost(prost_codec::Codec::new(limit)),
        "gs" => match gs_codec(via, limit, maxpub, maxctl) {
            Ok(c) => AnyCodec::Gs(c),
            Err(m) => {
                out.reset_with(json!({"limit": limit, "maxpub": maxpub, "maxctl": maxctl, "early": false, "slack": 10, "total": 0, "frames": [], "codec": codec}), sched);
                out.ev(json!({"e": "setup_failed", "msg": m}));
                return;
            }
        },
        c => panic!("codec {c}"),
    };
    let mut stream = BytesMut::new();
    let mut frames: Vec<Value> = vec![];
    let mut enc_fail = None;
    for f in sched["frames"].as_array().unwrap() {
        let s = stream.len();
        let (n, fp, ctl, r) = match &mut dec {
            AnyCodec::Prost(c) => {
                let d = vcommon::n(f, "d") as usize;
                let id = vcommon::n(f, "id") as u8;
                let m = prost_codec::proto::Message { data: (0..d).map(|i| id.wrapping_add(i as u8)).collect() };
                let fp = Fp { id: m.data.first().copied().unwrap_or(0) as u64, dsum: dsum(std::iter::once(&m.data[..])), ..Default::default() };
                let n = m.encoded_len();
                (n, fp, 0usize, vcommon::guard(|| c.encode(m, &mut stream).map_err(|e| e.to_string())))
            }
            AnyCodec::Gs(c) => {
                let (rpc, fp, ctl) = build_rpc(f);
                let n = rpc.encoded_len();
                (n, fp, ctl, vcommon::guard(|| c.encode(rpc, &mut stream).map_err(|e| e.to_string())))
            }
        };
        match r {
            Ok(Ok(())) => {}
            Ok(Err(m)) => enc_fail = Some(json!({"e": "encode_failed", "msg": m})),
            Err(m) => enc_fail = Some(json!({"e": "panic", "msg": m, "at": "encode"})),
        }
        let t = stream.len();
        // the encoder must have written prefix + payload: h = t - s - n (checked by the trace spec: h >= 1, t = s+h+n)
        let h = (t - s) as i64 - n as i64;
        frames.push(json!({"s": s, "h": h, "n": n, "t": t, "id": fp.id, "npub": fp.npub, "nsub": fp.nsub, "nctl": fp.nctl, "ctl": ctl, "dsum": fp.dsum}));
    }
    if let Some(j) = sched.get("junk").and_then(|j| j.as_array()) {
        for b in j {
            stream.extend_from_slice(&[b.as_u64().unwrap() as u8]);
        }
    }
    let total = stream.len();
    out.reset_with(
        json!({"codec": codec, "limit": limit.min(1 << 30), "maxpub": maxpub, "maxctl": maxctl, "early": codec == "prost", "slack": 10, "total": total, "frames": frames}),
        sched,
    );
    if let Some(e) = enc_fail {
        out.ev(e);
        return;
    }
    // ---- feed it chunk by chunk
    let chunks: Vec<usize> = match &sched["chunks"] {
        Value::String(s) if s == "bytes" => vec![1; total],
        Value::Array(a) => a.iter().map(|x| x.as_u64().unwrap() as usize).collect(),
        x => panic!("chunks {x}"),
    };
    let mut buf = BytesMut::new();
    let mut pos = 0usize;
    let mut failed = false;
    // FramedRead also calls decode on the (empty) buffer before the first read
    let mut todo: Vec<usize> = vec![0];
    todo.extend(chunks);
    'outer: for (k, n) in todo.into_iter().enumerate() {
        let n = n.min(total - pos);
        if k > 0 {
            if n == 0 {
                continue;
            }
            buf.extend_from_slice(&stream[pos..pos + n]);
            pos += n;
            out.ev(json!({"e": "feed", "n": n}));
        }
        loop {
            let before = buf.len();
            match vcommon::guard(|| dec.decode(&mut buf)) {
                Err(m) => {
                    out.ev(json!({"e": "panic", "msg": m, "at": "decode"}));
                    failed = true;
                    break 'outer;
                }
                Ok(Ok(None)) => {
                    if buf.len() != before {
                        out.ev(json!({"e": "consumed_on_none", "used": before - buf.len()}));
                        failed = true;
                        break 'outer;
                    }
                    out.ev(json!({"e": "dec", "r": "none"}));
                    break;
                }
                Ok(Ok(Some(fp))) => {
                    out.ev(json!({"e": "dec", "r": "item", "used": before - buf.len(), "id": fp.id, "npub": fp.npub, "nsub": fp.nsub, "nctl": fp.nctl, "dsum": fp.dsum}));
                }
                Ok(Err(m)) => {
                    out.ev(json!({"e": "dec", "r": "err", "msg": m}));
                    failed = true;
                    break 'outer;
                }
            }
        }
    }
    let _ = failed;
    out.ev(json!({"e": "end"}));
}

// ------------------------------------------------------------------ schedule generators

fn frame_of(codec: &str, id: u64, n: usize) -> Value {
    match codec {
        "prost" => prost_frame_of_len(id, n),
        _ => gs_frame_of_len(id, n),
    }
    .unwrap_or_else(|| panic!("no {codec} frame of {n} bytes"))
}

fn varint_len(n: usize) -> usize {
    prost::length_delimiter_len(n)
}

struct Stream {
    codec: &'static str,
    via: &'static str,
    limit: usize,
    maxpub: usize,
    maxctl: usize,
    frames: Vec<Value>,
    lens: Vec<usize>,
    junk: Vec<u8>,
}

impl Stream {
    fn of_lens(codec: &'static str, via: &'static str, limit: usize, lens: &[usize]) -> Self {
        let frames = lens.iter().enumerate().map(|(i, n)| frame_of(codec, i as u64 + 1, *n)).collect();
        Stream { codec, via, limit, maxpub: 500, maxctl: 16384, frames, lens: lens.to_vec(), junk: vec![] }
    }
    fn total(&self) -> usize {
        self.lens.iter().map(|n| varint_len(*n) + n).sum::<usize>() + self.junk.len()
    }
    fn boundaries(&self) -> Vec<usize> {
        let mut v = vec![0];
        let mut p = 0;
        for n in &self.lens {
            v.push(p + varint_len(*n));
            p += varint_len(*n) + n;
            v.push(p);
        }
        v
    }
    fn sched(&self, chunks: Value) -> Value {
        json!({"codec": self.codec, "via": self.via, "limit": self.limit, "maxpub": self.maxpub, "maxctl": self.maxctl,
               "frames": self.frames, "junk": self.junk, "chunks": chunks})
    }
    /// every way to cut the stream at the given sorted positions
    fn cut(&self, cuts: &[usize]) -> Value {
        let t = self.total();
        let mut v = vec![];
        let mut last = 0;
        for c in cuts {
            if *c > last && *c < t {
                v.push(c - last);
                last = *c;
            }
        }
        if t > last {
            v.push(t - last);
        }
        self.sched(json!(v))
    }
}

/// frame-length sequences of 1..=3 frames over {L-1, L} with the last one also L+1, plus mixes with tiny frames
fn seqs(l: usize, small: usize) -> Vec<Vec<usize>> {
    let mut v: Vec<Vec<usize>> = vec![];
    let inner = [l - 1, l];
    let last = [l - 1, l, l + 1];
    for a in last {
        v.push(vec![a]);
    }
    for a in inner {
        for b in last {
            v.push(vec![a, b]);
        }
    }
    for a in inner {
        for b in inner {
            for c in last {
                v.push(vec![a, b, c]);
            }
        }
    }
    v.push(vec![0, l, 0]);
    v.push(vec![small, small, small]);
    v.push(vec![small, l + 1, small]);
    v.push(vec![0, 0, l + 2]);
    v.push(vec![small, l + 20]);
    v
}

const NASTY: &[&[u8]] = &[
    &[0xff; 12],
    &[0x80, 0x00],
    &[0xff, 0xff, 0xff, 0xff, 0xff, 0xff, 0xff, 0xff, 0xff, 0x01],
    &[0xff, 0xff, 0xff, 0xff, 0xff, 0xff, 0xff, 0xff, 0xff, 0x7f],
    &[0xff, 0xff, 0xff, 0xff, 0x0f],
    &[0x02, 0xff, 0xff],
    &[0x03, 0x0a, 0x05, 0x01],
    &[0x04, 0x12, 0x02, 0x22, 0x7f],
    &[0x05, 0x1a, 0x03, 0x0a, 0xff, 0x01],
    &[0x00, 0x00, 0x01, 0x08],
    &[0x02, 0x08, 0x80],
    &[0x06, 0x12, 0x04, 0x0a, 0x80, 0x80, 0x80],
];

fn exhaustive(thorough: bool) -> Vec<Value> {
    let mut out = vec![];
    for codec in ["prost", "gs"] {
        // (A) tiny limit: every single split, byte-wise, and every pair of split points for some streams
        let (l, small) = if codec == "prost" { (6, 3) } else { (16, 6) };
        for (k, lens) in seqs(l, small).iter().enumerate() {
            let s = Stream::of_lens(codec, "new", l, lens);
            let t = s.total();
            for p in 0..t {
                out.push(s.cut(&[p]));
            }
            out.push(s.sched(json!("bytes")));
            if thorough || k % (if codec == "prost" { 7 } else { 14 }) == 3 {
                for p in 1..t {
                    for q in (p + 1)..t {
                        out.push(s.cut(&[p, q]));
                    }
                }
            }
        }
        // (B) the 1-byte / 2-byte prefix boundary and the numbers of DESIGN §7-7
        let big: Vec<(usize, &'static str, Vec<usize>)> = vec![
            (128, "new", vec![127, 128]),
            (128, "new", vec![128, 127, 129]),
            (127, "new", vec![127, 128]),
            (200, "config", vec![200]),
            (200, "config", vec![107, 107]),
            (200, "config", vec![199, 200, 201]),
            (200, "config", vec![100, 100, 100]),
            (300, "config", vec![300, 8, 301]),
        ];
        for (l, via, lens) in big {
            let via = if codec == "prost" { "new" } else { via };
            let s = Stream::of_lens(codec, via, l, &lens);
            let t = s.total();
            let mut pts: Vec<usize> = vec![];
            for b in s.boundaries() {
                for d in -2i64..=2 {
                    let p = b as i64 + d;
                    if p >= 0 && p <= t as i64 {
                        pts.push(p as usize);
                    }
                }
            }
            pts.sort();
            pts.dedup();
            if thorough {
                pts = (0..=t).collect();
            }
            for p in &pts {
                out.push(s.cut(&[*p]));
            }
            if thorough {
                out.push(s.sched(json!("bytes")));
            }
        }
        // (C) junk: nasty inputs alone and after a valid frame, byte-wise and in one piece
        for j in NASTY {
            for with_frame in [false, true] {
                let mut s = Stream::of_lens(codec, "new", 64, if with_frame { &[8] } else { &[] });
                s.junk = j.to_vec();
                out.push(s.sched(json!("bytes")));
                out.push(s.cut(&[]));
            }
        }
    }
    // (C') limits close to usize::MAX with declared lengths close to usize::MAX (a 10-byte prefix): length arithmetic
    // must not overflow; the decoder just keeps waiting (or rejects) - announced as junk, so only "no panic, nothing
    // consumed on Ok(None)" is demanded
    for k in [0u64, 1, 9, 10, 11, 300] {
        for d in [0u64, 1, 9, 10, 11, 12, 300] {
            let mut j = vec![];
            let mut v = u64::MAX - d;
            while v >= 0x80 {
                j.push((v as u8) | 0x80);
                v >>= 7;
            }
            j.push(v as u8);
            j.extend_from_slice(&[0x0a, 0x01, 0x07]);
            for chunks in [json!("bytes"), json!([13]), json!([10, 3])] {
                out.push(json!({"codec": "prost", "via": "new", "limit": 1 << 30, "hugelimit": k, "maxpub": 500, "maxctl": 16384,
                                "frames": [], "junk": j, "chunks": chunks}));
            }
        }
    }
    // (D) gossipsub publish / control limits: RPCs exactly at, one below and one above the limits
    for (npub, nsub, nihave, ngraft) in [(2, 0, 0, 0), (3, 0, 0, 0), (1, 0, 1, 1), (0, 0, 2, 2), (2, 0, 2, 0), (0, 0, 0, 3), (1, 2, 0, 0), (0, 1, 1, 0)] {
        let f0 = json!({"id": 1, "npub": 1, "nsub": 0, "nihave": 0, "ngraft": 0, "pad": 3});
        let f1 = json!({"id": 2, "npub": npub, "nsub": nsub, "nihave": nihave, "ngraft": ngraft, "pad": 2});
        let ctl = build_rpc(&f1).2;
        for maxctl in [ctl.saturating_sub(1), ctl, ctl + 1] {
            let s = Stream { codec: "gs", via: "new", limit: 1000, maxpub: 2, maxctl, frames: vec![f0.clone(), f1.clone()], lens: vec![], junk: vec![] };
            out.push(s.sched(json!([1000])));
            out.push(s.sched(json!([9, 1000])));
        }
    }
    out
}

fn random(seed: u64, runs: u64) -> Vec<Value> {
    let mut rng = vcommon::rng(seed ^ 0x57_31);
    let mut out = vec![];
    for _ in 0..runs {
        let codec = *["prost", "gs"].choose(&mut rng).unwrap();
        let limit: usize = *[6usize, 16, 20, 64, 126, 127, 128, 129, 200, 300].choose(&mut rng).unwrap();
        let limit = if codec == "gs" { limit.max(16) } else { limit };
        let nf = rng.gen_range(0..=4);
        let mut lens = vec![];
        for _ in 0..nf {
            let n = match rng.gen_range(0..10) {
                0 => 0,
                1 | 2 => rng.gen_range(0..=limit),
                3 => limit + rng.gen_range(1..=12),
                4 => limit + 1,
                5 | 6 => limit,
                7 => limit - 1,
                _ => rng.gen_range(0..=limit.min(140)),
            };
            // lengths that cannot be encoded exactly (1 and 2 for prost, 1..5 for gs) are rounded
            let n = (n..n + 8).find(|n| if codec == "prost" { prost_frame_of_len(1, *n).is_some() } else { gs_frame_of_len(1, *n).is_some() }).unwrap();
            lens.push(n);
        }
        let via = if codec == "gs" && limit >= 100 && rng.gen_bool(0.5) { "config" } else { "new" };
        let mut s = Stream::of_lens(codec, via, limit, &lens);
        match rng.gen_range(0..6) {
            0 => s.junk = (0..rng.gen_range(1..24)).map(|_| rng.gen()).collect(),
            1 => s.junk = NASTY.choose(&mut rng).unwrap().to_vec(),
            _ => {}
        }
        let t = s.total();
        let ncuts = rng.gen_range(0..=6.min(t));
        let mut cuts: Vec<usize> = (0..ncuts).map(|_| rng.gen_range(0..=t)).collect();
        if rng.gen_bool(0.5) {
            // cut close to a boundary
            let b = s.boundaries();
            for c in cuts.iter_mut() {
                let x = *b.choose(&mut rng).unwrap() as i64 + rng.gen_range(-2..=2);
                *c = x.clamp(0, t as i64) as usize;
            }
        }
        cuts.sort();
        cuts.dedup();
        out.push(if t <= 60 && rng.gen_range(0..8) == 0 { s.sched(json!("bytes")) } else { s.cut(&cuts) });
        // a corrupted copy of a valid stream is pure junk for the specification
        if rng.gen_range(0..5) == 0 && t > 0 && s.junk.is_empty() {
            let mut bytes = BytesMut::new();
            let ok = match codec {
                "prost" => {
                    let mut c = prost_codec::Codec::<prost_codec::proto::Message>::new(limit);
                    s.frames.iter().all(|f| {
                        let d = vcommon::n(f, "d") as usize;
                        c.encode(prost_codec::proto::Message { data: vec![7; d] }, &mut bytes).is_ok()
                    })
                }
                _ => {
                    let mut c = GossipsubCodec::new(limit, ValidationMode::Anonymous, HashMap::new(), 500, 16384);
                    s.frames.iter().all(|f| c.encode(build_rpc(f).0, &mut bytes).is_ok())
                }
            };
            if ok && !bytes.is_empty() {
                let mut v = bytes.to_vec();
                let i = rng.gen_range(0..v.len());
                match rng.gen_range(0..3) {
                    0 => v[i] ^= 1 << rng.gen_range(0..8),
                    1 => {
                        v.remove(i);
                    }
                    _ => v.insert(i, rng.gen()),
                }
                let j = Stream { codec, via: "new", limit, maxpub: 500, maxctl: 16384, frames: vec![], lens: vec![], junk: v };
                out.push(if rng.gen_bool(0.5) { j.sched(json!("bytes")) } else { j.cut(&[rng.gen_range(0..=j.total())]) });
            }
        }
    }
    out
}

pub fn main(a: &vcommon::Args) {
    let sub = a.get(0);
    let (scheds, outp) = match sub {
        "replay" => (vcommon::read_schedules(a.get(1)), a.get(2)),
        "exhaustive" => (exhaustive(a.get(1) == "thorough"), a.get(2)),
        "random" => (random(a.num(1), a.num(2)), a.get(3)),
        m => {
            eprintln!("framing: unknown sub-mode {m}");
            std::process::exit(2)
        }
    };
    let mut out = Out::create(outp);
    vcommon::quiet_panics();
    let only = a.kv("codec");
    for s in &scheds {
        if only.as_deref().is_some_and(|c| c != vcommon::s(s, "codec")) {
            continue;
        }
        run(&mut out, s);
    }
    println!("runs={} events={}", out.run, out.events);
    out.finish();
}
