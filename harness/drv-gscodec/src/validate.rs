//! C30: every point of the abstract grid (validation mode x key type x source x sequence number x
//! signer x key field x post-signature mutation) is turned into a concrete protobuf message with
//! REAL signatures, framed in an RPC, and decoded by the real `GossipsubCodec`; the record says
//! whether the message was surfaced as valid or invalid (and why).
//!
//! Signature (libp2p pubsub spec): sign("libp2p-pubsub:" ++ protobuf(Message{from, data, seqno, topic})).
//! Schedule/record fields: mode, kt, from, seqno, sigby, key, mut  (pre-mutation description in
//! the schedule under "pre"; the record's top-level fields describe the message as sent).
use std::collections::HashMap;

use asynchronous_codec::{Decoder, Encoder};
use bytes::BytesMut;
use libp2p_gossipsub::{
    verif_codec::{proto, GossipsubCodec, HandlerEvent},
    ValidationMode,
};
use libp2p_identity::Keypair;
use prost::Message as _;
use rand::seq::SliceRandom;
use vcommon::{json, Out, Value};

struct Keys {
    a: Keypair,
    b: Keypair,
}

fn keys(kt: &str) -> Keys {
    match kt {
        "ed25519" => Keys { a: Keypair::generate_ed25519(), b: Keypair::generate_ed25519() },
        "secp256k1" => Keys { a: Keypair::generate_secp256k1(), b: Keypair::generate_secp256k1() },
        "ecdsa" => Keys { a: Keypair::generate_ecdsa(), b: Keypair::generate_ecdsa() },
        "rsa" => {
            let mut ka = include_bytes!("../keys/rsa-2048.pk8").to_vec();
            let mut kb = include_bytes!("../keys/rsa-3072.pk8").to_vec();
            Keys { a: Keypair::rsa_from_pkcs8(&mut ka).expect("rsa key"), b: Keypair::rsa_from_pkcs8(&mut kb).expect("rsa key") }
        }
        k => panic!("key type {k}"),
    }
}

fn mode_of(m: &str) -> ValidationMode {
    match m {
        "Strict" => ValidationMode::Strict,
        "Permissive" => ValidationMode::Permissive,
        "Anonymous" => ValidationMode::Anonymous,
        "None" => ValidationMode::None,
        x => panic!("mode {x}"),
    }
}

fn who<'a>(k: &'a Keys, w: &str) -> &'a Keypair {
    if w == "A" {
        &k.a
    } else {
        &k.b
    }
}

fn from_bytes(k: &Keys, f: &str) -> Option<Vec<u8>> {
    match f {
        "absent" => None,
        "empty" => Some(vec![]),
        "garbage" => Some(vec![1, 2, 3]),
        w => Some(who(k, w).public().to_peer_id().to_bytes()),
    }
}

fn seqno_bytes(s: &str) -> Option<Vec<u8>> {
    match s {
        "absent" => None,
        "empty" => Some(vec![]),
        "4" => Some(vec![0, 0, 0, 7]),
        "8" => Some(vec![0, 0, 0, 0, 0, 0, 1, 7]),
        x => panic!("seqno {x}"),
    }
}

/// Returns the record (fields describe the message AS SENT).
fn run_one(k: &Keys, s: &Value) -> Value {
    let mode = vcommon::s(s, "mode");
    let kt = vcommon::s(s, "kt");
    let pre_from = vcommon::s(s, "from");
    let pre_seqno = vcommon::s(s, "seqno");
    let sigby = vcommon::s(s, "sigby");
    let keyf = vcommon::s(s, "key");
    let mutn = vcommon::s(s, "mut");
    // the message that gets signed
    let mut msg = proto::Message {
        from: from_bytes(k, &pre_from),
        data: Some(vec![9, 8, 7, 6]),
        seqno: seqno_bytes(&pre_seqno),
        topic: "topic".to_string(),
        signature: None,
        key: None,
    };
    let signature = match sigby.as_str() {
        "absent" => None,
        "garbage" => Some(vec![0x5a; 64]),
        "empty" => Some(vec![]), // the signature field is present, zero bytes long
        w => {
            let mut bytes = b"libp2p-pubsub:".to_vec();
            bytes.extend_from_slice(&msg.encode_to_vec());
            Some(who(k, w).sign(&bytes).expect("sign"))
        }
    };
    msg.signature = signature;
    msg.key = match keyf.as_str() {
        "absent" => None,
        "garbage" => Some(vec![8, 1, 18, 3, 1, 2, 3]),
        w => Some(who(k, w).public().encode_protobuf()),
    };
    // the mutation applied after signing
    let mut from = pre_from.clone();
    let mut seqno = pre_seqno.clone();
    match mutn.as_str() {
        "none" => {}
        "from_swap" => {
            from = if pre_from == "A" { "B".into() } else { "A".into() };
            msg.from = from_bytes(k, &from);
        }
        "data_flip" => msg.data.as_mut().unwrap()[1] ^= 1,
        "data_drop" => msg.data = None,
        "seqno_flip" => *msg.seqno.as_mut().unwrap().last_mut().unwrap() ^= 1,
        "seqno_drop" => {
            seqno = "absent".into();
            msg.seqno = None;
        }
        "topic_change" => msg.topic = "topik".to_string(),
        "sig_flip" => msg.signature.as_mut().unwrap()[5] ^= 0x10,
        x => panic!("mut {x}"),
    }
    let mut rec = json!({"mode": mode, "kt": kt, "from": from, "seqno": seqno, "sigby": sigby, "key": keyf, "mut": mutn, "pre": s});
    let r = vcommon::guard(|| {
        let mut codec = GossipsubCodec::new(1 << 20, mode_of(&mode), HashMap::new(), 500, 16384);
        let mut buf = BytesMut::new();
        codec.encode(proto::Rpc { publish: vec![msg], ..Default::default() }, &mut buf).map_err(|e| e.to_string())?;
        codec.decode(&mut buf).map_err(|e| e.to_string())
    });
    match r {
        Err(m) => rec["panic"] = json!(m),
        Ok(Err(e)) => {
            rec["out"] = json!("error");
            rec["err"] = json!(e);
        }
        Ok(Ok(Some(HandlerEvent::Message { rpc, invalid_messages }))) => {
            if rpc.messages.len() == 1 && invalid_messages.is_empty() {
                let m = &rpc.messages[0];
                rec["out"] = json!("valid");
                rec["surf"] = json!({"source": m.source.is_some(), "seqno": m.sequence_number.is_some(), "sig": m.signature.is_some()});
            } else if rpc.messages.is_empty() && invalid_messages.len() == 1 {
                rec["out"] = json!("invalid");
                rec["err"] = json!(format!("{:?}", invalid_messages[0].1));
            } else {
                rec["out"] = json!("lost");
            }
        }
        Ok(Ok(_)) => rec["out"] = json!("lost"),
    }
    rec
}

fn applicable(from: &str, seqno: &str, sigby: &str, mutn: &str) -> bool {
    match mutn {
        "none" => true,
        _ if !matches!(sigby, "A" | "B") => false, // a mutation is relative to a real signature
        "from_swap" => matches!(from, "A" | "B"),
        "seqno_flip" => matches!(seqno, "4" | "8"),
        "seqno_drop" => seqno != "absent",
        _ => true,
    }
}

fn grid(kts: &[&str]) -> Vec<Value> {
    let mut out = vec![];
    for mode in ["Strict", "Permissive", "Anonymous", "None"] {
        for kt in kts {
            for from in ["absent", "empty", "garbage", "A", "B"] {
                for seqno in ["absent", "empty", "4", "8"] {
                    for sigby in ["absent", "garbage", "empty", "A", "B"] {
                        for key in ["absent", "garbage", "A", "B"] {
                            for mutn in ["none", "from_swap", "data_flip", "data_drop", "seqno_flip", "seqno_drop", "topic_change", "sig_flip"] {
                                if applicable(from, seqno, sigby, mutn) {
                                    out.push(json!({"mode": mode, "kt": kt, "from": from, "seqno": seqno, "sigby": sigby, "key": key, "mut": mutn}));
                                }
                            }
                        }
                    }
                }
            }
        }
    }
    out
}

pub fn main(a: &vcommon::Args) {
    let sub = a.get(0);
    let all = ["ed25519", "secp256k1", "ecdsa", "rsa"];
    let (scheds, outp): (Vec<Value>, &str) = match sub {
        "replay" => (vcommon::read_ndjson(a.get(1)).into_iter().map(|v| v.get("pre").cloned().unwrap_or(v)).collect(), a.get(2)),
        // quick: one inlined and one hashed key type, chosen by the seed; thorough: all four
        "grid" => {
            let kts: Vec<&str> = if a.get(1) == "thorough" {
                all.to_vec()
            } else {
                let mut rng = vcommon::rng(a.num(2));
                vec![*["ed25519", "secp256k1"].choose(&mut rng).unwrap(), *["ecdsa", "rsa"].choose(&mut rng).unwrap()]
            };
            (grid(&kts), a.get(3))
        }
        m => {
            eprintln!("validate: unknown sub-mode {m}");
            std::process::exit(2)
        }
    };
    let mut ks: HashMap<String, Keys> = HashMap::new();
    let mut out = Out::create(outp);
    vcommon::quiet_panics();
    for s in &scheds {
        let kt = vcommon::s(s, "kt");
        let k = ks.entry(kt.clone()).or_insert_with(|| keys(&kt));
        let rec = run_one(k, s);
        out.ev(rec);
    }
    println!("records={}", out.events);
    out.finish();
}
