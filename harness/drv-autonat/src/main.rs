//! Driver for libp2p-autonat v1 server: dial-back address filter and server behaviour (C50).
mod filter;
mod server;

fn main() {
    let a = vcommon::Args::parse();
    match a.mode.as_str() {
        "filter" => filter::main(&a),
        "server" => server::main(&a),
        m => {
            eprintln!("unknown mode {m}");
            std::process::exit(2)
        }
    }
}
