//! C50 (server part): the REAL autonat v1 `Behaviour` (with its inner request-response behaviour and
//! REAL request-response handlers). The driver plays the Swarm and the requesters: crafted
//! `DialRequest`s arrive as real protobuf frames on negotiated in-memory inbound streams; every
//! `ToSwarm::Dial` the behaviour emits is recorded with its addresses; dial-backs are resolved by the
//! schedule (success on one of the dialed addresses, or failure).
//!
//! Schedule: {"tp","tg","ops":[..]}: throttle_clients_peer_max / global_max (period = 1 h, i.e. the whole run);
//!   peers 0..3, connection j (0..2) of peer p has id 2p+j and remote IP 1.2.(p+1).(j+1)
//!   {"a":"conn","p","j"} {"a":"close","p","j"}
//!   {"a":"req","p","j","as":"self"|"other","addrs":[[letters]..]}   letters as in filter.rs; "ip4o" = this
//!       connection's IP, "ip4p" = the IP of the peer's other connection
//!   {"a":"outconn","p","j"}   an outbound connection to p that is not a dial-back comes and goes
//!   {"a":"dialres","p","ok":bool,"i"}    the oldest running dial-back to p succeeds on its i-th address / fails
use std::{collections::VecDeque, net::Ipv4Addr, time::Duration};

use libp2p_autonat as autonat;
use libp2p_core::{multiaddr::Protocol, muxing::SubstreamBox, transport::PortUse, ConnectedPoint, Endpoint, Multiaddr};
use libp2p_identity::PeerId;
use libp2p_swarm::{
    behaviour::{ConnectionClosed, ConnectionEstablished, DialFailure, FromSwarm},
    handler::{ConnectionEvent, ConnectionHandlerEvent, FullyNegotiatedInbound},
    ConnectionHandler, ConnectionId, DialError, NetworkBehaviour, NotifyHandler, Stream, THandler, ToSwarm,
};
use rand::Rng;
use vcommon::{exec::Det, json, pipe, Out, Value};

const NP: usize = 3;
const PROTO: &str = "/libp2p/autonat/1.0.0";

type Hdl = THandler<autonat::Behaviour>;

fn stream(det: &Det) -> (Stream, pipe::PipeCtl) {
    let (a, b, ctl) = pipe::pipe(true);
    let d = multistream_select::dialer_select_proto(a, vec![PROTO], multistream_select::Version::V1);
    let l = multistream_select::listener_select_proto(SubstreamBox::new(b), vec![PROTO]);
    let mut both = Box::pin(futures::future::join(d, l));
    let (rd, rl) = det.run_until_stalled(both.as_mut(), 1000).expect("negotiation completes");
    let (_, remote_io) = rd.expect("dialer");
    let (_, io) = rl.expect("listener");
    std::mem::forget(remote_io);
    (libp2p_swarm::verif::stream(io), ctl)
}

fn varint(mut n: usize, out: &mut Vec<u8>) {
    loop {
        let b = (n & 0x7f) as u8;
        n >>= 7;
        if n == 0 {
            out.push(b);
            return;
        }
        out.push(b | 0x80);
    }
}

fn field(no: u8, bytes: &[u8], out: &mut Vec<u8>) {
    out.push((no << 3) | 2);
    varint(bytes.len(), out);
    out.extend_from_slice(bytes);
}

fn dial_request(peer: PeerId, addrs: &[Multiaddr]) -> Vec<u8> {
    let mut info = vec![];
    field(1, &peer.to_bytes(), &mut info);
    for a in addrs {
        field(2, &a.to_vec(), &mut info);
    }
    let mut dial = vec![];
    field(1, &info, &mut dial);
    let mut msg = vec![0x08, 0x00]; // type = DIAL
    field(2, &dial, &mut msg);
    let mut frame = vec![];
    varint(msg.len(), &mut frame);
    frame.extend_from_slice(&msg);
    frame
}

fn ip(c: usize) -> Ipv4Addr {
    Ipv4Addr::new(1, 2, (c / 2 + 1) as u8, (c % 2 + 1) as u8)
}

struct Conn {
    handler: Hdl,
    inbound: bool,
    addr: Multiaddr,
}

struct World {
    beh: autonat::Behaviour,
    peers: Vec<PeerId>,
    other: PeerId,
    conns: Vec<Option<Conn>>, // 0..2*NP requester connections; dial-back connections are transient
    dials: Vec<VecDeque<(ConnectionId, Vec<Multiaddr>)>>,
    det: Det,
    evs: Vec<Value>,
    next_cid: usize,
}

fn cid(c: usize) -> ConnectionId {
    ConnectionId::new_unchecked(2000 + c)
}

impl World {
    fn pidx(&self, p: &PeerId) -> i64 {
        self.peers.iter().position(|x| x == p).map(|i| i as i64).unwrap_or(-1)
    }

    fn n_conns(&self, p: usize) -> usize {
        (0..2).filter(|j| self.conns[2 * p + j].is_some()).count()
    }

    /// abstract view of a dialed address relative to peer p: IP components "obs" iff equal to the IP of one of
    /// p's currently open (requester) connections
    fn shape(&self, a: &Multiaddr, p: usize) -> Value {
        let obs: Vec<Ipv4Addr> = (0..2).filter(|j| self.conns[2 * p + j].is_some()).map(|j| ip(2 * p + j)).collect();
        let mut v = vec![];
        for c in a.iter() {
            let (k, val) = match &c {
                Protocol::Ip4(x) => ("ip4", if obs.contains(x) { "obs" } else { "other" }),
                Protocol::Ip6(_) => ("ip6", "other"),
                Protocol::Dns(_) => ("dns", "x"),
                Protocol::Dns4(_) => ("dns4", "x"),
                Protocol::Dns6(_) => ("dns6", "x"),
                Protocol::Dnsaddr(_) => ("dnsaddr", "x"),
                Protocol::Tcp(_) => ("tcp", "x"),
                Protocol::Udp(_) => ("udp", "x"),
                Protocol::QuicV1 => ("quic-v1", "x"),
                Protocol::P2p(id) => ("p2p", if *id == self.peers[p] { "req" } else { "other" }),
                Protocol::P2pCircuit => ("p2p-circuit", "x"),
                _ => ("misc", "x"),
            };
            v.push(json!([k, val]));
        }
        Value::Array(v)
    }

    fn settle(&mut self) {
        let det = self.det.clone();
        for _ in 0..200 {
            let mut progress = false;
            loop {
                let items = vcommon::exec::drain(&det, 64, |cx| self.beh.poll(cx));
                if items.is_empty() {
                    break;
                }
                progress = true;
                for it in items {
                    match it {
                        ToSwarm::Dial { opts } => {
                            let peer = opts.get_peer_id().expect("dial-back by peer id");
                            let p = self.pidx(&peer);
                            let addrs = libp2p_swarm::verif::dial_opts_addresses(&opts);
                            if p < 0 {
                                self.evs.push(json!({"e": "dial_unknown_peer"}));
                                continue;
                            }
                            let p = p as usize;
                            let shapes: Vec<Value> = addrs.iter().map(|a| self.shape(a, p)).collect();
                            self.evs.push(json!({"e": "dial", "p": p, "addrs": shapes}));
                            self.dials[p].push_back((opts.connection_id(), addrs));
                        }
                        ToSwarm::GenerateEvent(autonat::Event::InboundProbe(ev)) => {
                            let v = match ev {
                                autonat::InboundProbeEvent::Request { peer, .. } => json!({"e": "probe_req", "p": self.pidx(&peer)}),
                                autonat::InboundProbeEvent::Response { peer, .. } => json!({"e": "probe_ok", "p": self.pidx(&peer)}),
                                autonat::InboundProbeEvent::Error { peer, .. } => json!({"e": "probe_err", "p": self.pidx(&peer)}),
                            };
                            self.evs.push(v);
                        }
                        ToSwarm::NotifyHandler { handler: NotifyHandler::One(id), event, .. } => {
                            if let Some(c) = (0..2 * NP).find(|c| cid(*c) == id) {
                                if let Some(conn) = self.conns[c].as_mut() {
                                    conn.handler.on_behaviour_event(event);
                                }
                            }
                        }
                        _ => {}
                    }
                }
            }
            for c in 0..2 * NP {
                loop {
                    let Some(conn) = self.conns[c].as_mut() else { break };
                    let before = det.wakes();
                    let mut cx = det.cx();
                    match conn.handler.poll(&mut cx) {
                        std::task::Poll::Ready(ConnectionHandlerEvent::NotifyBehaviour(ev)) => {
                            progress = true;
                            let peer = self.peers[c / 2];
                            self.beh.on_connection_handler_event(peer, cid(c), ev);
                        }
                        std::task::Poll::Ready(_) => progress = true,
                        std::task::Poll::Pending => {
                            if det.wakes() == before {
                                break;
                            }
                        }
                    }
                }
            }
            if !progress {
                return;
            }
        }
        self.evs.push(json!({"e": "driver_livelock"}));
    }

    fn op(&mut self, op: &Value) {
        let local: Multiaddr = "/ip4/5.6.7.8/tcp/4001".parse().unwrap();
        match vcommon::s(op, "a").as_str() {
            "conn" => {
                let p = vcommon::n(op, "p") as usize;
                let c = 2 * p + vcommon::n(op, "j") as usize;
                if self.conns[c].is_some() {
                    return;
                }
                let addr: Multiaddr = format!("/ip4/{}/tcp/{}", ip(c), 6000 + c).parse().unwrap();
                let handler = self.beh.handle_established_inbound_connection(cid(c), self.peers[p], &local, &addr).expect("never denied");
                let other = self.n_conns(p);
                self.conns[c] = Some(Conn { handler, inbound: true, addr: addr.clone() });
                self.evs.push(json!({"e": "conn", "p": p, "c": c}));
                let ep = ConnectedPoint::Listener { local_addr: local.clone(), send_back_addr: addr };
                self.beh.on_swarm_event(FromSwarm::ConnectionEstablished(ConnectionEstablished {
                    peer_id: self.peers[p],
                    connection_id: cid(c),
                    endpoint: &ep,
                    failed_addresses: &[],
                    other_established: other,
                }));
            }
            "close" => {
                let p = vcommon::n(op, "p") as usize;
                let c = 2 * p + vcommon::n(op, "j") as usize;
                let Some(conn) = self.conns[c].take() else { return };
                debug_assert!(conn.inbound);
                let ep = ConnectedPoint::Listener { local_addr: local.clone(), send_back_addr: conn.addr.clone() };
                drop(conn);
                self.evs.push(json!({"e": "close", "p": p, "c": c}));
                self.beh.on_swarm_event(FromSwarm::ConnectionClosed(ConnectionClosed {
                    peer_id: self.peers[p],
                    connection_id: cid(c),
                    endpoint: &ep,
                    cause: None,
                    remaining_established: self.n_conns(p),
                }));
            }
            "req" => {
                let p = vcommon::n(op, "p") as usize;
                let j = vcommon::n(op, "j") as usize;
                let c = 2 * p + j;
                if self.conns[c].is_none() {
                    return;
                }
                let claimed = if vcommon::s(op, "as") == "self" { self.peers[p] } else { self.other };
                let mut addrs = vec![];
                for l in op["addrs"].as_array().unwrap() {
                    let mut a = Multiaddr::empty();
                    for x in l.as_array().unwrap() {
                        let x = x.as_str().unwrap();
                        let comp = match x {
                            "ip4o" => Protocol::Ip4(ip(c)),
                            "ip4p" => Protocol::Ip4(ip(c ^ 1)),
                            _ => crate::filter::comp(x, self.peers[p], self.other),
                        };
                        a.push(comp);
                    }
                    addrs.push(a);
                }
                let frame = dial_request(claimed, &addrs);
                let det = self.det.clone();
                let (s, ctl) = stream(&det);
                ctl.inject(0, &frame);
                self.evs.push(json!({"e": "req", "p": p, "c": c, "n": addrs.len()}));
                let conn = self.conns[c].as_mut().unwrap();
                conn.handler.on_connection_event(ConnectionEvent::FullyNegotiatedInbound(FullyNegotiatedInbound {
                    protocol: (s, libp2p_swarm::StreamProtocol::new(PROTO)),
                    info: (),
                }));
                std::mem::forget(ctl);
            }
            // an outbound connection to p that is NOT a dial-back (the application or another behaviour dialed
            // p): same IP as p's connection j, a port no dial request names; established and closed again
            "outconn" => {
                let p = vcommon::n(op, "p") as usize;
                let c = 2 * p + vcommon::n(op, "j") as usize;
                if self.conns[c].is_none() {
                    return;
                }
                self.next_cid += 1;
                let id = ConnectionId::new_unchecked(5000 + self.next_cid);
                let addr: Multiaddr = format!("/ip4/{}/tcp/{}", ip(c), 7000 + c).parse::<Multiaddr>().unwrap().with(Protocol::P2p(self.peers[p]));
                self.evs.push(json!({"e": "outconn", "p": p, "c": c}));
                let h = self.beh.handle_established_outbound_connection(id, self.peers[p], &addr, Endpoint::Dialer, PortUse::New).expect("never denied");
                let ep = ConnectedPoint::Dialer { address: addr.clone(), role_override: Endpoint::Dialer, port_use: PortUse::New };
                let others = self.n_conns(p);
                self.beh.on_swarm_event(FromSwarm::ConnectionEstablished(ConnectionEstablished {
                    peer_id: self.peers[p],
                    connection_id: id,
                    endpoint: &ep,
                    failed_addresses: &[],
                    other_established: others,
                }));
                self.settle();
                drop(h);
                self.beh.on_swarm_event(FromSwarm::ConnectionClosed(ConnectionClosed {
                    peer_id: self.peers[p],
                    connection_id: id,
                    endpoint: &ep,
                    cause: None,
                    remaining_established: others,
                }));
            }
            "dialres" => {
                let p = vcommon::n(op, "p") as usize;
                let Some((dial_id, addrs)) = self.dials[p].pop_front() else { return };
                let ok = vcommon::b(op, "ok");
                self.evs.push(json!({"e": "dialres", "p": p, "ok": ok}));
                if ok && !addrs.is_empty() {
                    let i = vcommon::n(op, "i") as usize % addrs.len();
                    let addr = addrs[i].clone();
                    // the dial-back connection: established, reported, and closed again right away
                    self.next_cid += 1;
                    let id = dial_id;
                    let h = self.beh.handle_established_outbound_connection(id, self.peers[p], &addr, Endpoint::Dialer, PortUse::New).expect("never denied");
                    let ep = ConnectedPoint::Dialer { address: addr.clone(), role_override: Endpoint::Dialer, port_use: PortUse::New };
                    let others = self.n_conns(p);
                    self.beh.on_swarm_event(FromSwarm::ConnectionEstablished(ConnectionEstablished {
                        peer_id: self.peers[p],
                        connection_id: id,
                        endpoint: &ep,
                        failed_addresses: &[],
                        other_established: others,
                    }));
                    self.settle();
                    drop(h);
                    self.beh.on_swarm_event(FromSwarm::ConnectionClosed(ConnectionClosed {
                        peer_id: self.peers[p],
                        connection_id: id,
                        endpoint: &ep,
                        cause: None,
                        remaining_established: others,
                    }));
                } else {
                    let err = DialError::Transport(vec![]);
                    self.beh.on_swarm_event(FromSwarm::DialFailure(DialFailure { peer_id: Some(self.peers[p]), error: &err, connection_id: dial_id }));
                }
            }
            x => panic!("op {x}"),
        }
        self.settle();
    }
}

fn run(out: &mut Out, sched: &Value, peers: &[PeerId], other: PeerId, local: PeerId) {
    let tp = vcommon::n(sched, "tp") as usize;
    let tg = vcommon::n(sched, "tg") as usize;
    out.reset_with(json!({"tp": tp, "tg": tg}), sched);
    let cfg = autonat::Config {
        boot_delay: Duration::from_secs(3600),
        retry_interval: Duration::from_secs(3600),
        refresh_interval: Duration::from_secs(3600),
        throttle_clients_period: Duration::from_secs(3600),
        throttle_clients_peer_max: tp,
        throttle_clients_global_max: tg,
        only_global_ips: false,
        max_peer_addresses: 4,
        timeout: Duration::from_secs(600),
        ..Default::default()
    };
    let mut w = World {
        beh: autonat::Behaviour::new(local, cfg),
        peers: peers.to_vec(),
        other,
        conns: (0..2 * NP).map(|_| None).collect(),
        dials: vec![VecDeque::new(); NP],
        det: Det::new(),
        evs: vec![],
        next_cid: 0,
    };
    for op in sched["ops"].as_array().unwrap() {
        let r = vcommon::guard(|| w.op(op));
        for e in w.evs.drain(..) {
            out.ev(e);
        }
        if let Err(m) = r {
            out.ev(json!({"e": "panic", "msg": m}));
            break;
        }
    }
}

const LETTERS: [&str; 15] = ["ip4o", "ip4p", "ip4x", "ip6x", "dns4", "dns", "dns6", "dnsa", "tcp", "udp", "quic", "p2pr", "p2px", "circ", "ip4y"];

fn random_sched(rng: &mut impl Rng, races: bool) -> Value {
    let tp = rng.gen_range(1..=3);
    let tg = rng.gen_range(1..=5);
    let mut ops = vec![];
    for p in 0..NP {
        for j in 0..2 {
            if rng.gen_bool(0.7) {
                ops.push(json!({"a": "conn", "p": p, "j": j}));
            }
        }
    }
    let len = rng.gen_range(4..=30);
    for _ in 0..len {
        let x = rng.gen_range(0..100);
        let p = rng.gen_range(0..NP);
        let j = rng.gen_range(0..2);
        let op = if x < 50 {
            let na = rng.gen_range(1..=3);
            let mut addrs = vec![];
            for _ in 0..na {
                let mut l: Vec<&str> = vec![];
                if rng.gen_bool(0.8) {
                    l.push(["ip4o", "ip4x", "ip4p", "ip6x"][rng.gen_range(0..4)]);
                    l.push(["tcp", "udp"][rng.gen_range(0..2)]);
                }
                for _ in 0..rng.gen_range(0..4) {
                    if rng.gen_bool(0.4) {
                        l.push(LETTERS[rng.gen_range(0..LETTERS.len())]);
                    }
                }
                if l.is_empty() {
                    l.push("tcp");
                }
                addrs.push(l);
            }
            json!({"a": "req", "p": p, "j": j, "as": if rng.gen_bool(0.9) { "self" } else { "other" }, "addrs": addrs})
        } else if x < 85 {
            json!({"a": "dialres", "p": p, "ok": rng.gen_bool(0.5), "i": rng.gen_range(0..4)})
        } else if x < 89 {
            json!({"a": "outconn", "p": p, "j": j})
        } else if x < 93 {
            if races { json!({"a": "close", "p": p, "j": j}) } else { json!({"a": "dialres", "p": p, "ok": false, "i": 0}) }
        } else {
            json!({"a": "conn", "p": p, "j": j})
        };
        ops.push(op);
    }
    json!({"tp": tp, "tg": tg, "ops": ops})
}

pub fn main(a: &vcommon::Args) {
    vcommon::quiet_panics();
    let peers: Vec<PeerId> = (0..NP).map(|_| PeerId::random()).collect();
    let other = PeerId::random();
    let local = PeerId::random();
    match a.get(0) {
        "replay" => {
            let scheds = vcommon::read_schedules(a.get(1));
            let mut out = Out::create(a.get(2));
            for s in &scheds {
                run(&mut out, s, &peers, other, local);
            }
            println!("runs={} events={}", out.run, out.events);
            out.finish();
        }
        "random" => {
            let seed = a.num(1);
            let runs = a.num(2);
            let races = a.kv_num("races", 1) == 1;
            let mut out = Out::create(a.get(3));
            let mut rng = vcommon::rng(seed.wrapping_mul(7919).wrapping_add(5050));
            for _ in 0..runs {
                let s = random_sched(&mut rng, races);
                run(&mut out, &s, &peers, other, local);
            }
            println!("runs={} events={}", out.run, out.events);
            out.finish();
        }
        m => {
            eprintln!("unknown sub-mode {m}");
            std::process::exit(2)
        }
    }
}
