pub fn main(_a: &vcommon::Args) {
    eprintln!("not yet");
    std::process::exit(2)
}
