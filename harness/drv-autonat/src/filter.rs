//! C50 (address part): the REAL `filter_valid_addrs` on enumerated address shapes.
//! Record: {"obs": shape, "dem": [shape..], "out": [shape..]} with shape = [[kind, val]..];
//! val: ip components "obs" (equals the observed IP) | "other"; p2p "req" (the requester) | "other"; else "x".
use std::net::{Ipv4Addr, Ipv6Addr};

use libp2p_core::{multiaddr::Protocol, Multiaddr};
use libp2p_identity::PeerId;
use rand::Rng;
use vcommon::{json, Out, Value};

pub const OBS4: Ipv4Addr = Ipv4Addr::new(1, 2, 3, 4);
pub const OBS6: Ipv6Addr = Ipv6Addr::new(0x2001, 0xdb8, 0, 0, 0, 0, 0, 4);

pub fn comp<'a>(letter: &str, req: PeerId, other: PeerId) -> Protocol<'a> {
    match letter {
        "ip4o" => Protocol::Ip4(OBS4),
        "ip4x" => Protocol::Ip4(Ipv4Addr::new(9, 9, 9, 9)),
        "ip4y" => Protocol::Ip4(Ipv4Addr::new(8, 8, 8, 8)),
        "ip6o" => Protocol::Ip6(OBS6),
        "ip6x" => Protocol::Ip6(Ipv6Addr::new(0x2001, 0xdb8, 0, 0, 0, 0, 0, 9)),
        "dns4" => Protocol::Dns4("victim.example".into()),
        "dns" => Protocol::Dns("victim.example".into()),
        "dns6" => Protocol::Dns6("victim.example".into()),
        "dnsa" => Protocol::Dnsaddr("victim.example".into()),
        "tcp" => Protocol::Tcp(4001),
        "udp" => Protocol::Udp(4001),
        "quic" => Protocol::QuicV1,
        "p2pr" => Protocol::P2p(req),
        "p2px" => Protocol::P2p(other),
        "circ" => Protocol::P2pCircuit,
        x => panic!("letter {x}"),
    }
}

/// abstract view of a real multiaddr relative to the observed IP(s) and the requester
pub fn shape(a: &Multiaddr, obs: &[Protocol<'_>], req: PeerId) -> Value {
    let mut v = vec![];
    for p in a.iter() {
        let (k, val) = match &p {
            Protocol::Ip4(_) => ("ip4", if obs.contains(&p) { "obs" } else { "other" }),
            Protocol::Ip6(_) => ("ip6", if obs.contains(&p) { "obs" } else { "other" }),
            Protocol::Dns(_) => ("dns", "x"),
            Protocol::Dns4(_) => ("dns4", "x"),
            Protocol::Dns6(_) => ("dns6", "x"),
            Protocol::Dnsaddr(_) => ("dnsaddr", "x"),
            Protocol::Tcp(_) => ("tcp", "x"),
            Protocol::Udp(_) => ("udp", "x"),
            Protocol::QuicV1 => ("quic-v1", "x"),
            Protocol::P2p(id) => ("p2p", if *id == req { "req" } else { "other" }),
            Protocol::P2pCircuit => ("p2p-circuit", "x"),
            _ => ("misc", "x"),
        };
        v.push(json!([k, val]));
    }
    Value::Array(v)
}

pub fn build(letters: &[&str], req: PeerId, other: PeerId) -> Multiaddr {
    let mut a = Multiaddr::empty();
    for l in letters {
        a.push(comp(l, req, other));
    }
    a
}

fn record(out: &mut Out, obs_letters: &[&str], dem_letters: &[Vec<&str>], req: PeerId, other: PeerId) {
    let observed = build(obs_letters, req, other);
    let obs_ip: Vec<Protocol> = observed.iter().filter(|p| matches!(p, Protocol::Ip4(_) | Protocol::Ip6(_))).take(1).collect();
    let dem: Vec<Multiaddr> = dem_letters.iter().map(|l| build(l, req, other)).collect();
    let r = vcommon::guard(|| libp2p_autonat::verif::filter_valid_addrs(req, dem.clone(), &observed));
    let mut rec = json!({
        "obs": shape(&observed, &obs_ip, req),
        "dem": dem.iter().map(|a| shape(a, &obs_ip, req)).collect::<Vec<_>>(),
        "letters": dem_letters,
        "obsl": obs_letters,
    });
    match r {
        Ok(o) => rec["out"] = Value::Array(o.iter().map(|a| shape(a, &obs_ip, req)).collect()),
        Err(m) => {
            rec["out"] = json!([]);
            rec["panic"] = json!(m);
        }
    }
    out.ev(rec);
}

const ALPHA: [&str; 15] = ["ip4o", "ip4x", "ip6x", "ip6o", "dns4", "dns", "dns6", "dnsa", "tcp", "udp", "quic", "p2pr", "p2px", "circ", "ip4y"];

pub fn main(a: &vcommon::Args) {
    vcommon::quiet_panics();
    let req = PeerId::random();
    let other = PeerId::random();
    match a.get(0) {
        // every single demanded address of length 1..=n over the alphabet, for an ip4 and an ip6 observation
        "exhaustive" => {
            let n = a.num(1) as usize;
            let mut out = Out::create(a.get(2));
            for obs in [vec!["ip4o", "tcp"], vec!["ip6o", "tcp"], vec!["ip4o", "udp", "quic", "p2pr"]] {
                for len in 1..=n {
                    let k = ALPHA.len();
                    for code in 0..k.pow(len as u32) {
                        let mut c = code;
                        let mut l = vec![];
                        for _ in 0..len {
                            l.push(ALPHA[c % k]);
                            c /= k;
                        }
                        record(&mut out, &obs, &[l], req, other);
                    }
                }
            }
            println!("records={}", out.events);
            out.finish();
        }
        // random lists of demanded addresses (duplicates, longer addresses)
        "random" => {
            let seed = a.num(1);
            let runs = a.num(2);
            let mut out = Out::create(a.get(3));
            let mut rng = vcommon::rng(seed.wrapping_mul(7919).wrapping_add(50));
            for _ in 0..runs {
                let obs = [vec!["ip4o", "tcp"], vec!["ip6o", "tcp"], vec!["dns4", "tcp"], vec!["ip4o", "udp", "quic"]][rng.gen_range(0..4)].clone();
                let nd = rng.gen_range(1..=4);
                let mut dem = vec![];
                for _ in 0..nd {
                    let len = rng.gen_range(1..=6);
                    let mut l: Vec<&str> = vec![];
                    // bias towards plausible addresses: start with an ip, then transport
                    if rng.gen_bool(0.7) {
                        l.push(["ip4o", "ip4x", "ip6x", "ip4y"][rng.gen_range(0..4)]);
                        l.push(["tcp", "udp"][rng.gen_range(0..2)]);
                    }
                    for _ in 0..len {
                        if rng.gen_bool(0.5) {
                            l.push(ALPHA[rng.gen_range(0..ALPHA.len())]);
                        }
                    }
                    if l.is_empty() {
                        l.push("tcp");
                    }
                    dem.push(l);
                }
                record(&mut out, &obs, &dem, req, other);
            }
            println!("records={}", out.events);
            out.finish();
        }
        "replay" => {
            let recs = vcommon::read_ndjson(a.get(1));
            let mut out = Out::create(a.get(2));
            for r in &recs {
                let obs: Vec<&str> = r["obsl"].as_array().unwrap().iter().map(|x| x.as_str().unwrap()).collect();
                let dem: Vec<Vec<&str>> = r["letters"].as_array().unwrap().iter().map(|l| l.as_array().unwrap().iter().map(|x| x.as_str().unwrap()).collect()).collect();
                record(&mut out, &obs, &dem, req, other);
            }
            println!("records={}", out.events);
            out.finish();
        }
        m => {
            eprintln!("unknown sub-mode {m}");
            std::process::exit(2)
        }
    }
}
