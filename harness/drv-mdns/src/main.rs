//! C55: REAL mDNS packet builders / parser of libp2p-mdns (through the `verif` hook).
//!
//! response mode.  Schedule: {"peer":"ed"|"sha","ttl":secs,"addrs":[spec..]}
//!   spec: {"c":"ip4","n":k} | {"c":"len","len":L,"i":i} (a /dns4 address whose TXT string "dnsaddr=<addr>/p2p/<peer>" is
//!         exactly L bytes) | {"c":"space"|"quote"|"bslash"|"nonascii"|"p2p"|"p2pother","i":i}; optional "rep":n repeats the
//!         spec with i, i+1, ..
//!   Record: {"kind":"response","adv":[{"id":i,"len":txt bytes,"ascii":b,"plain":b}..],
//!            "packets":[{"size":n,"parsed":"response"|"error"|..,"peers":[{"self":b,"addrs":[id|-1..],"ttl":s}]}], ("panic":msg)}
//!   (id = index of the first advertised address with the same text; -1 = an address that was never advertised)
//! fuzz mode.  Record: {"kind":"fuzz","class":..,"inputs":n,"panics":[hex..]}
use std::{net::SocketAddr, time::Duration};

use libp2p_core::{multiaddr::Protocol, Multiaddr};
use libp2p_identity::{Keypair, PeerId};
use libp2p_mdns::verif::{self, Parsed};
use rand::{Rng, RngCore};
use vcommon::{json, Out, Value};

struct World {
    ed: PeerId,
    sha: PeerId,
    other: PeerId,
}

fn expand(w: &World, peer: &PeerId, specs: &[Value]) -> Vec<Multiaddr> {
    let mut out = vec![];
    let b58 = peer.to_base58();
    for s in specs {
        let rep = s.get("rep").and_then(|x| x.as_i64()).unwrap_or(1);
        for r in 0..rep {
            let i = s.get("i").and_then(|x| x.as_i64()).unwrap_or(0) + r;
            let dns = |name: String| Multiaddr::empty().with(Protocol::Dns4(name.into())).with(Protocol::Tcp(1));
            let a = match vcommon::s(s, "c").as_str() {
                "ip4" => {
                    let n = vcommon::n(s, "n") + r;
                    Multiaddr::empty().with(Protocol::Ip4([10, 0, (n / 256) as u8, (n % 256) as u8].into())).with(Protocol::Tcp(4001))
                }
                "len" => {
                    // "dnsaddr=" + "/dns4/" + name + "/tcp/1" + "/p2p/" + b58
                    let total = vcommon::n(s, "len") as usize;
                    let fixed = 8 + 6 + 6 + 5 + b58.len();
                    let head = format!("h{i}-");
                    let name_len = total.saturating_sub(fixed).max(head.len());
                    let mut name = head;
                    while name.len() < name_len {
                        name.push('a');
                    }
                    dns(name)
                }
                "space" => dns(format!("h {i}.example")),
                "quote" => dns(format!("h\"{i}\" x.example")),
                "bslash" => dns(format!("h\\{i} x.example")),
                "quote_nospace" => dns(format!("h\"{i}\".example")),
                "nonascii" => dns(format!("h\u{e9}{i}.example")),
                "p2p" => Multiaddr::empty().with(Protocol::Ip4([10, 1, 0, i as u8].into())).with(Protocol::Tcp(1)).with(Protocol::P2p(*peer)),
                "p2pother" => Multiaddr::empty().with(Protocol::Ip4([10, 2, 0, i as u8].into())).with(Protocol::Tcp(1)).with(Protocol::P2p(w.other)),
                x => panic!("driver: spec class {x}"),
            };
            out.push(a);
        }
    }
    out
}

fn from_addr() -> SocketAddr {
    "192.168.1.7:5353".parse().unwrap()
}

fn run_response(out: &mut Out, sched: &Value, w: &World) {
    let peer = if vcommon::s(sched, "peer") == "sha" { w.sha } else { w.ed };
    let ttl = Duration::from_secs(sched.get("ttl").and_then(|x| x.as_u64()).unwrap_or(60));
    let addrs = expand(w, &peer, sched["addrs"].as_array().unwrap());
    let texts: Vec<String> = addrs.iter().map(|a| a.to_string()).collect();
    let b58 = peer.to_base58();
    let adv: Vec<Value> = texts
        .iter()
        .map(|t| {
            let txt = format!("dnsaddr={t}/p2p/{b58}");
            let id = texts.iter().position(|x| x == t).unwrap();
            json!({"id": id, "len": txt.len(), "ascii": txt.is_ascii(), "plain": !txt.bytes().any(|c| c == b' ' || c == b'"' || c == b'\\')})
        })
        .collect();
    let r = vcommon::guard(|| {
        let packets = verif::build_query_response(0x1234, peer, &addrs, ttl);
        let mut ps = vec![];
        for p in &packets {
            let (kind, peers) = match verif::parse(p, from_addr()) {
                Parsed::Error(e) => (format!("error:{e}"), vec![]),
                Parsed::Ignored => ("ignored".to_string(), vec![]),
                Parsed::Query(_) => ("query".to_string(), vec![]),
                Parsed::ServiceDiscovery(_) => ("service".to_string(), vec![]),
                Parsed::Response(peers) => (
                    "response".to_string(),
                    peers
                        .iter()
                        .map(|(id, al, ttl)| {
                            let ids: Vec<i64> = al.iter().map(|a| texts.iter().position(|x| *x == a.to_string()).map(|i| i as i64).unwrap_or(-1)).collect();
                            json!({"self": *id == peer, "addrs": ids, "ttl": ttl})
                        })
                        .collect(),
                ),
            };
            ps.push(json!({"size": p.len(), "parsed": kind, "peers": peers}));
        }
        ps
    });
    let mut rec = json!({"kind": "response", "sched": sched, "adv": adv});
    match r {
        Ok(ps) => rec["packets"] = json!(ps),
        Err(m) => {
            rec["packets"] = json!([]);
            rec["panic"] = json!(m);
        }
    }
    out.ev(rec);
}

fn gen_sched(rng: &mut impl Rng) -> Value {
    let peer = if rng.gen_bool(0.5) { "ed" } else { "sha" };
    let n = match rng.gen_range(0..10) {
        0 => 0,
        1..=5 => rng.gen_range(1..6),
        6..=7 => rng.gen_range(20..40),
        _ => rng.gen_range(50..100),
    };
    let mut addrs = vec![];
    let mut i = 0;
    while i < n {
        let rep = rng.gen_range(1..=4).min(n - i);
        let spec = match rng.gen_range(0..100) {
            0..=39 => json!({"c": "ip4", "n": rng.gen_range(1..2000), "rep": rep}),
            40..=69 => json!({"c": "len", "len": rng.gen_range(120..270), "i": i, "rep": rep}),
            70..=79 => json!({"c": "len", "len": rng.gen_range(253..258), "i": i, "rep": rep}),
            80..=84 => json!({"c": "space", "i": i, "rep": rep}),
            85..=87 => json!({"c": "quote", "i": i, "rep": rep}),
            88..=89 => json!({"c": "bslash", "i": i, "rep": rep}),
            90..=91 => json!({"c": "quote_nospace", "i": i, "rep": rep}),
            92..=94 => json!({"c": "nonascii", "i": i, "rep": rep}),
            95..=97 => json!({"c": "p2p", "i": i, "rep": rep}),
            _ => json!({"c": "p2pother", "i": i, "rep": rep}),
        };
        addrs.push(spec);
        i += rep;
    }
    json!({"peer": peer, "ttl": rng.gen_range(1..100000), "addrs": addrs})
}

fn hex(b: &[u8]) -> String {
    b.iter().map(|x| format!("{x:02x}")).collect()
}

/// one record for the class (panics = []) plus one record per DISTINCT panic message, so that every kind of
/// panic is judged on its own
fn emit_fuzz(out: &mut Out, class: &str, n: u64, panics: Vec<(String, String)>) {
    out.ev(json!({"kind": "fuzz", "class": class, "inputs": n, "panics": []}));
    let mut msgs: Vec<String> = panics.iter().map(|p| p.0.clone()).collect();
    msgs.sort();
    msgs.dedup();
    for m in msgs {
        let hs: Vec<&String> = panics.iter().filter(|p| p.0 == m).map(|p| &p.1).collect();
        out.ev(json!({"kind": "fuzz", "class": class, "inputs": hs.len(), "msg": m, "panics": hs.iter().take(5).collect::<Vec<_>>()}));
    }
}

/// inputs that once made the parser panic (kept so that the outcome does not depend on fuzzing luck; the packets
/// under mutation contain random peer names, so a seed does not reproduce an input)
const REGRESSION_INPUTS: [&str; 1] = [
    // hickory-proto 0.26.1 tsig.rs:387 `end_idx - decoder.index()` (crafted TSIG record)
    "000984000000000100000002045f703270045f756470056c6f63616c0000fa0001000000010026243478496d4343584134767a476c61474f48536932416e6c7666773344414d664933326c5100243478496d4343584134767a476c61474f48536932416e6c7666773344414d664933326c51000010800100000001005251646e73616464723d2f6970342f31302e302e302e312f7463702f343030312f7032702f516d514279614d7251706e487669387662754a313547634a353161464256396142626d727543436f664551595463243478496d4343584134767a476c61474f48536932416e6c7666773344414d664933326c51000010800100000001005251646e73616464723d2f6970342f31302e302e302e322f7463702f343030312f7032702f516d514279614d7251706e487669387662754a313547634a353161464256396142626d727543436f664551595463",
];

fn fuzz(out: &mut Out, seed: u64, n: u64, w: &World) {
    let mut rng = vcommon::rng(seed);
    {
        let mut panics: Vec<(String, String)> = vec![];
        for h in REGRESSION_INPUTS {
            let bytes: Vec<u8> = (0..h.len() / 2).map(|i| u8::from_str_radix(&h[2 * i..2 * i + 2], 16).unwrap()).collect();
            if let Err(m) = vcommon::guard(|| verif::parse(&bytes, from_addr())) {
                panics.push((m, h.to_string()));
            }
        }
        emit_fuzz(out, "regress", REGRESSION_INPUTS.len() as u64, panics);
    }
    // well-formed responses (PTR answer + additional TXT record) whose TXT character-strings run through a small
    // grammar: every string over {", \, a, space, =} up to length 4, alone and behind a dnsaddr= prefix
    {
        let mut panics: Vec<(String, String)> = vec![];
        let mut n_txt = 0u64;
        let alpha: [u8; 5] = [b'"', b'\\', b'a', b' ', b'='];
        let mut strings: Vec<Vec<u8>> = vec![vec![]];
        let mut layer: Vec<Vec<u8>> = vec![vec![]];
        for _ in 0..4 {
            let mut next = vec![];
            for s in &layer {
                for c in alpha {
                    let mut t = s.clone();
                    t.push(c);
                    next.push(t);
                }
            }
            strings.extend(next.iter().cloned());
            layer = next;
        }
        let good = format!("dnsaddr=/ip4/10.0.0.1/tcp/4001/p2p/{}", w.ed).into_bytes();
        let label = |out: &mut Vec<u8>, name: &str| {
            for l in name.split('.') {
                out.push(l.len() as u8);
                out.extend_from_slice(l.as_bytes());
            }
            out.push(0);
        };
        for s in &strings {
            for variant in 0..4 {
                let cs: Vec<Vec<u8>> = match variant {
                    0 => vec![s.clone()],
                    1 => vec![[&b"dnsaddr="[..], s].concat()],
                    2 => vec![good.clone(), s.clone()],
                    _ => vec![[&b"\""[..], &good[..], s].concat()],
                };
                let mut pkt: Vec<u8> = vec![0, 0, 0x84, 0, 0, 0, 0, 1, 0, 0, 0, 1];
                label(&mut pkt, "_p2p._udp.local");
                pkt.extend_from_slice(&[0, 12, 0, 1, 0, 0, 0, 60]);
                let mut rd = vec![];
                label(&mut rd, "peer1._p2p._udp.local");
                pkt.extend_from_slice(&(rd.len() as u16).to_be_bytes());
                pkt.extend_from_slice(&rd);
                label(&mut pkt, "peer1._p2p._udp.local");
                pkt.extend_from_slice(&[0, 16, 0, 1, 0, 0, 0, 60]);
                let mut rd = vec![];
                for c in &cs {
                    rd.push(c.len() as u8);
                    rd.extend_from_slice(c);
                }
                pkt.extend_from_slice(&(rd.len() as u16).to_be_bytes());
                pkt.extend_from_slice(&rd);
                n_txt += 1;
                if let Err(m) = vcommon::guard(|| verif::parse(&pkt, from_addr())) {
                    panics.push((m, hex(&pkt)));
                }
            }
        }
        emit_fuzz(out, "txt", n_txt, panics);
    }
    // corpus of valid packets to mutate
    let addrs = expand(w, &w.ed, &[json!({"c": "ip4", "n": 1, "rep": 3}), json!({"c": "len", "len": 200, "i": 0, "rep": 2}), json!({"c": "space", "i": 0})]);
    let mut corpus: Vec<Vec<u8>> = vec![verif::build_query(), verif::build_service_discovery_response(7, Duration::from_secs(60))];
    corpus.extend(verif::build_query_response(9, w.ed, &addrs, Duration::from_secs(60)));
    corpus.extend(verif::build_query_response(9, w.sha, &addrs[..2], Duration::from_secs(1)));
    for class in ["random", "mutate", "truncate", "splice"] {
        let mut panics: Vec<(String, String)> = vec![];
        for _ in 0..n {
            let input: Vec<u8> = match class {
                "random" => {
                    let len = rng.gen_range(0..200);
                    let mut b = vec![0u8; len];
                    rng.fill_bytes(&mut b);
                    if len > 12 && rng.gen_bool(0.7) {
                        // plausible header: few records
                        for k in [4, 6, 8, 10] {
                            b[k] = 0;
                            b[k + 1] = rng.gen_range(0..4);
                        }
                    }
                    b
                }
                "mutate" => {
                    let mut b = corpus[rng.gen_range(0..corpus.len())].clone();
                    for _ in 0..rng.gen_range(1..6) {
                        let i = rng.gen_range(0..b.len());
                        b[i] = match rng.gen_range(0..4) {
                            0 => rng.gen(),
                            1 => b[i] ^ (1 << rng.gen_range(0..8)),
                            2 => 0xc0 | (b[i] & 0x3f), // compression pointer
                            _ => 0xff,
                        };
                    }
                    b
                }
                "truncate" => {
                    let b = &corpus[rng.gen_range(0..corpus.len())];
                    b[..rng.gen_range(0..b.len())].to_vec()
                }
                _ => {
                    let a = &corpus[rng.gen_range(0..corpus.len())];
                    let b = &corpus[rng.gen_range(0..corpus.len())];
                    let mut v = a[..rng.gen_range(0..a.len())].to_vec();
                    v.extend_from_slice(&b[rng.gen_range(0..b.len())..]);
                    v
                }
            };
            if let Err(m) = vcommon::guard(|| verif::parse(&input, from_addr())) {
                panics.push((m, hex(&input)));
            }
        }
        emit_fuzz(out, class, n, panics);
    }
}

fn main() {
    let a = vcommon::Args::parse();
    if std::env::var("VERIF_LOUD").is_err() {
        vcommon::quiet_panics();
    }
    let w = World {
        ed: Keypair::generate_ed25519().public().to_peer_id(), // identity multihash: 52 base58 characters
        sha: Keypair::generate_ecdsa().public().to_peer_id(),  // SHA2-256 multihash: 46 base58 characters
        other: PeerId::random(),
    };
    match a.mode.as_str() {
        "response" => {
            let mut out = Out::create(a.get(1));
            for s in vcommon::read_ndjson(a.get(0)) {
                if s.get("kind").and_then(|k| k.as_str()) == Some("fuzz") {
                    // replay of a fuzz record: parse the recorded panicking inputs again
                    let mut panics: Vec<(String, String)> = vec![];
                    let inputs = s["panics"].as_array().cloned().unwrap_or_default();
                    for h in &inputs {
                        let h = h.as_str().unwrap();
                        let bytes: Vec<u8> = (0..h.len() / 2).map(|i| u8::from_str_radix(&h[2 * i..2 * i + 2], 16).unwrap()).collect();
                        if let Err(m) = vcommon::guard(|| verif::parse(&bytes, from_addr())) {
                            panics.push((m, h.to_string()));
                        }
                    }
                    emit_fuzz(&mut out, s["class"].as_str().unwrap_or("replay"), inputs.len() as u64, panics);
                    continue;
                }
                let s = if s.get("sched").is_some() { s["sched"].clone() } else { s };
                run_response(&mut out, &s, &w);
            }
            println!("records={}", out.events);
            out.finish();
        }
        "gen" => {
            let mut rng = vcommon::rng(a.num(0));
            let mut out = Out::create(a.get(2));
            for _ in 0..a.num(1) {
                let s = gen_sched(&mut rng);
                run_response(&mut out, &s, &w);
            }
            println!("records={}", out.events);
            out.finish();
        }
        // the peer name inside a response is random (34..65 bytes): repeat the fullest possible packets so that the
        // longest names occur (P(name = 65 bytes) = 1/32 per response)
        "worst" => {
            let mut out = Out::create(a.get(1));
            for i in 0..a.num(0) {
                let rep = 24 + (i % 8);
                let s = json!({"peer": if i % 2 == 0 { "ed" } else { "sha" }, "ttl": 60, "addrs": [{"c": "len", "len": 255, "i": 0, "rep": rep}]});
                run_response(&mut out, &s, &w);
            }
            println!("records={}", out.events);
            out.finish();
        }
        // replay one packet given as hex
        "parsehex" => {
            let h = std::fs::read_to_string(a.get(0)).unwrap();
            let h = h.trim();
            let bytes: Vec<u8> = (0..h.len() / 2).map(|i| u8::from_str_radix(&h[2 * i..2 * i + 2], 16).unwrap()).collect();
            match vcommon::guard(|| format!("{:?}", verif::parse(&bytes, from_addr()))) {
                Ok(r) => println!("parsed: {}", &r[..r.len().min(200)]),
                Err(m) => println!("PANIC: {m}"),
            }
        }
        "fuzz" => {
            let mut out = Out::create(a.get(2));
            fuzz(&mut out, a.num(0), a.num(1), &w);
            println!("records={}", out.events);
            out.finish();
        }
        m => {
            eprintln!("unknown mode {m}");
            std::process::exit(2)
        }
    }
}
