//! The REAL `ConnectionHandlerSelect<Rec<1>, Rec<2>>` (built with `ConnectionHandler::select`). The two children are
//! scripted recording handlers: what they return from poll / poll_close / listen_protocol / connection_keep_alive is
//! queued by the schedule, every callback they receive is logged (`cb` events) in order.
//!
//! Schedule: {"ops": [op..]}
//!   {"a":"q","s":1|2,"k":"notify"|"osr"|"report","to":ms}   queue an event in child s (fresh tag)
//!   {"a":"poll"}                       ONE call of poll on the combined handler
//!   {"a":"beh","s"}                    on_behaviour_event(Left/Right(tag))
//!   {"a":"outok","i"} {"a":"outerr","i","k":"timeout|neg|io|apply"}    result for the i-th outstanding substream request
//!   {"a":"inok","s"} {"a":"inerr","s"} inbound result / upgrade error of side s (info = the pair from listen_protocol)
//!   {"a":"addr"}                       AddressChange
//!   {"a":"pchg","local":bool,"added":bool}   LocalProtocolsChange / RemoteProtocolsChange (Added / Removed)
//!   {"a":"ka","k1","k2"}               children's keep-alive flags, then connection_keep_alive()
//!   {"a":"listen","n1","t1","n2","t2"} children's listen protocols (n names, timeout ms), then listen_protocol()
//!   {"a":"qclose","s"} {"a":"cblock","s","on"} {"a":"pollclose"}       poll_close
use std::{
    collections::VecDeque,
    sync::{Arc, Mutex},
    task::{Context, Poll},
    time::Duration,
};

use futures::future;
use libp2p_core::{upgrade::UpgradeInfo, Multiaddr};
use libp2p_swarm::{
    derive_prelude::Either,
    handler::{
        AddressChange, ConnectionEvent, ConnectionHandlerEvent, DialUpgradeError, FullyNegotiatedInbound, FullyNegotiatedOutbound,
        ListenUpgradeError, ProtocolSupport,
    },
    ConnectionHandler, StreamProtocol, StreamUpgradeError, SubstreamProtocol,
};
use rand::Rng;
use vcommon::{exec::Det, guard, json, Args, Out, Value};

use crate::up::{Up, UpErr, Val};

enum ChildEv {
    Notify(i64),
    Osr { tag: i64, to: u64, info: i64 },
    Report { added: bool, name: String },
}

struct Inner {
    outbox: VecDeque<ChildEv>,
    closebox: VecDeque<i64>,
    close_block: bool,
    ka: bool,
    listen_n: usize,
    listen_to: u64,
    listen_info: i64,
}

type Log = Arc<Mutex<Vec<Value>>>;

struct Rec<const S: u8> {
    st: Arc<Mutex<Inner>>,
    log: Log,
}

fn new_inner(s: i64) -> Arc<Mutex<Inner>> {
    Arc::new(Mutex::new(Inner { outbox: VecDeque::new(), closebox: VecDeque::new(), close_block: false, ka: false, listen_n: 1, listen_to: 10_000, listen_info: 70 + s }))
}

fn listen_names(s: u8, n: usize) -> Vec<String> {
    (1..=n).map(|i| format!("/s{s}/l{i}")).collect()
}

fn errkind<E>(e: &StreamUpgradeError<E>) -> &'static str {
    match e {
        StreamUpgradeError::Timeout => "timeout",
        StreamUpgradeError::NegotiationFailed => "neg",
        StreamUpgradeError::Io(_) => "io",
        StreamUpgradeError::Apply(_) => "apply",
    }
}

impl<const S: u8> Rec<S> {
    fn cb(&self, k: &str, v: i64, info: i64, ek: &str) {
        self.log.lock().unwrap().push(json!({"e": "cb", "s": S, "k": k, "v": v, "info": info, "ek": ek}));
    }
}

impl<const S: u8> ConnectionHandler for Rec<S> {
    type FromBehaviour = i64;
    type ToBehaviour = i64;
    type InboundProtocol = Up<S>;
    type OutboundProtocol = Up<S>;
    type InboundOpenInfo = i64;
    type OutboundOpenInfo = i64;

    fn listen_protocol(&self) -> SubstreamProtocol<Up<S>, i64> {
        let g = self.st.lock().unwrap();
        SubstreamProtocol::new(Up { tag: 0, protos: listen_names(S, g.listen_n) }, g.listen_info).with_timeout(Duration::from_millis(g.listen_to))
    }

    fn connection_keep_alive(&self) -> bool {
        self.st.lock().unwrap().ka
    }

    fn poll(&mut self, _: &mut Context<'_>) -> Poll<ConnectionHandlerEvent<Up<S>, i64, i64>> {
        match self.st.lock().unwrap().outbox.pop_front() {
            None => Poll::Pending,
            Some(ChildEv::Notify(t)) => Poll::Ready(ConnectionHandlerEvent::NotifyBehaviour(t)),
            Some(ChildEv::Osr { tag, to, info }) => Poll::Ready(ConnectionHandlerEvent::OutboundSubstreamRequest {
                protocol: SubstreamProtocol::new(Up { tag, protos: vec![format!("/s{S}/o{tag}")] }, info).with_timeout(Duration::from_millis(to)),
            }),
            Some(ChildEv::Report { added, name }) => {
                let set = [StreamProtocol::try_from_owned(name).unwrap()].into_iter().collect();
                Poll::Ready(ConnectionHandlerEvent::ReportRemoteProtocols(if added { ProtocolSupport::Added(set) } else { ProtocolSupport::Removed(set) }))
            }
        }
    }

    fn poll_close(&mut self, _: &mut Context<'_>) -> Poll<Option<i64>> {
        let mut g = self.st.lock().unwrap();
        if g.close_block {
            return Poll::Pending;
        }
        Poll::Ready(g.closebox.pop_front())
    }

    fn on_behaviour_event(&mut self, v: i64) {
        self.cb("beh", v, 0, "");
    }

    fn on_connection_event(&mut self, event: ConnectionEvent<Up<S>, Up<S>, i64, i64>) {
        match event {
            ConnectionEvent::FullyNegotiatedInbound(FullyNegotiatedInbound { protocol: Val(v), info }) => self.cb("inok", v, info, ""),
            ConnectionEvent::FullyNegotiatedOutbound(FullyNegotiatedOutbound { protocol: Val(v), info }) => self.cb("outok", v, info, ""),
            ConnectionEvent::DialUpgradeError(DialUpgradeError { info, error }) => {
                let ek = errkind(&error);
                let v = if let StreamUpgradeError::Apply(UpErr(v)) = error { v } else { 0 };
                self.cb("outerr", v, info, ek)
            }
            ConnectionEvent::ListenUpgradeError(ListenUpgradeError { info, error: UpErr(v) }) => self.cb("inerr", v, info, ""),
            ConnectionEvent::AddressChange(AddressChange { new_address }) => {
                let v = match new_address.iter().next() {
                    Some(libp2p_core::multiaddr::Protocol::Memory(p)) => p as i64,
                    _ => -1,
                };
                self.cb("addr", v, 0, "")
            }
            ConnectionEvent::LocalProtocolsChange(c) => {
                let (v, added) = pc_tag(c);
                self.cb("lpc", v, added, "")
            }
            ConnectionEvent::RemoteProtocolsChange(c) => {
                let (v, added) = pc_tag(c);
                self.cb("rpc", v, added, "")
            }
            _ => self.cb("other", 0, 0, ""),
        }
    }
}

/// (tag encoded in the first protocol name "/pc/<tag>", 1 = Added / 0 = Removed)
fn pc_tag(c: libp2p_swarm::handler::ProtocolsChange<'_>) -> (i64, i64) {
    use libp2p_swarm::handler::ProtocolsChange;
    let (name, added) = match c {
        ProtocolsChange::Added(mut it) => (it.next().map(|p| p.as_ref().to_string()), 1),
        ProtocolsChange::Removed(mut it) => (it.next().map(|p| p.as_ref().to_string()), 0),
    };
    (name.and_then(|n| n.rsplit('/').next().and_then(|x| x.parse().ok())).unwrap_or(-1), added)
}

fn run(sched: &Value) -> Vec<Value> {
    let det = Det::new();
    let log: Log = Arc::new(Mutex::new(vec![]));
    let st = [new_inner(1), new_inner(2)];
    let c1: Rec<1> = Rec { st: st[0].clone(), log: log.clone() };
    let c2: Rec<2> = Rec { st: st[1].clone(), log: log.clone() };
    let mut h = c1.select(c2);
    let mut tag = 0i64;
    let mut nin = 0i64;
    // outstanding substream requests: (side, tag, info)
    let mut outstanding: Vec<(i64, i64, i64)> = vec![];
    let mut evs: Vec<Value> = vec![];
    for op in sched["ops"].as_array().cloned().unwrap_or_default() {
        let a = op["a"].as_str().unwrap_or("");
        let s = op["s"].as_i64().unwrap_or(1).clamp(1, 2);
        let r = guard(|| -> Value {
            match a {
                "q" => {
                    tag += 1;
                    let k = op["k"].as_str().unwrap_or("notify");
                    let to = op["to"].as_u64().unwrap_or(10_000);
                    let mut g = st[(s - 1) as usize].lock().unwrap();
                    match k {
                        "osr" => {
                            g.outbox.push_back(ChildEv::Osr { tag, to, info: tag + 500 });
                            json!({"e": "q", "s": s, "k": "osr", "tag": tag, "to": to, "info": tag + 500})
                        }
                        "report" => {
                            let added = tag % 2 == 0;
                            g.outbox.push_back(ChildEv::Report { added, name: format!("/r/{tag}") });
                            json!({"e": "q", "s": s, "k": "report", "tag": tag, "to": 0, "info": 0})
                        }
                        _ => {
                            g.outbox.push_back(ChildEv::Notify(tag));
                            json!({"e": "q", "s": s, "k": "notify", "tag": tag, "to": 0, "info": 0})
                        }
                    }
                }
                "poll" => {
                    let mut cx = det.cx();
                    match h.poll(&mut cx) {
                        Poll::Pending => json!({"e": "poll", "res": "pending"}),
                        Poll::Ready(ConnectionHandlerEvent::NotifyBehaviour(ev)) => {
                            let (s, t) = match ev {
                                Either::Left(t) => (1, t),
                                Either::Right(t) => (2, t),
                            };
                            json!({"e": "poll", "res": "notify", "s": s, "tag": t})
                        }
                        Poll::Ready(ConnectionHandlerEvent::OutboundSubstreamRequest { protocol }) => {
                            let to = protocol.timeout().as_millis() as u64;
                            let (u, info) = protocol.into_upgrade();
                            let (us, t, protos) = match u {
                                Either::Left(w) => (1, w.0.tag, w.0.protos),
                                Either::Right(w) => (2, w.0.tag, w.0.protos),
                            };
                            let (is, i) = match info {
                                Either::Left(i) => (1, i),
                                Either::Right(i) => (2, i),
                            };
                            outstanding.push((is, t, i));
                            json!({"e": "poll", "res": "osr", "s": us, "is": is, "tag": t, "info": i, "to": to, "protos": protos})
                        }
                        Poll::Ready(ConnectionHandlerEvent::ReportRemoteProtocols(p)) => {
                            let (added, set) = match p {
                                ProtocolSupport::Added(s) => (true, s),
                                ProtocolSupport::Removed(s) => (false, s),
                            };
                            let names: Vec<String> = set.iter().map(|p| p.as_ref().to_string()).collect();
                            let t: i64 = names.first().and_then(|n| n.rsplit('/').next().and_then(|x| x.parse().ok())).unwrap_or(-1);
                            json!({"e": "poll", "res": "report", "tag": t, "added": added, "n": names.len()})
                        }
                        Poll::Ready(_) => json!({"e": "poll", "res": "other"}),
                    }
                }
                "beh" => {
                    tag += 1;
                    h.on_behaviour_event(if s == 1 { Either::Left(tag) } else { Either::Right(tag) });
                    json!({"e": "beh", "s": s, "v": tag})
                }
                "outok" | "outerr" => {
                    if outstanding.is_empty() {
                        return json!({"e": "skip"});
                    }
                    let i = op["i"].as_u64().unwrap_or(0) as usize % outstanding.len();
                    let (side, t, info) = outstanding.remove(i);
                    if a == "outok" {
                        let v = 1000 + t;
                        if side == 1 {
                            h.on_connection_event(ConnectionEvent::FullyNegotiatedOutbound(FullyNegotiatedOutbound {
                                protocol: future::Either::Left(Val(v)),
                                info: Either::Left(info),
                            }));
                        } else {
                            h.on_connection_event(ConnectionEvent::FullyNegotiatedOutbound(FullyNegotiatedOutbound {
                                protocol: future::Either::Right(Val(v)),
                                info: Either::Right(info),
                            }));
                        }
                        json!({"e": "outok", "s": side, "v": v, "info": info})
                    } else {
                        let k = match op["k"].as_str().unwrap_or("neg") {
                            "timeout" => "timeout",
                            "io" => "io",
                            "apply" => "apply",
                            _ => "neg",
                        };
                        let v = if k == "apply" { 3000 + t } else { 0 };
                        let error = match k {
                            "timeout" => StreamUpgradeError::Timeout,
                            "io" => StreamUpgradeError::Io(std::io::Error::other("scripted")),
                            "apply" => StreamUpgradeError::Apply(if side == 1 { Either::Left(UpErr(v)) } else { Either::Right(UpErr(v)) }),
                            _ => StreamUpgradeError::NegotiationFailed,
                        };
                        let info_e = if side == 1 { Either::Left(info) } else { Either::Right(info) };
                        h.on_connection_event(ConnectionEvent::DialUpgradeError(DialUpgradeError { info: info_e, error }));
                        json!({"e": "outerr", "s": side, "k": k, "v": v, "info": info})
                    }
                }
                "inok" | "inerr" => {
                    nin += 1;
                    let (_, infos) = h.listen_protocol().into_upgrade();
                    let mine = if s == 1 { infos.0 } else { infos.1 };
                    if a == "inok" {
                        let v = 2000 + nin;
                        let protocol = if s == 1 { future::Either::Left(Val(v)) } else { future::Either::Right(Val(v)) };
                        h.on_connection_event(ConnectionEvent::FullyNegotiatedInbound(FullyNegotiatedInbound { protocol, info: infos }));
                        json!({"e": "inok", "s": s, "v": v, "info": mine})
                    } else {
                        let v = 4000 + nin;
                        let error = if s == 1 { Either::Left(UpErr(v)) } else { Either::Right(UpErr(v)) };
                        h.on_connection_event(ConnectionEvent::ListenUpgradeError(ListenUpgradeError { info: infos, error }));
                        json!({"e": "inerr", "s": s, "v": v, "info": mine})
                    }
                }
                "addr" => {
                    tag += 1;
                    let ma: Multiaddr = format!("/memory/{tag}").parse().unwrap();
                    h.on_connection_event(ConnectionEvent::AddressChange(AddressChange { new_address: &ma }));
                    json!({"e": "addr", "v": tag})
                }
                "pchg" => {
                    tag += 1;
                    let local = op["local"].as_bool().unwrap_or(true);
                    let added = op["added"].as_bool().unwrap_or(true);
                    let protos = [StreamProtocol::try_from_owned(format!("/pc/{tag}")).unwrap()];
                    let c = libp2p_swarm::verif::protocols_change(added, &protos);
                    h.on_connection_event(if local { ConnectionEvent::LocalProtocolsChange(c) } else { ConnectionEvent::RemoteProtocolsChange(c) });
                    json!({"e": "pchg", "k": if local { "lpc" } else { "rpc" }, "v": tag, "added": if added { 1 } else { 0 }})
                }
                "ka" => {
                    let k1 = op["k1"].as_bool().unwrap_or(false);
                    let k2 = op["k2"].as_bool().unwrap_or(false);
                    st[0].lock().unwrap().ka = k1;
                    st[1].lock().unwrap().ka = k2;
                    json!({"e": "ka", "k1": k1, "k2": k2, "res": h.connection_keep_alive()})
                }
                "listen" => {
                    tag += 1;
                    let n = [op["n1"].as_u64().unwrap_or(1) as usize % 3, op["n2"].as_u64().unwrap_or(1) as usize % 3];
                    let t = [op["t1"].as_u64().unwrap_or(10_000), op["t2"].as_u64().unwrap_or(10_000)];
                    for i in 0..2 {
                        let mut g = st[i].lock().unwrap();
                        g.listen_n = n[i];
                        g.listen_to = t[i];
                        g.listen_info = tag * 10 + i as i64;
                    }
                    let p = h.listen_protocol();
                    let to = p.timeout().as_millis() as u64;
                    let (u, infos) = p.into_upgrade();
                    let protos: Vec<String> = u.protocol_info().map(|x| x.as_ref().to_string()).collect();
                    json!({"e": "listen", "p1": listen_names(1, n[0]), "p2": listen_names(2, n[1]), "t1": t[0], "t2": t[1],
                           "i1": tag * 10, "i2": tag * 10 + 1, "protos": protos, "to": to, "info": [infos.0, infos.1]})
                }
                "qclose" => {
                    tag += 1;
                    st[(s - 1) as usize].lock().unwrap().closebox.push_back(tag);
                    json!({"e": "qclose", "s": s, "tag": tag})
                }
                "cblock" => {
                    let on = op["on"].as_bool().unwrap_or(false);
                    st[(s - 1) as usize].lock().unwrap().close_block = on;
                    json!({"e": "cblock", "s": s, "on": on})
                }
                "pollclose" => {
                    let mut cx = det.cx();
                    match h.poll_close(&mut cx) {
                        Poll::Pending => json!({"e": "pollclose", "res": "pending"}),
                        Poll::Ready(None) => json!({"e": "pollclose", "res": "none"}),
                        Poll::Ready(Some(Either::Left(t))) => json!({"e": "pollclose", "res": "some", "s": 1, "tag": t}),
                        Poll::Ready(Some(Either::Right(t))) => json!({"e": "pollclose", "res": "some", "s": 2, "tag": t}),
                    }
                }
                _ => json!({"e": "skip"}),
            }
        });
        match r {
            Ok(v) => {
                evs.push(v);
                evs.append(&mut log.lock().unwrap());
            }
            Err(msg) => {
                evs.append(&mut log.lock().unwrap());
                evs.push(json!({"e": "panic", "msg": msg}));
                break;
            }
        }
    }
    evs
}

fn emit(out: &mut Out, sched: &Value, evs: Vec<Value>) {
    out.reset(sched);
    for e in evs {
        out.ev(e);
    }
}

fn letters() -> Vec<Value> {
    vec![
        json!({"a": "q", "s": 1, "k": "notify"}),
        json!({"a": "q", "s": 2, "k": "notify"}),
        json!({"a": "q", "s": 1, "k": "osr", "to": 300}),
        json!({"a": "q", "s": 2, "k": "osr", "to": 700}),
        json!({"a": "q", "s": 2, "k": "report"}),
        json!({"a": "poll"}),
        json!({"a": "beh", "s": 1}),
        json!({"a": "beh", "s": 2}),
        json!({"a": "outok", "i": 0}),
        json!({"a": "outerr", "i": 0, "k": "neg"}),
        json!({"a": "outerr", "i": 0, "k": "apply"}),
        json!({"a": "inok", "s": 1}),
        json!({"a": "inok", "s": 2}),
        json!({"a": "inerr", "s": 1}),
        json!({"a": "inerr", "s": 2}),
        json!({"a": "addr"}),
        json!({"a": "pchg", "local": true, "added": true}),
        json!({"a": "pchg", "local": false, "added": false}),
        json!({"a": "ka", "k1": true, "k2": false}),
        json!({"a": "ka", "k1": false, "k2": true}),
        json!({"a": "ka", "k1": false, "k2": false}),
        json!({"a": "listen", "n1": 1, "t1": 300, "n2": 2, "t2": 700}),
        json!({"a": "listen", "n1": 2, "t1": 900, "n2": 0, "t2": 100}),
        json!({"a": "qclose", "s": 1}),
        json!({"a": "qclose", "s": 2}),
        json!({"a": "cblock", "s": 1, "on": true}),
        json!({"a": "pollclose"}),
    ]
}

fn random_op(rng: &mut impl Rng) -> Value {
    let s = rng.gen_range(1..=2);
    let tos = [1u64, 300, 700, 10_000, 20_000];
    match rng.gen_range(0..100) {
        0..=17 => json!({"a": "q", "s": s, "k": (["notify", "osr", "osr", "report"][rng.gen_range(0..4)]), "to": (tos[rng.gen_range(0..5)])}),
        18..=37 => json!({"a": "poll"}),
        38..=45 => json!({"a": "beh", "s": s}),
        46..=53 => json!({"a": "outok", "i": rng.gen_range(0..4)}),
        54..=63 => json!({"a": "outerr", "i": rng.gen_range(0..4), "k": (["timeout", "neg", "io", "apply"][rng.gen_range(0..4)])}),
        64..=69 => json!({"a": "inok", "s": s}),
        70..=74 => json!({"a": "inerr", "s": s}),
        75..=76 => json!({"a": "addr"}),
        77 => json!({"a": "pchg", "local": rng.gen_bool(0.5), "added": rng.gen_bool(0.5)}),
        78..=82 => json!({"a": "ka", "k1": rng.gen_bool(0.4), "k2": rng.gen_bool(0.4)}),
        83..=88 => json!({"a": "listen", "n1": rng.gen_range(0..3), "t1": (tos[rng.gen_range(0..5)]), "n2": rng.gen_range(0..3), "t2": (tos[rng.gen_range(0..5)])}),
        89..=92 => json!({"a": "qclose", "s": s}),
        93..=94 => json!({"a": "cblock", "s": s, "on": rng.gen_bool(0.5)}),
        _ => json!({"a": "pollclose"}),
    }
}

pub fn main(a: Args) {
    match a.mode.as_str() {
        "exhaustive" => {
            let len = a.num(0) as usize;
            let mut out = Out::create(a.get(1));
            let abc = letters();
            let mut n = 0u64;
            for l in 1..=len {
                let mut idx = vec![0usize; l];
                'seqs: loop {
                    let mut ops: Vec<Value> = idx.iter().map(|i| abc[*i].clone()).collect();
                    // observe what is left: drain poll and poll_close
                    ops.push(json!({"a": "poll"}));
                    ops.push(json!({"a": "poll"}));
                    ops.push(json!({"a": "pollclose"}));
                    let sched = json!({"ops": ops});
                    let evs = run(&sched);
                    if !evs.iter().any(|e| e["e"] == "skip") {
                        emit(&mut out, &sched, evs);
                        n += 1;
                    }
                    let mut k = l;
                    loop {
                        if k == 0 {
                            break 'seqs;
                        }
                        k -= 1;
                        idx[k] += 1;
                        if idx[k] < abc.len() {
                            break;
                        }
                        idx[k] = 0;
                    }
                }
            }
            println!("runs={n} events={}", out.events);
            out.finish();
        }
        "random" => {
            let seed = a.num(0);
            let runs = a.num(1);
            let mut out = Out::create(a.get(2));
            let mut rng = vcommon::rng(seed ^ 0x5e1ec7);
            for _ in 0..runs {
                let len = rng.gen_range(8..45);
                let mut ops: Vec<Value> = (0..len).map(|_| random_op(&mut rng)).collect();
                for _ in 0..4 {
                    ops.push(json!({"a": "poll"}));
                }
                ops.push(json!({"a": "cblock", "s": 1, "on": false}));
                ops.push(json!({"a": "cblock", "s": 2, "on": false}));
                for _ in 0..3 {
                    ops.push(json!({"a": "pollclose"}));
                }
                let sched = json!({"ops": ops});
                let evs = run(&sched);
                emit(&mut out, &sched, evs);
            }
            println!("runs={runs} events={}", out.events);
            out.finish();
        }
        "replay" => {
            let scheds = vcommon::read_schedules(a.get(0));
            let mut out = Out::create(a.get(1));
            for s in &scheds {
                let evs = run(s);
                emit(&mut out, s, evs);
            }
            println!("runs={} events={}", scheds.len(), out.events);
            out.finish();
        }
        m => {
            eprintln!("unknown select mode {m}");
            std::process::exit(2)
        }
    }
}
