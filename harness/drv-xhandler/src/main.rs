//! X03 drivers: the REAL `libp2p_swarm::handler::OneShotHandler` and `ConnectionHandlerSelect`,
//! polled by hand. The driver plays the connection (`Connection::poll`): it takes the handler's
//! `OutboundSubstreamRequest`s, and reports upgrade results / errors when the schedule says so.
//!
//!   drv-xhandler oneshot exhaustive <len> <out> | oneshot random <seed> <runs> <out> | oneshot replay <file> <out>
//!   drv-xhandler select  exhaustive <len> <out> | select  random <seed> <runs> <out> | select  replay <file> <out>
mod oneshot;
mod select;
mod up;

fn main() {
    vcommon::quiet_panics();
    let a = vcommon::Args::parse();
    let sub = vcommon::Args { mode: a.get(0).to_string(), rest: a.rest[1..].to_vec() };
    match a.mode.as_str() {
        "oneshot" => oneshot::main(sub),
        "select" => select::main(sub),
        m => {
            eprintln!("unknown mode {m}");
            std::process::exit(2)
        }
    }
}
