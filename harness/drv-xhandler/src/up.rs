//! A trivial upgrade whose output / error carry a tag, so that every request, result and error is
//! identifiable in the trace. `S` distinguishes the two sides of a `ConnectionHandlerSelect`.
use std::{fmt, future::Ready};

use libp2p_core::upgrade::{InboundUpgrade, OutboundUpgrade, UpgradeInfo};
use libp2p_swarm::Stream;

#[derive(Debug, Clone, PartialEq, Eq)]
pub struct Up<const S: u8> {
    pub tag: i64,
    pub protos: Vec<String>,
}

/// upgrade output (the driver constructs it directly; `upgrade_*` are never run)
#[derive(Debug, Clone, PartialEq, Eq)]
pub struct Val<const S: u8>(pub i64);

#[derive(Debug, Clone, PartialEq, Eq)]
pub struct UpErr<const S: u8>(pub i64);

impl<const S: u8> fmt::Display for UpErr<S> {
    fn fmt(&self, f: &mut fmt::Formatter<'_>) -> fmt::Result {
        write!(f, "uperr{}", self.0)
    }
}
impl<const S: u8> std::error::Error for UpErr<S> {}

impl<const S: u8> UpgradeInfo for Up<S> {
    type Info = String;
    type InfoIter = std::vec::IntoIter<String>;
    fn protocol_info(&self) -> Self::InfoIter {
        self.protos.clone().into_iter()
    }
}

impl<const S: u8> InboundUpgrade<Stream> for Up<S> {
    type Output = Val<S>;
    type Error = UpErr<S>;
    type Future = Ready<Result<Val<S>, UpErr<S>>>;
    fn upgrade_inbound(self, _: Stream, _: String) -> Self::Future {
        std::future::ready(Ok(Val(self.tag)))
    }
}

impl<const S: u8> OutboundUpgrade<Stream> for Up<S> {
    type Output = Val<S>;
    type Error = UpErr<S>;
    type Future = Ready<Result<Val<S>, UpErr<S>>>;
    fn upgrade_outbound(self, _: Stream, _: String) -> Self::Future {
        std::future::ready(Ok(Val(self.tag)))
    }
}
