//! OneShotHandler<Up, Up, Val>: requests are tagged 1, 2, ..; the result of request r is Val(1000 + r), its
//! upgrade error UpErr(3000 + r); the n-th inbound result is Val(2000 + n).
//!
//! Schedule: {"max": m, "to": timeout_ms, "ops": [op..]}
//!   {"a":"send","via":"beh"|"direct"}  a new request (on_behaviour_event / send_request)
//!   {"a":"poll"}                       ONE call of ConnectionHandler::poll
//!   {"a":"outok","i":k}                the (k mod n)-th outstanding outbound substream request succeeds
//!   {"a":"outerr","i":k,"k":"timeout"|"neg"|"io"|"apply"}   .. fails
//!   {"a":"inok"} {"a":"inerr"} {"a":"addr"}   inbound result / inbound upgrade error / address change
//!   {"a":"pend"}                       pending_requests()
//!   {"a":"lp"} {"a":"lpset","to"} {"a":"ka"}   listen_protocol() / change its timeout via listen_protocol_mut / connection_keep_alive()
//! "lto": timeout of the inbound protocol the handler is created with.
use std::{task::Poll, time::Duration};

use libp2p_swarm::{
    handler::{
        ConnectionEvent, ConnectionHandlerEvent, DialUpgradeError, FullyNegotiatedInbound, FullyNegotiatedOutbound,
        ListenUpgradeError, OneShotHandler, OneShotHandlerConfig,
    },
    ConnectionHandler, StreamUpgradeError, SubstreamProtocol,
};
use rand::Rng;
use vcommon::{exec::Det, guard, json, Args, Out, Value};

use crate::up::{Up, UpErr, Val};

type U = Up<1>;
type V = Val<1>;
#[derive(Debug)]
struct Ev(i64);
impl From<V> for Ev {
    fn from(v: V) -> Ev {
        Ev(v.0)
    }
}
type H = OneShotHandler<U, U, Ev>;

fn up(tag: i64) -> U {
    Up { tag, protos: vec!["/x/1".into()] }
}

/// run one schedule; returns (events, skipped-an-op)
fn run(sched: &Value) -> (Vec<Value>, bool) {
    let max = sched["max"].as_u64().unwrap_or(2) as u32;
    let to = sched["to"].as_u64().unwrap_or(10_000);
    let det = Det::new();
    let mut evs = vec![];
    let mut skipped = false;
    let cfg = OneShotHandlerConfig { outbound_substream_timeout: Duration::from_millis(to), max_dial_negotiated: max };
    let lto = sched["lto"].as_u64().unwrap_or(10_000);
    let mut h: H = OneShotHandler::new(SubstreamProtocol::new(up(0), ()).with_timeout(Duration::from_millis(lto)), cfg);
    let mut next_req = 0i64;
    let mut next_in = 0i64;
    let mut outstanding: Vec<i64> = vec![];
    for op in sched["ops"].as_array().cloned().unwrap_or_default() {
        let a = op["a"].as_str().unwrap_or("");
        let r = guard(|| match a {
            "send" => {
                next_req += 1;
                if op["via"].as_str() == Some("direct") {
                    h.send_request(up(next_req));
                } else {
                    h.on_behaviour_event(up(next_req));
                }
                json!({"e": "send", "r": next_req})
            }
            "poll" => {
                let mut cx = det.cx();
                match h.poll(&mut cx) {
                    Poll::Pending => json!({"e": "poll", "res": "pending"}),
                    Poll::Ready(ConnectionHandlerEvent::OutboundSubstreamRequest { protocol }) => {
                        let t = protocol.timeout().as_millis() as u64;
                        let (u, ()) = protocol.into_upgrade();
                        outstanding.push(u.tag);
                        json!({"e": "poll", "res": "osr", "r": u.tag, "to": t})
                    }
                    Poll::Ready(ConnectionHandlerEvent::NotifyBehaviour(Ok(Ev(v)))) => json!({"e": "poll", "res": "ok", "v": v}),
                    Poll::Ready(ConnectionHandlerEvent::NotifyBehaviour(Err(e))) => {
                        let (k, v) = match e {
                            StreamUpgradeError::Timeout => ("timeout", 0),
                            StreamUpgradeError::NegotiationFailed => ("neg", 0),
                            StreamUpgradeError::Io(_) => ("io", 0),
                            StreamUpgradeError::Apply(UpErr(v)) => ("apply", v),
                        };
                        json!({"e": "poll", "res": "err", "k": k, "v": v})
                    }
                    Poll::Ready(_) => json!({"e": "poll", "res": "other"}),
                }
            }
            "outok" | "outerr" => {
                if outstanding.is_empty() {
                    skipped = true;
                    return json!({"e": "skip"});
                }
                let i = op["i"].as_u64().unwrap_or(0) as usize % outstanding.len();
                let r = outstanding.remove(i);
                if a == "outok" {
                    h.on_connection_event(ConnectionEvent::FullyNegotiatedOutbound(FullyNegotiatedOutbound { protocol: Val(1000 + r), info: () }));
                    json!({"e": "outok", "r": r, "v": 1000 + r})
                } else {
                    let k = op["k"].as_str().unwrap_or("neg").to_string();
                    let (error, v) = match k.as_str() {
                        "timeout" => (StreamUpgradeError::Timeout, 0),
                        "io" => (StreamUpgradeError::Io(std::io::Error::other("scripted")), 0),
                        "apply" => (StreamUpgradeError::Apply(UpErr(3000 + r)), 3000 + r),
                        _ => (StreamUpgradeError::NegotiationFailed, 0),
                    };
                    h.on_connection_event(ConnectionEvent::DialUpgradeError(DialUpgradeError { info: (), error }));
                    json!({"e": "outerr", "r": r, "k": if ["timeout", "io", "apply"].contains(&k.as_str()) { k } else { "neg".into() }, "v": v})
                }
            }
            "inok" => {
                next_in += 1;
                h.on_connection_event(ConnectionEvent::FullyNegotiatedInbound(FullyNegotiatedInbound { protocol: Val(2000 + next_in), info: () }));
                json!({"e": "inok", "v": 2000 + next_in})
            }
            "inerr" => {
                h.on_connection_event(ConnectionEvent::ListenUpgradeError(ListenUpgradeError { info: (), error: UpErr(0) }));
                json!({"e": "inerr"})
            }
            "addr" => {
                let ma: libp2p_core::Multiaddr = "/memory/1".parse().unwrap();
                h.on_connection_event(ConnectionEvent::AddressChange(libp2p_swarm::handler::AddressChange { new_address: &ma }));
                json!({"e": "addr"})
            }
            "pend" => json!({"e": "pend", "n": h.pending_requests()}),
            "lp" => {
                let lp = h.listen_protocol();
                let names: Vec<String> = libp2p_core::upgrade::UpgradeInfo::protocol_info(lp.upgrade()).collect();
                let same = lp.upgrade() == h.listen_protocol_ref().upgrade();
                json!({"e": "lp", "protos": names, "to": lp.timeout().as_millis() as u64, "tag": lp.upgrade().tag, "ref": same})
            }
            "lpset" => {
                // listen_protocol_mut: "modifications will only apply to future inbound substreams"
                let t = op["to"].as_u64().unwrap_or(10_000);
                let cur = h.listen_protocol_ref().clone();
                *h.listen_protocol_mut() = cur.with_timeout(Duration::from_millis(t));
                json!({"e": "lpset", "to": t})
            }
            "ka" => json!({"e": "ka", "res": h.connection_keep_alive()}),
            _ => json!({"e": "skip"}),
        });
        match r {
            Ok(v) => evs.push(v),
            Err(msg) => {
                evs.push(json!({"e": "panic", "msg": msg}));
                break;
            }
        }
    }
    (evs, skipped)
}

fn emit(out: &mut Out, sched: &Value, evs: Vec<Value>) {
    out.reset_with(json!({"max": sched["max"], "to": sched["to"], "lto": sched["lto"].as_u64().unwrap_or(10_000)}), sched);
    for e in evs {
        out.ev(e);
    }
}

fn letters() -> Vec<Value> {
    vec![
        json!({"a": "send"}),
        json!({"a": "poll"}),
        json!({"a": "outok", "i": 0}),
        json!({"a": "outerr", "i": 0, "k": "neg"}),
        json!({"a": "inok"}),
        json!({"a": "pend"}),
    ]
}

pub fn main(a: Args) {
    match a.mode.as_str() {
        "exhaustive" => {
            let len = a.num(0) as usize;
            let mut out = Out::create(a.get(1));
            let abc = letters();
            let mut n = 0u64;
            for max in 1..=2u32 {
                for l in 1..=len {
                    let mut idx = vec![0usize; l];
                    'seqs: loop {
                        // a schedule is interesting only if it ends with an observation
                        let last = abc[idx[l - 1]]["a"].as_str().unwrap().to_string();
                        if last == "poll" || last == "pend" {
                            let ops: Vec<Value> = idx.iter().map(|i| abc[*i].clone()).collect();
                            let sched = json!({"max": max, "to": 10_000, "ops": ops});
                            let (evs, skipped) = run(&sched);
                            if !skipped {
                                emit(&mut out, &sched, evs);
                                n += 1;
                            }
                        }
                        let mut k = l;
                        loop {
                            if k == 0 {
                                break 'seqs;
                            }
                            k -= 1;
                            idx[k] += 1;
                            if idx[k] < abc.len() {
                                break;
                            }
                            idx[k] = 0;
                        }
                    }
                }
            }
            println!("runs={n} events={}", out.events);
            out.finish();
        }
        "random" => {
            let seed = a.num(0);
            let runs = a.num(1);
            let mut out = Out::create(a.get(2));
            let mut rng = vcommon::rng(seed ^ 0x0e5407);
            for _ in 0..runs {
                let max = rng.gen_range(1..=3u32);
                let to = [1u64, 500, 10_000][rng.gen_range(0..3)];
                let len = rng.gen_range(5..40);
                let mut ops = vec![];
                for _ in 0..len {
                    let x = rng.gen_range(0..100);
                    ops.push(if x < 25 {
                        json!({"a": "send", "via": if rng.gen_bool(0.5) { "beh" } else { "direct" }})
                    } else if x < 55 {
                        json!({"a": "poll"})
                    } else if x < 67 {
                        json!({"a": "outok", "i": rng.gen_range(0..4)})
                    } else if x < 80 {
                        json!({"a": "outerr", "i": rng.gen_range(0..4), "k": (["timeout", "neg", "io", "apply"][rng.gen_range(0..4)])})
                    } else if x < 87 {
                        json!({"a": "inok"})
                    } else if x < 90 {
                        json!({"a": "inerr"})
                    } else if x < 91 {
                        json!({"a": "addr"})
                    } else if x < 93 {
                        json!({"a": "lp"})
                    } else if x < 94 {
                        json!({"a": "lpset", "to": ([5u64, 600, 10_000][rng.gen_range(0..3)])})
                    } else if x < 95 {
                        json!({"a": "ka"})
                    } else {
                        json!({"a": "pend"})
                    });
                }
                // end every run with a drain: polls until pending, so that every due report is observed
                for _ in 0..6 {
                    ops.push(json!({"a": "poll"}));
                }
                ops.push(json!({"a": "pend"}));
                ops.push(json!({"a": "lp"}));
                let sched = json!({"max": max, "to": to, "lto": ([7u64, 10_000][rng.gen_range(0..2)]), "ops": ops});
                let (evs, _) = run(&sched);
                emit(&mut out, &sched, evs);
            }
            println!("runs={runs} events={}", out.events);
            out.finish();
        }
        "replay" => {
            let scheds = vcommon::read_schedules(a.get(0));
            let mut out = Out::create(a.get(1));
            for s in &scheds {
                let (evs, _) = run(s);
                emit(&mut out, s, evs);
            }
            println!("runs={} events={}", scheds.len(), out.events);
            out.finish();
        }
        m => {
            eprintln!("unknown oneshot mode {m}");
            std::process::exit(2)
        }
    }
}
