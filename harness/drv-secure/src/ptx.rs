//! C19 plaintext: one REAL `plaintext::Config` upgrade against a scripted remote that sends a
//! hand-built Exchange (id / pubkey variants) immediately followed by application bytes, under a
//! scripted delivery chunking.  Events use the byte-stream vocabulary of `stream.rs`
//! (direction 1 = remote -> local, direction 0 = local -> remote).
use std::{pin::Pin, task::Poll};

use futures::io::{AsyncRead, AsyncWrite};
use libp2p_core::upgrade::{InboundConnectionUpgrade, OutboundConnectionUpgrade};
use rand::Rng;
use vcommon::{exec::Det, json, pipe::pipe, Out, Value};

use crate::stream::{keypair, pat, pk};

fn uvarint(mut n: usize) -> Vec<u8> {
    let mut v = vec![];
    loop {
        let b = (n & 0x7f) as u8;
        n >>= 7;
        if n == 0 {
            v.push(b);
            return v;
        }
        v.push(b | 0x80);
    }
}

fn exchange(id: &[u8], pubkey: &[u8]) -> Vec<u8> {
    let mut body = vec![0x0a];
    body.extend(uvarint(id.len()));
    body.extend_from_slice(id);
    body.push(0x12);
    body.extend(uvarint(pubkey.len()));
    body.extend_from_slice(pubkey);
    let mut msg = uvarint(body.len());
    msg.extend(body);
    msg
}

pub fn run(out: &mut Out, sched: &Value) {
    let kt = vcommon::s(sched, "key");
    let id_matches = vcommon::b(sched, "idMatches");
    let key_ok = vcommon::b(sched, "keyOK");
    let id_ok = vcommon::b(sched, "idOK");
    let trail = vcommon::n(sched, "trail") as u64;
    let later = vcommon::n(sched, "later") as u64;
    let side = vcommon::n(sched, "side");
    let lw = vcommon::n(sched, "lw") as u64; // bytes the local side writes after the handshake
    out.reset_with(json!({"proto": "plaintext", "integrity": false}), sched);
    let local = keypair(&kt);
    let remote = keypair(&kt);
    let other = keypair(&kt);
    let pk = if key_ok { remote.public().encode_protobuf() } else { vec![0xff, 0x01, 0x02, 0x03, 0x04, 0x05] };
    let id = if !id_ok {
        vec![1, 2, 3]
    } else if id_matches {
        remote.public().to_peer_id().to_bytes()
    } else {
        other.public().to_peer_id().to_bytes()
    };
    let (e0, _e1, ctl) = pipe(false);
    ctl.with(0, |x| {
        x.auto = true;
        x.keep_log = true;
    });
    let mut wire = exchange(&id, &pk);
    let xlen = wire.len();
    wire.extend((0..trail).map(|i| pat(1, i)));
    ctl.inject(1, &wire);
    if trail > 0 {
        out.ev(json!({"e": "w", "d": 1, "n": trail, "req": trail}));
    }
    let cfg = libp2p_plaintext::Config::new(&local);
    let mut fut = if side == 0 { cfg.upgrade_outbound(e0, "/plaintext/2.0.0") } else { cfg.upgrade_inbound(e0, "/plaintext/2.0.0") };
    let det = Det::new();
    let mut result = None;
    let mut chunks: Vec<usize> = sched["chunks"].as_array().unwrap().iter().map(|x| x.as_u64().unwrap() as usize).collect();
    chunks.push(usize::MAX);
    let mut paniced = false;
    for c in chunks {
        let r = vcommon::guard(|| det.run_until_stalled(fut.as_mut(), 10_000));
        match r {
            Err(m) => {
                out.ev(json!({"e": "panic", "msg": m}));
                paniced = true;
                break;
            }
            Ok(Some(v)) => {
                result = Some(v);
                break;
            }
            Ok(None) => {}
        }
        let k = ctl.deliver(1, c);
        out.ev(json!({"e": "dl", "d": 1, "n": k}));
    }
    if paniced {
        return;
    }
    if result.is_none() {
        if let Ok(Some(v)) = vcommon::guard(|| det.run_until_stalled(fut.as_mut(), 10_000)) {
            result = Some(v);
        }
    }
    let flags = json!({"idMatches": id_matches, "keyOK": key_ok, "idOK": id_ok});
    let mut hs = json!({"e": "hs", "side": 0});
    for (k, v) in flags.as_object().unwrap() {
        hs[k] = v.clone();
    }
    let mut io = match result {
        None => {
            hs["res"] = json!("pending");
            hs["peer"] = json!("none");
            out.ev(hs);
            return;
        }
        Some(Err(e)) => {
            hs["res"] = json!("err");
            hs["peer"] = json!("none");
            hs["msg"] = json!(e.to_string());
            out.ev(hs);
            out.ev(json!({"e": "quiesce", "hit": [false, false], "up": [false, true]}));
            return;
        }
        Some(Ok((peer, io))) => {
            hs["res"] = json!("ok");
            hs["peer"] = json!(if peer == remote.public().to_peer_id() { "remote" } else { "other" });
            out.ev(hs);
            io
        }
    };
    let rbuf = sched.get("rbuf").and_then(|x| x.as_u64()).unwrap_or(4096) as usize;
    let mut recvd = 0u64;
    let mut read_all = |io: &mut libp2p_plaintext::Output<vcommon::pipe::PipeEnd>, out: &mut Out| loop {
        let mut buf = vec![0u8; rbuf];
        match vcommon::guard(|| Pin::new(&mut *io).poll_read(&mut det.cx(), &mut buf)) {
            Err(m) => {
                out.ev(json!({"e": "panic", "msg": m}));
                break;
            }
            Ok(Poll::Pending) => {
                out.ev(json!({"e": "rpend", "d": 1}));
                break;
            }
            Ok(Poll::Ready(Ok(0))) => {
                out.ev(json!({"e": "eof", "d": 1}));
                break;
            }
            Ok(Poll::Ready(Ok(k))) => {
                let bad = buf[..k].iter().enumerate().find(|(i, b)| **b != pat(1, recvd + *i as u64)).map(|(i, _)| i as i64).unwrap_or(-1);
                recvd += k as u64;
                out.ev(json!({"e": "r", "d": 1, "n": k, "bad": bad, "req": rbuf}));
            }
            Ok(Poll::Ready(Err(e))) => {
                out.ev(json!({"e": "rerr", "d": 1, "msg": e.to_string()}));
                break;
            }
        }
    };
    read_all(&mut io, out);
    if ctl.deliver_all(1) > 0 {
        read_all(&mut io, out);
    }
    if later > 0 {
        let bytes: Vec<u8> = (0..later).map(|i| pat(1, trail + i)).collect();
        ctl.inject(1, &bytes);
        out.ev(json!({"e": "w", "d": 1, "n": later, "req": later}));
        ctl.deliver_all(1);
        read_all(&mut io, out);
    }
    // local -> remote
    if lw > 0 {
        let bytes: Vec<u8> = (0..lw).map(|i| pat(0, i)).collect();
        let mut off = 0usize;
        while off < bytes.len() {
            match Pin::new(&mut io).poll_write(&mut det.cx(), &bytes[off..]) {
                Poll::Ready(Ok(k)) if k > 0 => {
                    out.ev(json!({"e": "w", "d": 0, "n": k, "req": bytes.len() - off}));
                    off += k;
                }
                _ => break,
            }
        }
        if let Poll::Ready(Ok(())) = Pin::new(&mut io).poll_flush(&mut det.cx()) {
            out.ev(json!({"e": "flush", "d": 0}));
        }
    }
    // what the scripted remote sees on the wire: the local exchange, then the application bytes
    let w = ctl.take_log(0);
    let mut i = 0usize;
    let mut l = 0usize;
    let mut shift = 0;
    while i < w.len() {
        let b = w[i];
        l |= ((b & 0x7f) as usize) << shift;
        shift += 7;
        i += 1;
        if b & 0x80 == 0 {
            break;
        }
    }
    let app = if w.len() >= i + l { &w[i + l..] } else { &w[w.len()..] };
    if !app.is_empty() {
        let bad = app.iter().enumerate().find(|(i, b)| **b != pat(0, *i as u64)).map(|(i, _)| i as i64).unwrap_or(-1);
        out.ev(json!({"e": "r", "d": 0, "n": app.len(), "bad": bad, "req": app.len()}));
    }
    let _ = xlen;
    out.ev(json!({"e": "quiesce", "hit": [false, false], "up": [true, true]}));
}

fn grid(out: &mut Out, deep: bool) {
    for kt in ["ed25519", "secp256k1"] {
        for flags in 0..8u32 {
            let (m, k, i) = (flags & 1 != 0, flags & 2 != 0, flags & 4 != 0);
            for trail in [0u64, 1, 5, 300] {
                let chunk_sets: Vec<Vec<usize>> = if deep {
                    let mut v = vec![vec![], vec![1; 200]];
                    for s in 1..120 {
                        v.push(vec![s]);
                    }
                    v
                } else {
                    vec![vec![], vec![1; 200], vec![1], vec![2], vec![40], vec![77], vec![78], vec![79], vec![80], vec![81], vec![90]]
                };
                for (ci, chunks) in chunk_sets.iter().enumerate() {
                    // split-point sweeps only matter for acceptable exchanges
                    if ci > 1 && !(m && k && i) {
                        continue;
                    }
                    run(out, &json!({"key": kt, "idMatches": m, "keyOK": k, "idOK": i, "trail": trail, "later": if trail == 1 { 0 } else { 7 },
                                     "side": flags % 2, "lw": 3, "chunks": chunks, "rbuf": if trail == 300 { 128 } else { 4096 }}));
                }
            }
        }
    }
}

fn random(out: &mut Out, seed: u64, runs: u64) {
    let mut rng = vcommon::rng(seed);
    for _ in 0..runs {
        let good = rng.gen_bool(0.7);
        let chunks: Vec<usize> = (0..rng.gen_range(0..12)).map(|_| pk(&mut rng, &[1usize, 2, 3, 10, 50, 100])).collect();
        run(out, &json!({"key": if rng.gen_bool(0.5) { "ed25519" } else { "secp256k1" },
            "idMatches": good || rng.gen_bool(0.5), "keyOK": good || rng.gen_bool(0.5), "idOK": good || rng.gen_bool(0.5),
            "trail": pk(&mut rng, &[0u64, 1, 2, 50, 300, 9000]), "later": pk(&mut rng, &[0u64, 1, 100]),
            "side": rng.gen_range(0..2), "lw": rng.gen_range(0..20), "chunks": chunks, "rbuf": pk(&mut rng, &[64u64, 333, 4096])}));
    }
}

pub fn main(a: &vcommon::Args) {
    match a.get(0) {
        "replay" => {
            let scheds = vcommon::read_schedules(a.get(1));
            let mut out = Out::create(a.get(2));
            for s in &scheds {
                run(&mut out, s);
            }
            println!("runs={} events={}", out.run, out.events);
            out.finish();
        }
        "grid" => {
            let mut out = Out::create(a.get(2));
            grid(&mut out, a.num(1) > 0);
            println!("runs={} events={}", out.run, out.events);
            out.finish();
        }
        "random" => {
            let mut out = Out::create(a.get(3));
            random(&mut out, a.num(1), a.num(2));
            println!("runs={} events={}", out.run, out.events);
            out.finish();
        }
        m => panic!("ptx mode {m}"),
    }
}
