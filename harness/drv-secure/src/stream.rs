//! C17 / C19: two REAL upgraded endpoints (noise | pnet | plaintext) over a scripted pipe.
//! Direction d = bytes written by endpoint d and read by endpoint 1-d; wire direction d of the pipe
//! carries them.  The k-th application byte of direction d is `pat(d, k)`; every chunk read is
//! compared with the pattern at the reader's offset (`bad` = index of first mismatch, -1 = none).
use std::{future::Future, pin::Pin, task::Poll};

use futures::io::{AsyncRead, AsyncWrite};
use libp2p_core::upgrade::{InboundConnectionUpgrade, OutboundConnectionUpgrade};
use libp2p_identity::{Keypair, PeerId};
use rand::Rng;
use vcommon::{
    exec::Det,
    json,
    pipe::{pipe, PipeCtl, PipeEnd},
    Out, Value,
};

pub trait RW: AsyncRead + AsyncWrite + Unpin {}
impl<T: AsyncRead + AsyncWrite + Unpin> RW for T {}
type HsOut = Result<(Option<PeerId>, Box<dyn RW>), String>;
type HsFut = Pin<Box<dyn Future<Output = HsOut>>>;

enum Ep {
    Hs(HsFut),
    Up(Box<dyn RW>),
    Dead,
}

pub fn pat(d: usize, p: u64) -> u8 {
    ((p.wrapping_mul(31) + (d as u64) * 17 + (p >> 8)) % 251) as u8
}

pub fn keypair(kind: &str) -> Keypair {
    match kind {
        "ed25519" => Keypair::generate_ed25519(),
        "secp256k1" => Keypair::generate_secp256k1(),
        "ecdsa" => Keypair::generate_ecdsa(),
        // RSA keys cannot be generated offline: cycle through the three test keys of libp2p-identity
        "rsa" => {
            static NEXT: std::sync::atomic::AtomicUsize = std::sync::atomic::AtomicUsize::new(0);
            let i = NEXT.fetch_add(1, std::sync::atomic::Ordering::SeqCst) % 3;
            let repo = std::env::var("VERIF_REPO").unwrap_or_else(|_| "/repo".into());
            let f = format!("{repo}/identity/src/test/rsa-{}.pk8", [2048, 3072, 4096][i]);
            let mut der = std::fs::read(&f).unwrap_or_else(|e| panic!("{f}: {e}"));
            Keypair::rsa_from_pkcs8(&mut der).expect("rsa key")
        }
        k => panic!("key type {k}"),
    }
}

fn start(proto: &str, side: usize, io: PipeEnd, kp: &Keypair, psk: [u8; 32]) -> HsFut {
    match proto {
        "noise" => {
            let cfg = libp2p_noise::Config::new(kp).expect("noise config");
            if side == 0 {
                let f = cfg.upgrade_outbound(io, "/noise");
                Box::pin(async move { f.await.map(|(p, o)| (Some(p), Box::new(o) as Box<dyn RW>)).map_err(|e| e.to_string()) })
            } else {
                let f = cfg.upgrade_inbound(io, "/noise");
                Box::pin(async move { f.await.map(|(p, o)| (Some(p), Box::new(o) as Box<dyn RW>)).map_err(|e| e.to_string()) })
            }
        }
        "plaintext" => {
            let cfg = libp2p_plaintext::Config::new(kp);
            if side == 0 {
                let f = cfg.upgrade_outbound(io, "/plaintext/2.0.0");
                Box::pin(async move { f.await.map(|(p, o)| (Some(p), Box::new(o) as Box<dyn RW>)).map_err(|e| e.to_string()) })
            } else {
                let f = cfg.upgrade_inbound(io, "/plaintext/2.0.0");
                Box::pin(async move { f.await.map(|(p, o)| (Some(p), Box::new(o) as Box<dyn RW>)).map_err(|e| e.to_string()) })
            }
        }
        "pnet" => {
            let cfg = libp2p_pnet::PnetConfig::new(libp2p_pnet::PreSharedKey::new(psk));
            Box::pin(async move { cfg.handshake(io).await.map(|o| (None, Box::new(o) as Box<dyn RW>)).map_err(|e| e.to_string()) })
        }
        p => panic!("proto {p}"),
    }
}

struct Sess {
    ep: [Ep; 2],
    ctl: PipeCtl,
    det: Det,
    sent: [u64; 2],
    recvd: [u64; 2],
    peers: [PeerId; 2],
    auto_dl: usize,
    cap: [Option<u64>; 2],
    delivered_wire: [u64; 2],
    corrupt: [Option<u64>; 2],
    wclosed: [bool; 2],
    rdone: [bool; 2],
}

impl Sess {
    fn poll_hs(&mut self, out: &mut Out) -> bool {
        let mut progress = false;
        for s in 0..2 {
            if let Ep::Hs(f) = &mut self.ep[s] {
                let det = self.det.clone();
                let r = vcommon::guard(|| det.run_until_stalled(f.as_mut(), 10_000));
                match r {
                    Err(m) => {
                        out.ev(json!({"e": "panic", "msg": m}));
                        self.ep[s] = Ep::Dead;
                        progress = true;
                    }
                    Ok(None) => {}
                    Ok(Some(Ok((peer, io)))) => {
                        let who = match peer {
                            None => "none",
                            Some(p) if p == self.peers[1 - s] => "remote",
                            Some(_) => "other",
                        };
                        out.ev(json!({"e": "hs", "side": s, "res": "ok", "peer": who, "idMatches": true, "keyOK": true, "idOK": true}));
                        self.ep[s] = Ep::Up(io);
                        progress = true;
                    }
                    Ok(Some(Err(e))) => {
                        out.ev(json!({"e": "hs", "side": s, "res": "err", "peer": "none", "idMatches": true, "keyOK": true, "idOK": true, "msg": e}));
                        self.ep[s] = Ep::Dead;
                        progress = true;
                    }
                }
            }
        }
        progress
    }

    fn deliver(&mut self, d: usize, n: usize) -> usize {
        let mut n = n;
        if let Some(c) = self.cap[d] {
            n = n.min(c.saturating_sub(self.delivered_wire[d]) as usize);
        }
        let k = self.ctl.deliver(d, n);
        self.delivered_wire[d] += k as u64;
        k
    }

    /// automatic transport delivery (if enabled) + handshake progress, to quiescence
    fn pump(&mut self, out: &mut Out) {
        for _ in 0..100_000 {
            let p = self.poll_hs(out);
            let mut moved = 0;
            if self.auto_dl > 0 {
                for d in 0..2 {
                    moved += self.deliver(d, self.auto_dl);
                }
            }
            if moved == 0 && !p {
                break;
            }
        }
    }

    fn both_up(&self) -> bool {
        matches!(self.ep[0], Ep::Up(_)) && matches!(self.ep[1], Ep::Up(_))
    }

    /// one poll_write of `n` pattern bytes; returns accepted count (None = pending/err/not up)
    fn write_once(&mut self, out: &mut Out, d: usize, n: u64) -> Option<u64> {
        let buf: Vec<u8> = (0..n).map(|i| pat(d, self.sent[d] + i)).collect();
        let det = self.det.clone();
        let Ep::Up(io) = &mut self.ep[d] else { return None };
        let r = vcommon::guard(|| Pin::new(io).poll_write(&mut det.cx(), &buf));
        match r {
            Err(m) => {
                out.ev(json!({"e": "panic", "msg": m}));
                None
            }
            Ok(Poll::Pending) => {
                out.ev(json!({"e": "wpend", "d": d}));
                None
            }
            Ok(Poll::Ready(Ok(k))) => {
                self.sent[d] += k as u64;
                out.ev(json!({"e": "w", "d": d, "n": k, "req": n}));
                Some(k as u64)
            }
            Ok(Poll::Ready(Err(e))) => {
                out.ev(json!({"e": "werr", "d": d, "msg": e.to_string()}));
                None
            }
        }
    }

    /// poll_flush (close = false) or poll_close once; true if it completed
    fn flush_once(&mut self, out: &mut Out, d: usize, close: bool) -> bool {
        let det = self.det.clone();
        let Ep::Up(io) = &mut self.ep[d] else { return false };
        let r = vcommon::guard(|| if close { Pin::new(io).poll_close(&mut det.cx()) } else { Pin::new(io).poll_flush(&mut det.cx()) });
        match r {
            Err(m) => {
                out.ev(json!({"e": "panic", "msg": m}));
                false
            }
            Ok(Poll::Pending) => {
                out.ev(json!({"e": if close { "clpend" } else { "flpend" }, "d": d}));
                false
            }
            Ok(Poll::Ready(Ok(()))) => {
                if close {
                    self.wclosed[d] = true;
                }
                out.ev(json!({"e": if close { "close" } else { "flush" }, "d": d}));
                true
            }
            Ok(Poll::Ready(Err(e))) => {
                out.ev(json!({"e": "werr", "d": d, "msg": e.to_string()}));
                false
            }
        }
    }

    /// one poll_read by the reader of direction d with a buffer of n bytes.
    /// returns Some(true) if bytes were read, Some(false) on eof/err, None on pending.
    fn read_once(&mut self, out: &mut Out, d: usize, n: usize) -> Option<bool> {
        let det = self.det.clone();
        let Ep::Up(io) = &mut self.ep[1 - d] else { return None };
        let mut buf = vec![0u8; n];
        let r = vcommon::guard(|| Pin::new(io).poll_read(&mut det.cx(), &mut buf));
        match r {
            Err(m) => {
                out.ev(json!({"e": "panic", "msg": m}));
                Some(false)
            }
            Ok(Poll::Pending) => {
                out.ev(json!({"e": "rpend", "d": d}));
                None
            }
            Ok(Poll::Ready(Ok(0))) if n > 0 => {
                out.ev(json!({"e": "eof", "d": d}));
                self.rdone[d] = true;
                Some(false)
            }
            Ok(Poll::Ready(Ok(k))) => {
                let mut bad: i64 = -1;
                for (i, b) in buf[..k].iter().enumerate() {
                    if *b != pat(d, self.recvd[d] + i as u64) {
                        bad = i as i64;
                        break;
                    }
                }
                self.recvd[d] += k as u64;
                let mut ev = json!({"e": "r", "d": d, "n": k, "bad": bad, "req": n});
                if k <= 8 {
                    ev["b"] = json!(buf[..k].to_vec());
                }
                out.ev(ev);
                Some(true)
            }
            Ok(Poll::Ready(Err(e))) => {
                out.ev(json!({"e": "rerr", "d": d, "msg": e.to_string()}));
                Some(false)
            }
        }
    }

    /// quiescence: open all budgets, flush (or close) both writers, deliver everything, read everything
    fn drain(&mut self, out: &mut Out, close: bool, rbuf: usize) {
        self.cap = [None, None];
        for d in 0..2 {
            self.ctl.set_write_budget(d, None);
        }
        let mut flushed = [false, false];
        let mut errs = [0u32; 2];
        for _round in 0..10_000 {
            let mut progress = false;
            for d in 0..2 {
                if !flushed[d] && matches!(self.ep[d], Ep::Up(_)) {
                    if self.flush_once(out, d, close) {
                        flushed[d] = true;
                        progress = true;
                    }
                }
            }
            for d in 0..2 {
                if self.deliver(d, usize::MAX) > 0 {
                    progress = true;
                }
                if self.wclosed[d] {
                    self.ctl.deliver_eof(d);
                }
            }
            if self.poll_hs(out) {
                progress = true;
            }
            for d in 0..2 {
                while !self.rdone[d] && errs[d] < 3 {
                    match self.read_once(out, d, rbuf) {
                        Some(true) => progress = true,
                        Some(false) => {
                            if !self.rdone[d] {
                                errs[d] += 1; // error: try twice more (must not resume with later data)
                            }
                            progress = true;
                        }
                        None => break,
                    }
                }
            }
            if !progress {
                break;
            }
        }
        let hit: Vec<bool> = (0..2)
            .map(|d| self.corrupt[d].map(|c| c < self.ctl.with(d, |x| x.total_written)).unwrap_or(false))
            .collect();
        out.ev(json!({"e": "quiesce", "hit": hit, "up": [matches!(self.ep[0], Ep::Up(_)), matches!(self.ep[1], Ep::Up(_))]}));
    }
}

pub fn run(out: &mut Out, sched: &Value) -> [u64; 2] {
    let proto = vcommon::s(sched, "proto");
    let auto_dl = sched.get("auto_dl").and_then(|x| x.as_u64()).unwrap_or(0) as usize;
    let rbuf = sched.get("rbuf").and_then(|x| x.as_u64()).unwrap_or(70_000) as usize;
    let kt = sched.get("key").and_then(|x| x.as_str()).unwrap_or("ed25519").to_string();
    let integrity = proto == "noise";
    out.reset_with(json!({"proto": proto, "integrity": integrity}), sched);
    let (e0, e1, ctl) = pipe(false);
    let k0 = keypair(&kt);
    let k1 = keypair(&kt);
    let psk = [7u8; 32];
    let mut s = Sess {
        ep: [start(&proto, 0, e0, &k0, psk), start(&proto, 1, e1, &k1, psk)].map(Ep::Hs),
        ctl,
        det: Det::new(),
        sent: [0; 2],
        recvd: [0; 2],
        peers: [k0.public().to_peer_id(), k1.public().to_peer_id()],
        auto_dl,
        cap: [None, None],
        delivered_wire: [0; 2],
        corrupt: [None, None],
        wclosed: [false; 2],
        rdone: [false; 2],
    };
    if let Some(c) = sched.get("cap").and_then(|x| x.as_array()) {
        for d in 0..2 {
            s.cap[d] = c[d].as_i64().filter(|x| *x >= 0).map(|x| x as u64);
        }
    }
    if let Some(b) = sched.get("wbudget").and_then(|x| x.as_bool()) {
        if b {
            for d in 0..2 {
                s.ctl.set_write_budget(d, Some(0));
            }
        }
    }
    s.pump(out);
    for op in sched["ops"].as_array().unwrap() {
        let a = vcommon::s(op, "a");
        let d = op.get("d").and_then(|x| x.as_u64()).unwrap_or(0) as usize;
        let n = op.get("n").and_then(|x| x.as_u64()).unwrap_or(0);
        if matches!(a.as_str(), "w" | "wall" | "fl" | "cl" | "r" | "corrupt") && !s.both_up() && s.cap != [None, None] {
            // the handshake is stuck behind the delivery cap (everything stalled): lift it
            s.cap = [None, None];
            s.pump(out);
        }
        if matches!(a.as_str(), "w" | "wall" | "fl" | "cl") && s.wclosed[d] {
            continue; // a closed writer does not write
        }
        match a.as_str() {
            "w" => {
                s.write_once(out, d, n);
            }
            // write all n bytes (repeated poll_write) unless the writer blocks
            "wall" => {
                let mut left = n;
                while left > 0 {
                    match s.write_once(out, d, left) {
                        Some(k) if k > 0 => left -= k,
                        _ => break,
                    }
                }
            }
            "fl" => {
                s.flush_once(out, d, false);
            }
            "cl" => {
                s.flush_once(out, d, true);
            }
            "r" => {
                if !s.rdone[d] {
                    s.read_once(out, d, n as usize);
                }
            }
            "dl" => {
                let k = s.deliver(d, if n == 0 { usize::MAX } else { n as usize });
                out.ev(json!({"e": "dl", "d": d, "n": k}));
            }
            "wb" => {
                s.ctl.add_write_budget(d, n as usize);
                out.ev(json!({"e": "wb", "d": d, "n": n}));
            }
            "wbinf" => {
                s.ctl.set_write_budget(d, None);
                out.ev(json!({"e": "wb", "d": d, "n": -1}));
            }
            "uncap" => s.cap = [None, None],
            // flip bit 0 of the wire byte `n` positions ahead of what has been written so far
            "corrupt" => {
                if s.both_up() && s.corrupt[d].is_none() {
                    let at = s.ctl.with(d, |x| {
                        let at = x.total_written + n;
                        x.corrupt_at = Some(at);
                        at
                    });
                    s.corrupt[d] = Some(at);
                    out.ev(json!({"e": "corrupt", "d": d, "at": at}));
                }
            }
            "drain" => {
                let close = op.get("close").and_then(|x| x.as_bool()).unwrap_or(false);
                s.drain(out, close, rbuf);
                continue;
            }
            x => panic!("op {x}"),
        }
        s.pump(out);
    }
    [s.ctl.with(0, |x| x.total_written), s.ctl.with(1, |x| x.total_written)]
}

fn emit(out: &mut Out, s: Value) -> [u64; 2] {
    run(out, &s)
}

fn short_exchange() -> Vec<Value> {
    vec![
        json!({"a": "wall", "d": 0, "n": 5}),
        json!({"a": "fl", "d": 0}),
        json!({"a": "wall", "d": 1, "n": 3}),
        json!({"a": "fl", "d": 1}),
        json!({"a": "wall", "d": 0, "n": 2}),
        json!({"a": "fl", "d": 0}),
    ]
}

/// all two-chunk split points of the whole wire stream (handshake + short exchange), per direction
fn splits(out: &mut Out, proto: &str, step: u64) {
    let ops = short_exchange();
    // upper bounds of the wire length per direction, found by probing: run with caps until the cap exceeds the stream
    for d in 0..2usize {
        let mut c = 0u64;
        loop {
            let mut all = ops.clone();
            all.push(json!({"a": "r", "d": 0, "n": 64}));
            all.push(json!({"a": "r", "d": 1, "n": 64}));
            all.push(json!({"a": "uncap"}));
            all.push(json!({"a": "drain", "close": c % 2 == 1}));
            let cap = if d == 0 { json!([c, -1]) } else { json!([-1, c]) };
            let total = emit(out, json!({"proto": proto, "auto_dl": 100000, "cap": cap, "ops": all, "rbuf": 64}));
            c += step;
            if c > total[d] {
                break;
            }
        }
    }
}

fn sizes_for(proto: &str) -> Vec<u64> {
    match proto {
        // MAX_FRAME_LEN = 65535 - 1024 = 64511 plaintext bytes per noise frame
        "noise" => vec![0, 1, 2, 100, 64510, 64511, 64512, 129025],
        _ => vec![0, 1, 2, 100, 1023, 1024, 1025, 5000],
    }
}

/// boundary write sizes x delivery chunking
fn boundary(out: &mut Out, proto: &str) {
    let sizes = sizes_for(proto);
    for &a in &sizes {
        for &b in &sizes {
            for auto_dl in [1usize << 20, 4093] {
                let ops = vec![
                    json!({"a": "wall", "d": 0, "n": a}),
                    json!({"a": "wall", "d": 0, "n": b}),
                    json!({"a": "fl", "d": 0}),
                    json!({"a": "wall", "d": 1, "n": b}),
                    json!({"a": "drain", "close": a % 2 == 0}),
                ];
                emit(out, json!({"proto": proto, "auto_dl": auto_dl, "ops": ops, "rbuf": if a % 2 == 0 { 70000 } else { 1000 }}));
            }
        }
    }
}

/// single-bit corruption at every wire position of a short post-handshake exchange (noise only)
fn corruptions(out: &mut Out, proto: &str, frames: &[u64]) {
    // wire bytes of the exchange: per frame 2 + len + 16
    let total: u64 = frames.iter().map(|f| 2 + f + 16).sum();
    for d in 0..2usize {
        for at in 0..total {
            let mut ops = vec![json!({"a": "corrupt", "d": d, "n": at})];
            for f in frames {
                ops.push(json!({"a": "wall", "d": d, "n": f}));
                ops.push(json!({"a": "fl", "d": d}));
            }
            ops.push(json!({"a": "wall", "d": 1 - d, "n": 4}));
            ops.push(json!({"a": "drain", "close": true}));
            emit(out, json!({"proto": proto, "auto_dl": 100000, "ops": ops, "rbuf": 64}));
        }
    }
}

pub fn pk<T: Copy>(rng: &mut impl Rng, v: &[T]) -> T {
    v[rng.gen_range(0..v.len())]
}

fn random(out: &mut Out, proto: &str, seed: u64, runs: u64) {
    let mut rng = vcommon::rng(seed);
    let big = sizes_for(proto);
    for _ in 0..runs {
        let manual = rng.gen_bool(0.6);
        let wbudget = rng.gen_bool(0.4);
        let auto_dl = if manual { 0 } else { pk(&mut rng, &[1usize, 2, 3, 17, 1000, 1 << 20]) };
        let small = rng.gen_bool(0.7);
        let len = rng.gen_range(5..=40);
        let mut ops = vec![];
        if manual || wbudget {
            // get through the handshake with scripted chunks
            for _ in 0..rng.gen_range(8..40) {
                let d = rng.gen_range(0..2);
                if wbudget && rng.gen_bool(0.5) {
                    ops.push(json!({"a": "wb", "d": d, "n": rng.gen_range(1..200)}));
                } else {
                    ops.push(json!({"a": "dl", "d": d, "n": pk(&mut rng, &[0u64, 1, 2, 5, 33, 100])}));
                }
            }
            for d in 0..2 {
                ops.push(json!({"a": "wb", "d": d, "n": 1000}));
                ops.push(json!({"a": "dl", "d": d, "n": 0}));
                ops.push(json!({"a": "dl", "d": 1 - d, "n": 0}));
            }
            ops.push(json!({"a": "dl", "d": 0, "n": 0}));
        }
        let corrupting = proto == "noise" && rng.gen_bool(0.25);
        if corrupting {
            ops.push(json!({"a": "corrupt", "d": rng.gen_range(0..2), "n": rng.gen_range(0..400)}));
        }
        for _ in 0..len {
            let d = rng.gen_range(0..2);
            let sz = if small { pk(&mut rng, &[0u64, 1, 2, 3, 10, 50, 300]) } else { big[rng.gen_range(0..big.len())] };
            let op = match rng.gen_range(0..100) {
                0..=24 => json!({"a": "w", "d": d, "n": sz}),
                25..=34 => json!({"a": "wall", "d": d, "n": sz}),
                35..=49 => json!({"a": "fl", "d": d}),
                50..=64 => json!({"a": "r", "d": d, "n": if small { pk(&mut rng, &[1u64, 2, 7, 100, 70000]) } else { pk(&mut rng, &[1u64, 4096, 70000]) }}),
                65..=79 => json!({"a": "dl", "d": d, "n": pk(&mut rng, &[0u64, 1, 2, 5, 33, 1000, 65000])}),
                80..=89 => json!({"a": "wb", "d": d, "n": pk(&mut rng, &[1u64, 2, 17, 100, 1024, 70000])}),
                90..=93 => json!({"a": "wbinf", "d": d}),
                _ => json!({"a": "cl", "d": d}),
            };
            ops.push(op);
        }
        ops.push(json!({"a": "drain", "close": corrupting || rng.gen_bool(0.5)}));
        emit(out, json!({"proto": proto, "auto_dl": auto_dl, "wbudget": wbudget, "ops": ops,
                          "rbuf": if small { pk(&mut rng, &[1u64, 3, 64, 5000, 70000]) } else { pk(&mut rng, &[5000u64, 70000]) }}));
    }
}

pub fn main(a: &vcommon::Args) {
    let sub = a.get(0);
    match sub {
        "replay" => {
            let scheds = vcommon::read_schedules(a.get(1));
            let mut out = Out::create(a.get(2));
            for s in &scheds {
                run(&mut out, s);
            }
            println!("runs={} events={}", out.run, out.events);
            out.finish();
        }
        // stream splits <proto> <step> <out>
        "splits" => {
            let mut out = Out::create(a.get(3));
            splits(&mut out, a.get(1), a.num(2));
            println!("runs={} events={}", out.run, out.events);
            out.finish();
        }
        "boundary" => {
            let mut out = Out::create(a.get(2));
            boundary(&mut out, a.get(1));
            println!("runs={} events={}", out.run, out.events);
            out.finish();
        }
        // stream corrupt <proto> <nframes> <out>
        "corrupt" => {
            let mut out = Out::create(a.get(3));
            let frames: Vec<u64> = match a.num(2) {
                1 => vec![5],
                2 => vec![5, 1],
                _ => vec![5, 1, 9],
            };
            corruptions(&mut out, a.get(1), &frames);
            println!("runs={} events={}", out.run, out.events);
            out.finish();
        }
        // stream random <proto> <seed> <runs> <out>
        "random" => {
            let mut out = Out::create(a.get(4));
            random(&mut out, a.get(1), a.num(2), a.num(3));
            println!("runs={} events={}", out.run, out.events);
            out.finish();
        }
        // data written by a side as soon as ITS handshake is complete, while the other side has not yet read the last
        // handshake message: the last handshake message and the first data arrive in one chunk (or split anywhere)
        "early" => {
            let proto = a.get(1);
            let mut out = Out::create(a.get(2));
            for n in [1u64, 15, 100, 300, 70_000] {
                // everything at once, then every split point of (last handshake message + first frames) up to 120 bytes
                let mut cuts: Vec<u64> = vec![0];
                cuts.extend(1..=if n < 1000 { 120 } else { 8 });
                for cut in cuts {
                    for second in [false, true] {
                        // m1 to the responder, m2 to the initiator: the initiator is up and has m3 staged
                        let mut ops = vec![json!({"a": "dl", "d": 0, "n": 0}), json!({"a": "dl", "d": 1, "n": 0})];
                        // the initiator writes at once; its data is staged right behind m3
                        ops.push(json!({"a": "wall", "d": 0, "n": n}));
                        ops.push(json!({"a": "fl", "d": 0}));
                        if second {
                            ops.push(json!({"a": "wall", "d": 0, "n": 7}));
                            ops.push(json!({"a": "fl", "d": 0}));
                        }
                        // m3 + data reach the responder in one chunk, or split at `cut`
                        if cut > 0 {
                            ops.push(json!({"a": "dl", "d": 0, "n": cut}));
                        }
                        ops.push(json!({"a": "dl", "d": 0, "n": 0}));
                        // the responder answers
                        ops.push(json!({"a": "wall", "d": 1, "n": 3}));
                        ops.push(json!({"a": "fl", "d": 1}));
                        ops.push(json!({"a": "dl", "d": 1, "n": 0}));
                        ops.push(json!({"a": "r", "d": 0, "n": 64}));
                        ops.push(json!({"a": "r", "d": 1, "n": 64}));
                        ops.push(json!({"a": "drain", "close": cut % 2 == 1}));
                        emit(&mut out, json!({"proto": proto, "auto_dl": 0, "ops": ops, "rbuf": 4096}));
                    }
                }
            }
            println!("runs={} events={}", out.run, out.events);
            out.finish();
        }
        m => panic!("stream mode {m}"),
    }
}
