//! C16: two REAL `noise::Config` upgrades (A = initiator, B = responder) with an on-path adversary
//! between them.  Topology: A <-> pipe1 <-> [driver relay] <-> pipe2 <-> B.  The relay reassembles
//! the length-prefixed handshake messages (direction 0: m1, m3; direction 1: m2) and applies one
//! attack:  none | flip(msg, off, mask) | trunc(msg, len) | drop(msg) | dup(msg) |
//!          replay(msg) (substitute the message of a recorded honest session between the same
//!          identities) | mitm (M terminates both handshakes with its own identity; real code) |
//!          prologue (A and B configured with different prologues).
//! Events: hs(side, res, peer)  with peer in {"A","B","M","other"};  link(side, ok) = after both
//! counterparts are done, 3 bytes written by `side` are decrypted correctly by its counterpart.
use std::{future::Future, pin::Pin, task::Poll};

use futures::io::{AsyncRead, AsyncWrite};
use libp2p_core::upgrade::{InboundConnectionUpgrade, OutboundConnectionUpgrade};
use libp2p_identity::{Keypair, PeerId};
use libp2p_noise::{Config, Output};
use vcommon::{
    exec::Det,
    json,
    pipe::{pipe, PipeCtl, PipeEnd},
    Out, Value,
};

use crate::stream::keypair;

type Hs = Pin<Box<dyn Future<Output = Result<(PeerId, Output<PipeEnd>), libp2p_noise::Error>> + Send>>;

enum Side {
    Run(Hs),
    Done(#[allow(dead_code)] PeerId, Output<PipeEnd>),
    Err,
}

struct Party {
    name: &'static str,
    side: Side,
    ctl: PipeCtl,
    /// direction of `ctl`'s pipe this party writes into / reads from
    wdir: usize,
    _keep: PipeEnd,
}

fn party(name: &'static str, kp: &Keypair, initiator: bool, prologue: &[u8]) -> Party {
    let cfg = Config::new(kp).expect("noise config").with_prologue(prologue.to_vec());
    party_cfg(name, cfg, initiator)
}

/// WebTransport certhash set number k (1 = {h1}, 2 = {h1, h2}, 3 = {h3}); an initiator expects them, a responder announces them
fn certhashes(k: u64) -> std::collections::HashSet<libp2p_core::multihash::Multihash<64>> {
    let h = |b: u8| libp2p_core::multihash::Multihash::<64>::wrap(0x12, &[b; 32]).expect("multihash");
    match k {
        1 => [h(1)].into_iter().collect(),
        2 => [h(1), h(2)].into_iter().collect(),
        _ => [h(3)].into_iter().collect(),
    }
}

fn with_ch(cfg: Config, k: u64) -> Config {
    if k == 0 {
        cfg
    } else {
        cfg.with_webtransport_certhashes(certhashes(k))
    }
}

fn party_cfg(name: &'static str, cfg: Config, initiator: bool) -> Party {
    let (e0, e1, ctl) = pipe(true);
    for d in 0..2 {
        ctl.with(d, |x| x.keep_log = true);
    }
    // the party always holds end 0 of its own pipe: writes dir 0, reads dir 1
    let fut: Hs = if initiator { cfg.upgrade_outbound(e0, "/noise") } else { cfg.upgrade_inbound(e0, "/noise") };
    Party { name, side: Side::Run(fut), ctl, wdir: 0, _keep: e1 }
}

impl Party {
    fn poll(&mut self, det: &Det, out: &mut Out, names: &[(PeerId, &'static str)]) -> bool {
        if let Side::Run(f) = &mut self.side {
            match vcommon::guard(|| det.run_until_stalled(f.as_mut(), 10_000)) {
                Err(m) => {
                    out.ev(json!({"e": "panic", "msg": m}));
                    self.side = Side::Err;
                    true
                }
                Ok(None) => false,
                Ok(Some(Ok((p, io)))) => {
                    let who = names.iter().find(|(id, _)| *id == p).map(|(_, n)| *n).unwrap_or("other");
                    out.ev(json!({"e": "hs", "side": self.name, "res": "done", "peer": who}));
                    self.side = Side::Done(p, io);
                    true
                }
                Ok(Some(Err(e))) => {
                    out.ev(json!({"e": "hs", "side": self.name, "res": "err", "peer": "none", "msg": e.to_string()}));
                    self.side = Side::Err;
                    true
                }
            }
        } else {
            false
        }
    }
    fn take_written(&self) -> Vec<u8> {
        self.ctl.take_log(self.wdir)
    }
    fn feed(&self, bytes: &[u8]) {
        self.ctl.inject(1 - self.wdir, bytes);
    }
    fn eof(&self) {
        self.ctl.close_dir(1 - self.wdir);
    }
}

/// split complete length-prefixed messages off the front of `buf`
fn frames(buf: &mut Vec<u8>) -> Vec<Vec<u8>> {
    let mut v = vec![];
    loop {
        if buf.len() < 2 {
            return v;
        }
        let l = u16::from_be_bytes([buf[0], buf[1]]) as usize;
        if buf.len() < 2 + l {
            return v;
        }
        v.push(buf.drain(..2 + l).collect());
    }
}

/// honest session; returns the three handshake messages (with length prefixes)
fn record(ka: &Keypair, kb: &Keypair) -> [Vec<u8>; 3] {
    let det = Det::new();
    let mut a = party("A", ka, true, b"");
    let mut b = party("B", kb, false, b"");
    let mut sink = Out::create("/dev/null");
    let mut m: [Vec<u8>; 3] = Default::default();
    let mut k0 = 0;
    for _ in 0..20 {
        a.poll(&det, &mut sink, &[]);
        let w = a.take_written();
        if !w.is_empty() {
            m[if k0 == 0 { 0 } else { 2 }] = w.clone();
            k0 += 1;
            b.feed(&w);
        }
        b.poll(&det, &mut sink, &[]);
        let w = b.take_written();
        if !w.is_empty() {
            m[1] = w.clone();
            a.feed(&w);
        }
    }
    m
}

fn link_test(det: &Det, out: &mut Out, name: &str, w: &mut Output<PipeEnd>, wctl: (&PipeCtl, usize), r: &mut Output<PipeEnd>, rctl: (&PipeCtl, usize)) {
    let msg = [0xA5u8, 0x5A, 0x3C];
    let res = vcommon::guard(|| {
        let mut cx = det.cx();
        if !matches!(Pin::new(&mut *w).poll_write(&mut cx, &msg), Poll::Ready(Ok(3))) {
            return false;
        }
        if !matches!(Pin::new(&mut *w).poll_flush(&mut cx), Poll::Ready(Ok(()))) {
            return false;
        }
        let bytes = wctl.0.take_log(wctl.1);
        rctl.0.inject(rctl.1, &bytes);
        let mut buf = [0u8; 16];
        matches!(Pin::new(&mut *r).poll_read(&mut cx, &mut buf), Poll::Ready(Ok(3))) && buf[..3] == msg
    });
    match res {
        Ok(ok) => out.ev(json!({"e": "link", "side": name, "ok": ok})),
        Err(m) => out.ev(json!({"e": "panic", "msg": m})),
    }
}

pub fn run(out: &mut Out, sched: &Value) {
    let kt = vcommon::s(sched, "key");
    let attack = vcommon::s(sched, "attack");
    let msg = sched.get("msg").and_then(|x| x.as_u64()).unwrap_or(0) as usize; // 1..3
    let off = sched.get("off").and_then(|x| x.as_u64()).unwrap_or(0) as usize;
    let mask = sched.get("mask").and_then(|x| x.as_u64()).unwrap_or(1) as u8;
    let off2 = sched.get("off2").and_then(|x| x.as_i64()).unwrap_or(-1);
    let mitm = attack == "mitm" || attack == "splice";
    let cp = if mitm { "M" } else { "peer" };
    out.reset_with(json!({"attack": attack, "cp": cp, "prologue": if attack == "prologue" { "diff" } else { "same" }}), sched);
    let (ka, kb, km) = (keypair(&kt), keypair(&kt), keypair(&kt));
    let names = [(ka.public().to_peer_id(), "A"), (kb.public().to_peer_id(), "B"), (km.public().to_peer_id(), "M")];
    let det = Det::new();
    let recorded = if attack == "replay" { Some(record(&ka, &kb)) } else { None };
    let pa = sched.get("pa").and_then(|x| x.as_str()).unwrap_or(if attack == "prologue" { "one" } else { "" }).to_string();
    let pb = sched.get("pb").and_then(|x| x.as_str()).unwrap_or(if attack == "prologue" { "two" } else { "" }).to_string();
    assert_eq!(attack == "prologue", pa != pb, "attack=prologue iff the prologues differ");
    // "chv" / "cho": certhash set of the victim (or of A) and of its counterpart (M in a splice, else B); 0 = none
    let chv = sched.get("chv").and_then(|x| x.as_u64()).unwrap_or(0);
    let cho = sched.get("cho").and_then(|x| x.as_u64()).unwrap_or(0);
    let splice_victim_is_a = attack == "splice" && vcommon::s(sched, "role") == "resp";
    let (cha, chb) = if attack == "splice" { if splice_victim_is_a { (chv, 0) } else { (0, chv) } } else { (chv, cho) };
    let mut a = party_cfg("A", with_ch(Config::new(&ka).expect("noise config").with_prologue(pa.as_bytes().to_vec()), cha), true);
    let mut b = party_cfg("B", with_ch(Config::new(&kb).expect("noise config").with_prologue(pb.as_bytes().to_vec()), chb), false);
    if attack == "splice" {
        // M runs the real handshake with its own static key but presents a spliced identity payload
        let variant = vcommon::s(sched, "variant");
        let victim_is_a = vcommon::s(sched, "role") == "resp";
        let kx = if vcommon::s(sched, "x") == "peer" { if victim_is_a { kb.clone() } else { ka.clone() } } else { keypair(&kt) };
        let (xpub, xsig) = libp2p_noise::verif::identity_payload(&Config::new(&kx).expect("cfg"));
        let mcfg = Config::new(&km).expect("cfg");
        let (mpub, msig) = libp2p_noise::verif::identity_payload(&mcfg);
        let (p, sg) = match variant.as_str() {
            "xid_xsig" => (xpub, xsig),
            "xid_msig" => (xpub, msig),
            "xid_nosig" => (xpub, vec![]),
            "mid_xsig" => (mpub, xsig),
            "mid_nosig" => (mpub, vec![]),
            _ => (mpub, msig), // "honest"
        };
        let mcfg = with_ch(libp2p_noise::verif::with_identity_payload(mcfg, p, sg), cho);
        let mut m = party_cfg("Mx", mcfg, !victim_is_a);
        let v = if victim_is_a { &mut a } else { &mut b };
        for _ in 0..20 {
            let mut p = v.poll(&det, out, &names);
            let w = v.take_written();
            p |= !w.is_empty();
            m.feed(&w);
            p |= m.poll(&det, out, &names);
            let w = m.take_written();
            p |= !w.is_empty();
            v.feed(&w);
            if !p {
                break;
            }
        }
        v.eof();
        m.eof();
        for _ in 0..3 {
            v.poll(&det, out, &names);
            m.poll(&det, out, &names);
        }
        out.ev(json!({"e": "end"}));
        return;
    }
    if mitm {
        // M answers A as a responder and dials B as an initiator, both with the real code and M's identity
        let mut mb = party("Mb", &km, false, b""); // faces A
        let mut ma = party("Ma", &km, true, b""); // faces B
        for _ in 0..20 {
            let mut p = false;
            p |= a.poll(&det, out, &names);
            let w = a.take_written();
            p |= !w.is_empty();
            mb.feed(&w);
            p |= mb.poll(&det, out, &names);
            let w = mb.take_written();
            p |= !w.is_empty();
            a.feed(&w);
            p |= ma.poll(&det, out, &names);
            let w = ma.take_written();
            p |= !w.is_empty();
            b.feed(&w);
            p |= b.poll(&det, out, &names);
            let w = b.take_written();
            p |= !w.is_empty();
            ma.feed(&w);
            if !p {
                break;
            }
        }
        if let (Side::Done(_, ao), Side::Done(_, mo)) = (&mut a.side, &mut mb.side) {
            link_test(&det, out, "A", ao, (&a.ctl, 0), mo, (&mb.ctl, 1));
        }
        if let (Side::Done(_, bo), Side::Done(_, mo)) = (&mut b.side, &mut ma.side) {
            link_test(&det, out, "B", bo, (&b.ctl, 0), mo, (&ma.ctl, 1));
        }
        out.ev(json!({"e": "end"}));
        return;
    }
    // relay with per-message attack
    let mut buf = [Vec::new(), Vec::new()]; // dir 0: A -> B, dir 1: B -> A
    let mut count = [0usize; 2]; // messages seen per direction
    let mut cut = [false, false]; // direction truncated: nothing more is delivered, EOF sent
    for _round in 0..40 {
        let mut progress = false;
        progress |= a.poll(&det, out, &names);
        progress |= b.poll(&det, out, &names);
        for dir in 0..2 {
            let w = if dir == 0 { a.take_written() } else { b.take_written() };
            if w.is_empty() {
                continue;
            }
            progress = true;
            buf[dir].extend(w);
            for mut f in frames(&mut buf[dir]) {
                count[dir] += 1;
                let idx = if dir == 1 { 2 } else if count[0] == 1 { 1 } else { 3 }; // m1, m2, m3
                let to = if dir == 0 { &b } else { &a };
                if cut[dir] || count[dir] > 2 {
                    continue;
                }
                if idx != msg {
                    to.feed(&f);
                    continue;
                }
                match attack.as_str() {
                    "flip" => {
                        let k = off.min(f.len() - 1);
                        f[k] ^= mask;
                        if off2 >= 0 {
                            let k2 = (off2 as usize).min(f.len() - 1);
                            f[k2] ^= 0x10;
                        }
                        to.feed(&f);
                    }
                    "trunc" => {
                        let k = off.min(f.len() - 1);
                        to.feed(&f[..k]);
                        to.eof();
                        cut[dir] = true;
                    }
                    "drop" => {}
                    "dup" => {
                        to.feed(&f);
                        to.feed(&f);
                    }
                    "replay" => {
                        to.feed(&recorded.as_ref().unwrap()[idx - 1]);
                    }
                    _ => to.feed(&f),
                }
            }
        }
        if !progress {
            break;
        }
    }
    // whoever is still waiting gets EOF (the adversary closes the connection)
    a.eof();
    b.eof();
    for _ in 0..5 {
        a.poll(&det, out, &names);
        b.poll(&det, out, &names);
    }
    for p in [&a, &b] {
        if matches!(p.side, Side::Run(_)) {
            out.ev(json!({"e": "hs", "side": p.name, "res": "pending", "peer": "none"}));
        }
    }
    if let (Side::Done(_, ao), Side::Done(_, bo)) = (&mut a.side, &mut b.side) {
        // fresh pipes state: EOF was signalled, but the transport log/inject path still works for a link test
        let _ = a.ctl.take_log(0);
        let _ = b.ctl.take_log(0);
        a.ctl.with(1, |x| {
            x.closed = false;
            x.eof_delivered = false
        });
        b.ctl.with(1, |x| {
            x.closed = false;
            x.eof_delivered = false
        });
        link_test(&det, out, "A", ao, (&a.ctl, 0), bo, (&b.ctl, 1));
        link_test(&det, out, "B", bo, (&b.ctl, 0), ao, (&a.ctl, 1));
    }
    out.ev(json!({"e": "end"}));
}

/// message lengths of an honest handshake for this key type (m1, m2, m3 incl. length prefix)
fn lengths(kt: &str) -> [usize; 3] {
    let m = record(&keypair(kt), &keypair(kt));
    [m[0].len(), m[1].len(), m[2].len()]
}

fn generate(out: &mut Out, deep: bool, seed: u64) {
    use rand::Rng;
    let mut rng = vcommon::rng(seed);
    let kts: &[&str] = if deep { &["ed25519", "secp256k1", "ecdsa", "rsa"] } else { &["ed25519"] };
    for kt in ["ed25519", "secp256k1", "ecdsa", "rsa"] {
        run(out, &json!({"key": kt, "attack": "none"}));
        run(out, &json!({"key": kt, "attack": "mitm"}));
        run(out, &json!({"key": kt, "attack": "prologue"}));
        run(out, &json!({"key": kt, "attack": "prologue", "pa": "", "pb": "two"}));
        run(out, &json!({"key": kt, "attack": "prologue", "pa": "one", "pb": ""}));
        run(out, &json!({"key": kt, "attack": "prologue", "pa": "one", "pb": "one "}));
        run(out, &json!({"key": kt, "attack": "none", "pa": "same", "pb": "same"}));
        // WebTransport certhashes: expected by A, announced by B. Satisfiable combinations must complete (attack
        // none); unsatisfiable ones are their own attack kind (nothing demanded beyond "done reports the counterpart")
        for (chv, cho) in [(1, 2), (1, 1), (0, 2), (2, 2)] {
            run(out, &json!({"key": kt, "attack": "none", "chv": chv, "cho": cho}));
        }
        for (chv, cho) in [(1, 3), (1, 0), (2, 1)] {
            run(out, &json!({"key": kt, "attack": "certhash", "chv": chv, "cho": cho}));
        }
        for m in 1..=3 {
            for at in ["drop", "dup", "replay"] {
                run(out, &json!({"key": kt, "attack": at, "msg": m}));
            }
        }
    }
    for kt in ["ed25519", "secp256k1", "ecdsa", "rsa"] {
        for role in ["resp", "init"] {
            for x in ["peer", "third"] {
                if kt == "rsa" && x == "third" {
                    continue; // only three RSA test keys
                }
                for variant in ["xid_xsig", "xid_msig", "xid_nosig", "mid_xsig", "mid_nosig", "honest"] {
                    run(out, &json!({"key": kt, "attack": "splice", "role": role, "x": x, "variant": variant}));
                    // the victim pins / announces WebTransport certhashes; M announces a superset, the same set,
                    // a different set or nothing
                    for (chv, cho) in [(1, 2), (1, 1), (1, 3), (1, 0), (0, 2)] {
                        if kt == "ed25519" || (chv, cho) == (1, 2) {
                            run(out, &json!({"key": kt, "attack": "splice", "role": role, "x": x, "variant": variant, "chv": chv, "cho": cho}));
                        }
                    }
                }
            }
        }
    }
    for kt in kts {
        let len = lengths(kt);
        for m in 1..=3usize {
            // DER signatures vary in length by a few bytes: sweep a little beyond the measured length (clamped)
            let n = len[m - 1] + 3;
            for off in 0..n {
                let masks: &[u8] = if deep { &[0x01, 0x80, 0xff] } else if off % 2 == 0 { &[0x01] } else { &[0x80] };
                for &mask in masks {
                    run(out, &json!({"key": kt, "attack": "flip", "msg": m, "off": off, "mask": mask}));
                }
                if deep || off % 3 == 0 {
                    run(out, &json!({"key": kt, "attack": "trunc", "msg": m, "off": off}));
                }
            }
            // double flips (seeded sample)
            for _ in 0..(if deep { 300 } else { 30 }) {
                run(out, &json!({"key": kt, "attack": "flip", "msg": m, "off": rng.gen_range(0..n), "mask": 1u8 << rng.gen_range(0..8), "off2": rng.gen_range(0..n)}));
            }
        }
    }
}

pub fn main(a: &vcommon::Args) {
    match a.get(0) {
        "replay" => {
            let scheds = vcommon::read_schedules(a.get(1));
            let mut out = Out::create(a.get(2));
            for s in &scheds {
                run(&mut out, s);
            }
            println!("runs={} events={}", out.run, out.events);
            out.finish();
        }
        // noisehs gen <deep 0|1> <seed> <out>
        "gen" => {
            let mut out = Out::create(a.get(3));
            generate(&mut out, a.num(1) > 0, a.num(2));
            println!("runs={} events={}", out.run, out.events);
            out.finish();
        }
        m => panic!("noisehs mode {m}"),
    }
}
