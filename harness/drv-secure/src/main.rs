//! Driver for the security upgrades: noise / plaintext / pnet byte streams (C17, C19), plaintext
//! exchange variants and PSK key files (C19), noise handshake under an on-path adversary (C16),
//! TLS certificates (C18).
mod noisehs;
mod psk;
mod ptx;
mod stream;
mod tlscert;

fn main() {
    vcommon::quiet_panics();
    let a = vcommon::Args::parse();
    match a.mode.as_str() {
        "stream" => stream::main(&a),
        "ptx" => ptx::main(&a),
        "psk" => psk::main(&a),
        "noisehs" => noisehs::main(&a),
        "tlscert" => tlscert::main(&a),
        m => {
            eprintln!("unknown mode {m}");
            std::process::exit(2)
        }
    }
}
