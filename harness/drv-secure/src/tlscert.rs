//! C18: libp2p TLS certificates.  (1) structural variants built with rcgen (the libp2p extension is
//! encoded by hand here, independently of libp2p-tls), (2) byte mutations of certificates produced by
//! the real `libp2p_tls::certificate::generate`.  Every certificate goes through the real
//! `libp2p_tls::certificate::parse`; one record per certificate.
use libp2p_identity::{Keypair, PeerId};
use libp2p_tls::certificate;
use rand::Rng;
use vcommon::{json, Out, Value};

use crate::stream::keypair;

const P2P_EXT_OID: [u64; 9] = [1, 3, 6, 1, 4, 1, 53594, 1, 1];
const PREFIX: &[u8] = b"libp2p-tls-handshake:";

fn der_len(n: usize) -> Vec<u8> {
    if n < 128 {
        vec![n as u8]
    } else if n < 256 {
        vec![0x81, n as u8]
    } else {
        vec![0x82, (n >> 8) as u8, n as u8]
    }
}
fn octet(b: &[u8]) -> Vec<u8> {
    let mut v = vec![0x04];
    v.extend(der_len(b.len()));
    v.extend_from_slice(b);
    v
}
/// SignedKey ::= SEQUENCE { publicKey OCTET STRING, signature OCTET STRING }
fn signed_key(pk: &[u8], sig: &[u8]) -> Vec<u8> {
    let mut body = octet(pk);
    body.extend(octet(sig));
    let mut v = vec![0x30];
    v.extend(der_len(body.len()));
    v.extend(body);
    v
}

fn remake<T: From<Vec<u8>>>(_like: &T, v: Vec<u8>) -> T {
    T::from(v)
}

/// parse with the real code; (res, peer)
fn judge(der: Vec<u8>, names: &[(PeerId, &str)]) -> (String, String, String) {
    let r = vcommon::guard(|| {
        // obtain the concrete certificate type from the real generator's return type
        let like = certificate::generate(&Keypair::generate_ed25519()).expect("generate").0;
        let cert = remake(&like, der);
        match certificate::parse(&cert) {
            Ok(c) => {
                let p = c.peer_id();
                ("accept".to_string(), names.iter().find(|(id, _)| *id == p).map(|(_, n)| n.to_string()).unwrap_or("other".into()), String::new())
            }
            Err(e) => ("reject".to_string(), "none".to_string(), e.to_string()),
        }
    });
    r.unwrap_or_else(|m| ("panic".into(), "none".into(), m))
}

/// abstract extension: {"k":"p2p","host":"H"|"X","sig":"ok"|"wrongmsg"|"otherkey","keyOK":bool,"crit":bool} | {"k":"unk","crit":bool}
fn build(spec: &Value, host: &Keypair, other: &Keypair) -> Result<Vec<u8>, String> {
    let alg: &'static rcgen::SignatureAlgorithm = match vcommon::s(spec, "alg").as_str() {
        "p256" => &rcgen::PKCS_ECDSA_P256_SHA256,
        "p384" => &rcgen::PKCS_ECDSA_P384_SHA384,
        "ed25519" => &rcgen::PKCS_ED25519,
        a => return Err(format!("alg {a}")),
    };
    let cert_key = rcgen::KeyPair::generate_for(alg).map_err(|e| e.to_string())?;
    let mut params = rcgen::CertificateParams::default();
    params.distinguished_name = rcgen::DistinguishedName::new();
    match vcommon::s(spec, "valid").as_str() {
        "now" => {}
        "expired" => {
            params.not_before = rcgen::date_time_ymd(2001, 1, 1);
            params.not_after = rcgen::date_time_ymd(2002, 1, 1);
        }
        "notyet" => {
            params.not_before = rcgen::date_time_ymd(3001, 1, 1);
            params.not_after = rcgen::date_time_ymd(3002, 1, 1);
        }
        v => return Err(format!("valid {v}")),
    }
    for (i, e) in spec["exts"].as_array().unwrap().iter().enumerate() {
        let crit = vcommon::b(e, "crit");
        let mut ext = if vcommon::s(e, "k") == "p2p" {
            let h = if vcommon::s(e, "host") == "H" { host } else { other };
            let wrong = if vcommon::s(e, "host") == "H" { other } else { host };
            let mut msg = PREFIX.to_vec();
            msg.extend(cert_key.public_key_der());
            let sig = match vcommon::s(e, "sig").as_str() {
                "ok" => h.sign(&msg),
                "wrongmsg" => h.sign(b"libp2p-tls-handshake:somethingelse"),
                _ => wrong.sign(&msg), // announced h, signed by somebody else
            }
            .map_err(|e| e.to_string())?;
            let pk = if vcommon::b(e, "keyOK") { h.public().encode_protobuf() } else { vec![0x08, 0x63, 0x12, 0x02, 0x01, 0x02] };
            rcgen::CustomExtension::from_oid_content(&P2P_EXT_OID, signed_key(&pk, &sig))
        } else {
            rcgen::CustomExtension::from_oid_content(&[1, 2, 3, 4, 5, 100 + i as u64], vec![0x05, 0x00])
        };
        ext.set_criticality(crit);
        params.custom_extensions.push(ext);
    }
    let cert = if vcommon::b(spec, "selfSigned") {
        params.self_signed(&cert_key).map_err(|e| e.to_string())?
    } else {
        let issuer_key = rcgen::KeyPair::generate_for(alg).map_err(|e| e.to_string())?;
        let mut ip = rcgen::CertificateParams::default();
        ip.distinguished_name = rcgen::DistinguishedName::new();
        ip.is_ca = rcgen::IsCa::Ca(rcgen::BasicConstraints::Unconstrained);
        let issuer = ip.self_signed(&issuer_key).map_err(|e| e.to_string())?;
        params.signed_by(&cert_key, &issuer, &issuer_key).map_err(|e| e.to_string())?
    };
    Ok(cert.der().as_ref().to_vec())
}

fn structural(out: &mut Out, spec: &Value) {
    let kt = vcommon::s(spec, "key");
    let host = keypair(&kt);
    let other = keypair(&kt);
    let names = [(host.public().to_peer_id(), "H"), (other.public().to_peer_id(), "X")];
    let mut rec = json!({"kind": "struct", "spec": spec});
    match vcommon::guard(|| build(spec, &host, &other)) {
        Ok(Ok(der)) => {
            let (res, peer, msg) = judge(der, &names);
            rec["res"] = json!(res);
            rec["peer"] = json!(peer);
            rec["msg"] = json!(msg);
        }
        Ok(Err(e)) | Err(e) => {
            rec["res"] = json!("skip");
            rec["peer"] = json!("none");
            rec["msg"] = json!(e);
        }
    }
    out.ev(rec);
}

fn ext_alphabet() -> Vec<Value> {
    let mut v = vec![];
    for host in ["H", "X"] {
        for sig in ["ok", "wrongmsg", "otherkey"] {
            for key_ok in [true, false] {
                for crit in [true, false] {
                    v.push(json!({"k": "p2p", "host": host, "sig": sig, "keyOK": key_ok, "crit": crit}));
                }
            }
        }
    }
    v.push(json!({"k": "unk", "crit": true}));
    v.push(json!({"k": "unk", "crit": false}));
    v
}

fn grid(out: &mut Out, deep: bool, seed: u64) {
    let mut rng = vcommon::rng(seed);
    let al = ext_alphabet();
    let kts: &[&str] = if deep { &["ed25519", "secp256k1", "ecdsa", "rsa"] } else { &["ed25519", "secp256k1"] };
    let mut seqs: Vec<Vec<Value>> = vec![vec![]];
    for a in &al {
        seqs.push(vec![a.clone()]);
    }
    for a in &al {
        for b in &al {
            seqs.push(vec![a.clone(), b.clone()]);
        }
    }
    for (i, exts) in seqs.iter().enumerate() {
        for (j, kt) in kts.iter().enumerate() {
            // quick: all sequences for the first key type, a third of them for the others
            if !deep && j > 0 && i % 3 != 0 {
                continue;
            }
            for self_signed in [true, false] {
                for valid in ["now", "expired", "notyet"] {
                    // invalid envelope variants only for a sample of extension sequences
                    if (!self_signed || valid != "now") && !(deep || i % 7 == 0) {
                        continue;
                    }
                    let alg = ["p256", "p384", "ed25519"][(i + j) % 3];
                    structural(out, &json!({"key": kt, "alg": alg, "selfSigned": self_signed, "valid": valid, "exts": exts}));
                }
            }
        }
    }
    // length-3 sequences: seeded sample
    for _ in 0..(if deep { 3000 } else { 200 }) {
        let exts: Vec<Value> = (0..3).map(|_| al[rng.gen_range(0..al.len())].clone()).collect();
        structural(out, &json!({"key": kts[rng.gen_range(0..kts.len())], "alg": crate::stream::pk(&mut rng, &["p256", "p384", "ed25519"]),
                                "selfSigned": rng.gen_bool(0.9), "valid": if rng.gen_bool(0.9) { "now" } else { "expired" }, "exts": exts}));
    }
}

fn mutate_one(out: &mut Out, kt: &str, base: &[u8], names: &[(PeerId, &str)], m: &Value) {
    let mut der = base.to_vec();
    match vcommon::s(m, "op").as_str() {
        "xor" => {
            let at = vcommon::n(m, "at") as usize;
            der[at] ^= vcommon::n(m, "mask") as u8;
        }
        "set" => {
            let at = vcommon::n(m, "at") as usize;
            der[at] = vcommon::n(m, "val") as u8;
        }
        "trunc" => der.truncate(vcommon::n(m, "at") as usize),
        "append" => der.extend(vec![0u8; vcommon::n(m, "n") as usize]),
        "none" => {}
        o => panic!("mutation {o}"),
    }
    let (res, peer, msg) = judge(der, names);
    out.ev(json!({"kind": "mut", "key": kt, "len": base.len(), "m": m, "res": res, "peer": peer, "msg": msg}));
}

fn mutations(out: &mut Out, deep: bool) {
    let kts: &[&str] = if deep { &["ed25519", "secp256k1", "ecdsa", "rsa"] } else { &["ed25519", "secp256k1", "ecdsa"] };
    for kt in kts {
        let kt: &str = kt;
        let host = keypair(kt);
        let names = [(host.public().to_peer_id(), "H")];
        let base = certificate::generate(&host).expect("generate").0.as_ref().to_vec();
        mutate_one(out, kt, &base, &names, &json!({"op": "none"}));
        mutate_one(out, kt, &base, &names, &json!({"op": "append", "n": 1}));
        mutate_one(out, kt, &base, &names, &json!({"op": "append", "n": 64}));
        for at in 0..base.len() {
            let masks: Vec<u8> = if deep { (0..8).map(|b| 1u8 << b).chain([0xff]).collect() } else { vec![1u8 << (at % 8), 0xff] };
            for mask in masks {
                mutate_one(out, kt, &base, &names, &json!({"op": "xor", "at": at, "mask": mask}));
            }
            if deep {
                mutate_one(out, kt, &base, &names, &json!({"op": "set", "at": at, "val": 0}));
            }
            if deep || at % 4 == 0 {
                mutate_one(out, kt, &base, &names, &json!({"op": "trunc", "at": at}));
            }
        }
    }
}

pub fn main(a: &vcommon::Args) {
    match a.get(0) {
        // records of kind "struct" are re-built from their spec (fresh keys); byte mutations cannot be
        // replayed bit-for-bit (fresh certificate) but the same mutation is applied to a fresh one
        "replay" => {
            let recs: Vec<Value> = vcommon::read_ndjson(a.get(1));
            let mut out = Out::create(a.get(2));
            for r in &recs {
                if vcommon::s(r, "kind") == "struct" {
                    structural(&mut out, &r["spec"]);
                } else {
                    let kt = vcommon::s(r, "key");
                    let host = keypair(&kt);
                    let names = [(host.public().to_peer_id(), "H")];
                    let base = certificate::generate(&host).expect("generate").0.as_ref().to_vec();
                    mutate_one(&mut out, &kt, &base, &names, &r["m"]);
                }
            }
            println!("records={}", out.events);
            out.finish();
        }
        // tlscert gen <deep> <seed> <out>
        "gen" => {
            let mut out = Out::create(a.get(3));
            grid(&mut out, a.num(1) > 0, a.num(2));
            mutations(&mut out, a.num(1) > 0);
            println!("records={}", out.events);
            out.finish();
        }
        m => panic!("tlscert mode {m}"),
    }
}
