//! C19 pnet key files: parse(print(k)) = k, and parsing arbitrary text never panics.
//! One record per case: {"kind":"roundtrip","key":hex,"res":"same"|"differs"|"err"|"panic"} or
//! {"kind":"parse","in":text,"res":"ok"|"err"|"panic","stable":bool} (stable: an accepted text
//! re-printed and re-parsed yields the same key).
use std::str::FromStr;

use libp2p_pnet::PreSharedKey;
use rand::Rng;
use vcommon::{json, Out, Value};

fn hex(b: &[u8]) -> String {
    b.iter().map(|x| format!("{x:02x}")).collect()
}
fn unhex(s: &str) -> Vec<u8> {
    (0..s.len() / 2).map(|i| u8::from_str_radix(&s[2 * i..2 * i + 2], 16).unwrap()).collect()
}

fn roundtrip(out: &mut Out, key: [u8; 32]) {
    let r = vcommon::guard(|| {
        let k = PreSharedKey::new(key);
        let text = k.to_key_file();
        let text2 = k.to_string();
        match (PreSharedKey::from_str(&text), PreSharedKey::from_str(&text2)) {
            (Ok(a), Ok(b)) if a == k && b == k => "same",
            (Ok(_), Ok(_)) => "differs",
            _ => "err",
        }
    });
    let res = match r {
        Ok(s) => s.to_string(),
        Err(_) => "panic".to_string(),
    };
    out.ev(json!({"kind": "roundtrip", "key": hex(&key), "res": res}));
}

fn parse(out: &mut Out, text: &str) {
    let r = vcommon::guard(|| match PreSharedKey::from_str(text) {
        Ok(k) => ("ok", PreSharedKey::from_str(&k.to_key_file()).map(|k2| k2 == k).unwrap_or(false)),
        Err(_) => ("err", true),
    });
    let bytelen = text.lines().nth(2).map(|l| l.trim_end().len()).unwrap_or(0);
    match r {
        Ok((res, stable)) => out.ev(json!({"kind": "parse", "in": text, "res": res, "stable": stable, "keyline_bytes": bytelen, "ascii": text.is_ascii()})),
        Err(m) => out.ev(json!({"kind": "parse", "in": text, "res": "panic", "stable": false, "msg": m, "keyline_bytes": bytelen, "ascii": text.is_ascii()})),
    }
}

const HDR: &str = "/key/swarm/psk/1.0.0/\n/base16/\n";

fn generate(out: &mut Out, seed: u64, n: u64) {
    let mut rng = vcommon::rng(seed);
    roundtrip(out, [0u8; 32]);
    roundtrip(out, [0xff; 32]);
    for _ in 0..n {
        let mut k = [0u8; 32];
        rng.fill(&mut k);
        roundtrip(out, k);
    }
    // fixed shapes
    let hexline = "0123456789abcdef".repeat(4);
    let fixed: Vec<String> = vec![
        "".into(),
        "\n".into(),
        "\n\n\n".into(),
        HDR.into(),
        format!("{HDR}{hexline}"),
        format!("{HDR}{hexline}\n"),
        format!("{HDR}{hexline}  \r\n"),
        format!("{HDR}{}\n", &hexline[..63]),
        format!("{HDR}{hexline}0\n"),
        format!("{HDR}{}\n", hexline.to_uppercase()),
        format!("{HDR}{}g\n", &hexline[..63]),
        format!("/key/swarm/psk/2.0.0/\n/base16/\n{hexline}\n"),
        format!("/key/swarm/psk/1.0.0/\n/base64/\n{hexline}\n"),
        format!("{HDR}{}\n", "é".repeat(32)),
        format!("{HDR}{}\n", "€".repeat(21) + "a"),
        format!("{HDR}{}\n", "😀".repeat(16)),
        format!("{HDR}{hexline}\nextra line\n"),
    ];
    for t in &fixed {
        parse(out, t);
    }
    // generated shapes: a key line of byte length 64 (or near) over mixed alphabets
    let alphabets: [&[&str]; 5] = [
        &["0", "1", "9", "a", "f", "A", "F"],
        &["0", "a", "g", "z", " ", "+", "-", "x"],
        &["a", "é", "ß"],
        &["0", "€", "a", "é"],
        &["f", "😀", "é", "0", "€"],
    ];
    for i in 0..n {
        let al = alphabets[(i % 5) as usize];
        let target = [64usize, 64, 64, 63, 65, 32, 128][rng.gen_range(0..7)];
        let mut line = String::new();
        while line.len() < target {
            let c = al[rng.gen_range(0..al.len())];
            if line.len() + c.len() > target {
                if al.iter().all(|x| line.len() + x.len() > target) {
                    break;
                }
                continue;
            }
            line.push_str(c);
        }
        let hdr1 = if rng.gen_bool(0.9) { "/key/swarm/psk/1.0.0/" } else { "/key/swarm/psk/1.0.0" };
        let hdr2 = if rng.gen_bool(0.9) { "/base16/" } else { "/base16" };
        let nl = if rng.gen_bool(0.5) { "\n" } else { "\r\n" };
        parse(out, &format!("{hdr1}{nl}{hdr2}{nl}{line}{nl}"));
    }
    // raw random text
    for _ in 0..n {
        let len = rng.gen_range(0..120);
        let s: String = (0..len)
            .map(|_| match rng.gen_range(0..10) {
                0 => '\n',
                1 => 'é',
                2 => '/',
                3 => '😀',
                _ => rng.gen_range(0x20u8..0x7f) as char,
            })
            .collect();
        parse(out, &s);
    }
}

pub fn main(a: &vcommon::Args) {
    match a.get(0) {
        "replay" => {
            let recs: Vec<Value> = vcommon::read_ndjson(a.get(1));
            let mut out = Out::create(a.get(2));
            for r in &recs {
                if vcommon::s(r, "kind") == "roundtrip" {
                    let k: [u8; 32] = unhex(&vcommon::s(r, "key")).try_into().expect("32 bytes");
                    roundtrip(&mut out, k);
                } else {
                    parse(&mut out, &vcommon::s(r, "in"));
                }
            }
            println!("records={}", out.events);
            out.finish();
        }
        "gen" => {
            let mut out = Out::create(a.get(3));
            generate(&mut out, a.num(1), a.num(2));
            println!("records={}", out.events);
            out.finish();
        }
        m => panic!("psk mode {m}"),
    }
}
