//! Driver for the relay server `Behaviour` (behaviour.rs): admission limits (C47).
mod limits;

fn main() {
    let a = vcommon::Args::parse();
    match a.mode.as_str() {
        "limits" => limits::main(&a),
        m => {
            eprintln!("unknown mode {m}");
            std::process::exit(2)
        }
    }
}
