//! C47: drive the REAL relay `Behaviour` at the NetworkBehaviour interface. The driver plays the
//! Swarm (connection established / closed) and the per-connection relay handlers: inbound HOP
//! requests are real protobuf frames parsed by the handler's real `handle_inbound_request` over a
//! negotiated in-memory stream; the resulting request objects are reported to the behaviour with
//! the handler's events, the behaviour's commands (`NotifyHandler`) are answered the way the
//! handler does (accepted / failed / timed out / closed, as scripted by the schedule).
//!
//! Schedule: {"mr","mrp","mc","mcp","ops":[..]}; peers 0..3, connection j (0..2) of peer p has id 2p+j.
//!   {"a":"conn","p","j"} {"a":"close","p","j"}
//!   {"a":"reserve","p","j","ok":bool}      RESERVE arrives on the connection; ok: the accept reaches the client
//!   {"a":"timeout","p","j"}                the handler's active reservation expires
//!   {"a":"connect","p","j","d"}            CONNECT to peer d arrives on the connection
//!   {"a":"step","i","ok":bool}             next handler step of the i-th circuit in progress (mod count)
//!   {"a":"cclose","i"}                     the i-th established circuit ends (mod count)
//! Trace: stimuli `conn`/`close` and the behaviour's own events (`Event::*`) with the connection /
//! circuit they belong to (see specs/TraceRelay.tla).
use std::time::Duration;

use futures::FutureExt;
use libp2p_core::{muxing::SubstreamBox, ConnectedPoint, Multiaddr};
use libp2p_identity::PeerId;
use libp2p_relay::{
    verif::{self, from_handler, CircuitId, CircuitReq, ToHandler},
    Behaviour, Config, Event,
};
use libp2p_swarm::{
    behaviour::{ConnectionClosed, ConnectionEstablished, FromSwarm},
    derive_prelude::Either,
    ConnectionId, NetworkBehaviour, NotifyHandler, Stream, ToSwarm,
};
use rand::Rng;
use vcommon::{exec::Det, json, pipe, Out, Value};

const NP: usize = 4;

/// A negotiated in-memory stream (real multistream-select over a pipe); returns the relay's end
/// and the control of the pipe (client side = direction 0 writer).
fn stream(det: &Det) -> (Stream, pipe::PipeCtl) {
    let (a, b, ctl) = pipe::pipe(true);
    let d = multistream_select::dialer_select_proto(a, vec!["/libp2p/circuit/relay/0.2.0/hop"], multistream_select::Version::V1);
    let l = multistream_select::listener_select_proto(SubstreamBox::new(b), vec!["/libp2p/circuit/relay/0.2.0/hop"]);
    let mut both = Box::pin(futures::future::join(d, l));
    let (rd, rl) = det.run_until_stalled(both.as_mut(), 1000).expect("negotiation completes");
    let (_, client_io) = rd.expect("dialer");
    let (_, io) = rl.expect("listener");
    // keep the client's end alive: it is only used through `ctl`
    std::mem::forget(client_io);
    (libp2p_swarm::verif::stream(io), ctl)
}

fn hop_reserve() -> Vec<u8> {
    vec![0x02, 0x08, 0x00]
}

fn hop_connect(dst: &PeerId) -> Vec<u8> {
    let id = dst.to_bytes();
    let mut peer = vec![0x0a, id.len() as u8];
    peer.extend_from_slice(&id);
    let mut msg = vec![0x08, 0x01, 0x12, peer.len() as u8];
    msg.extend_from_slice(&peer);
    let mut frame = vec![msg.len() as u8];
    frame.extend_from_slice(&msg);
    frame
}

struct Circ {
    id: CircuitId,
    n: i64, // trace-level circuit number
    s: usize,
    sc: usize,
    d: usize,
    dc: usize,
    req: Option<CircuitReq>,
    stage: u8, // 0 negotiating at dst handler, 1 accepting at src handler, 2 established
}

struct World {
    beh: Behaviour,
    peers: Vec<PeerId>,
    open: Vec<bool>,        // per connection
    active: Vec<bool>,      // handler's active_reservation per connection
    circs: Vec<Circ>,
    next_circ: i64,
    det: Det,
    evs: Vec<Value>,
    /// handler reports (connection, accepted?) not yet delivered to the behaviour: the handler is still writing its response
    deferred: std::collections::VecDeque<(usize, bool)>,
}

fn endpoint(c: usize) -> ConnectedPoint {
    ConnectedPoint::Listener {
        local_addr: "/ip4/10.0.0.1/tcp/4001".parse::<Multiaddr>().unwrap(),
        send_back_addr: format!("/ip4/10.0.1.{}/tcp/{}", c / 2 + 1, 5000 + c).parse::<Multiaddr>().unwrap(),
    }
}

impl World {
    fn pidx(&self, p: &PeerId) -> i64 {
        self.peers.iter().position(|x| x == p).map(|i| i as i64).unwrap_or(-1)
    }

    fn feed(&mut self, c: usize, ev: libp2p_swarm::THandlerOutEvent<Behaviour>) {
        let p = self.peers[c / 2];
        self.beh.on_connection_handler_event(p, ConnectionId::new_unchecked(c), ev);
    }

    /// Drain the behaviour: log its events (attributed to connection `c` / circuit `n` of the
    /// handler event just fed) and return its commands to handlers.
    fn drain(&mut self, c: i64, n: i64) -> Vec<(usize, ToHandler)> {
        let mut cmds = vec![];
        let det = self.det.clone();
        let items = vcommon::exec::drain(&det, 256, |cx| self.beh.poll(cx));
        for it in items {
            match it {
                ToSwarm::GenerateEvent(e) => {
                    #[allow(deprecated)]
                    let v = match e {
                        Event::ReservationReqAccepted { src_peer_id, renewed } => json!({"e": "res_acc", "p": self.pidx(&src_peer_id), "c": c, "renewed": renewed}),
                        Event::ReservationReqAcceptFailed { src_peer_id, .. } => json!({"e": "res_fail", "p": self.pidx(&src_peer_id), "c": c}),
                        Event::ReservationReqDenied { src_peer_id, .. } => json!({"e": "res_den", "p": self.pidx(&src_peer_id), "c": c}),
                        Event::ReservationReqDenyFailed { src_peer_id, .. } => json!({"e": "res_denfail", "p": self.pidx(&src_peer_id), "c": c}),
                        Event::ReservationClosed { src_peer_id } => json!({"e": "res_closed", "p": self.pidx(&src_peer_id), "c": c}),
                        Event::ReservationTimedOut { src_peer_id } => json!({"e": "res_to", "p": self.pidx(&src_peer_id), "c": c}),
                        Event::CircuitReqDenied { src_peer_id, dst_peer_id, .. } => json!({"e": "circ_den", "s": self.pidx(&src_peer_id), "d": self.pidx(&dst_peer_id), "n": n}),
                        Event::CircuitReqDenyFailed { src_peer_id, dst_peer_id, .. } => json!({"e": "circ_denfail", "s": self.pidx(&src_peer_id), "d": self.pidx(&dst_peer_id), "n": n}),
                        Event::CircuitReqAccepted { src_peer_id, dst_peer_id } => json!({"e": "circ_acc", "s": self.pidx(&src_peer_id), "d": self.pidx(&dst_peer_id), "n": n}),
                        Event::CircuitReqOutboundConnectFailed { src_peer_id, dst_peer_id, .. } => json!({"e": "circ_outfail", "s": self.pidx(&src_peer_id), "d": self.pidx(&dst_peer_id), "n": n}),
                        Event::CircuitReqAcceptFailed { src_peer_id, dst_peer_id, .. } => json!({"e": "circ_accfail", "s": self.pidx(&src_peer_id), "d": self.pidx(&dst_peer_id), "n": n}),
                        Event::CircuitClosed { src_peer_id, dst_peer_id, .. } => json!({"e": "circ_closed", "s": self.pidx(&src_peer_id), "d": self.pidx(&dst_peer_id), "n": n}),
                        Event::StatusChanged { .. } => json!({"e": "status"}),
                    };
                    self.evs.push(v);
                }
                ToSwarm::NotifyHandler { handler: NotifyHandler::One(conn), event, .. } => {
                    let conn: usize = format!("{conn}").parse().expect("connection id prints as a number");
                    cmds.push((conn, verif::to_handler(event)));
                }
                _ => {}
            }
        }
        cmds
    }

    fn inbound(&mut self, c: usize, frame: Vec<u8>) -> Option<Either<verif::ReservationReq, CircuitReq>> {
        let (s, ctl) = stream(&self.det);
        ctl.inject(0, &frame);
        let mut fut = verif::handle_inbound_request(s, Duration::from_secs(3600), Duration::from_secs(120), 1 << 17).boxed();
        let _ = c;
        match self.det.run_until_stalled(fut.as_mut(), 1000) {
            Some(Ok(r)) => Some(r),
            Some(Err(e)) => {
                self.evs.push(json!({"e": "driver_parse_error", "msg": e}));
                None
            }
            None => {
                self.evs.push(json!({"e": "driver_parse_stalled"}));
                None
            }
        }
    }

    fn op(&mut self, op: &Value) {
        let a = vcommon::s(op, "a");
        match a.as_str() {
            "conn" => {
                let p = vcommon::n(op, "p") as usize;
                let c = 2 * p + vcommon::n(op, "j") as usize;
                if self.open[c] {
                    return;
                }
                self.open[c] = true;
                self.active[c] = false;
                let ep = endpoint(c);
                let other = if self.open[c ^ 1] { 1 } else { 0 };
                self.beh.on_swarm_event(FromSwarm::ConnectionEstablished(ConnectionEstablished {
                    peer_id: self.peers[p],
                    connection_id: ConnectionId::new_unchecked(c),
                    endpoint: &ep,
                    failed_addresses: &[],
                    other_established: other,
                }));
                self.evs.push(json!({"e": "conn", "p": p, "c": c}));
                self.drain(c as i64, -1);
            }
            "close" => {
                let p = vcommon::n(op, "p") as usize;
                let c = 2 * p + vcommon::n(op, "j") as usize;
                if !self.open[c] {
                    return;
                }
                self.open[c] = false;
                self.active[c] = false;
                // the handler dies with its connection: a report it had not delivered yet never arrives
                self.deferred.retain(|(x, _)| *x != c);
                let ep = endpoint(c);
                let rem = if self.open[c ^ 1] { 1 } else { 0 };
                self.evs.push(json!({"e": "close", "p": p, "c": c}));
                self.beh.on_swarm_event(FromSwarm::ConnectionClosed(ConnectionClosed {
                    peer_id: self.peers[p],
                    connection_id: ConnectionId::new_unchecked(c),
                    endpoint: &ep,
                    cause: None,
                    remaining_established: rem,
                }));
                // the circuits through this connection die with it (their handlers / streams are gone)
                self.circs.retain(|x| x.sc != c && x.dc != c);
                self.drain(c as i64, -1);
            }
            "reserve" => {
                let p = vcommon::n(op, "p") as usize;
                let c = 2 * p + vcommon::n(op, "j") as usize;
                if !self.open[c] {
                    return;
                }
                let ok = vcommon::b(op, "ok");
                if self.deferred.iter().any(|(x, _)| *x == c) {
                    return; // one request at a time per connection handler
                }
                let Some(Either::Left(req)) = self.inbound(c, hop_reserve()) else { return };
                self.evs.push(json!({"e": "reserve", "p": p, "c": c, "renewed": self.active[c]}));
                self.feed(c, from_handler::reservation_req_received(req, endpoint(c), self.active[c]));
                for (to, cmd) in self.drain(c as i64, -1) {
                    match cmd {
                        ToHandler::AcceptReservationReq { .. } => {
                            assert_eq!(to, c);
                            if op.get("defer").and_then(|x| x.as_bool()).unwrap_or(false) {
                                // the handler has not reported back yet (it is still writing the response); further requests
                                // may reach the behaviour in the meantime (seeded mutant C47-1: check-then-act on the limits)
                                self.deferred.push_back((c, ok));
                            } else if ok {
                                let renewed = self.active[c];
                                self.active[c] = true;
                                self.feed(c, from_handler::reservation_req_accepted(renewed));
                            } else {
                                self.feed(c, from_handler::reservation_req_accept_failed());
                            }
                        }
                        ToHandler::DenyReservationReq { .. } => {
                            self.feed(c, from_handler::reservation_req_denied());
                        }
                        _ => {}
                    }
                    self.drain(c as i64, -1);
                }
            }
            "report" => {
                // one deferred handler report reaches the behaviour
                if let Some((c, ok)) = self.deferred.pop_front() {
                    if !self.open[c] {
                        return;
                    }
                    if ok {
                        let renewed = self.active[c];
                        self.active[c] = true;
                        self.feed(c, from_handler::reservation_req_accepted(renewed));
                    } else {
                        self.feed(c, from_handler::reservation_req_accept_failed());
                    }
                    self.drain(c as i64, -1);
                }
            }
            "timeout" => {
                let p = vcommon::n(op, "p") as usize;
                let c = 2 * p + vcommon::n(op, "j") as usize;
                if !self.open[c] || !self.active[c] || self.deferred.iter().any(|(x, _)| *x == c) {
                    return; // (a handler does not time a reservation out while it is writing the response to its renewal)
                }
                self.active[c] = false;
                self.feed(c, from_handler::reservation_timed_out());
                self.drain(c as i64, -1);
            }
            "connect" => {
                let p = vcommon::n(op, "p") as usize;
                let c = 2 * p + vcommon::n(op, "j") as usize;
                let d = vcommon::n(op, "d") as usize;
                if !self.open[c] || d == p {
                    return;
                }
                let dst = self.peers[d];
                let Some(Either::Right(req)) = self.inbound(c, hop_connect(&dst)) else { return };
                assert_eq!(req.dst(), dst);
                let n = self.next_circ;
                self.next_circ += 1;
                self.evs.push(json!({"e": "connect", "s": p, "sc": c, "d": d, "n": n}));
                self.feed(c, from_handler::circuit_req_received(req, endpoint(c)));
                for (to, cmd) in self.drain(c as i64, n) {
                    match cmd {
                        ToHandler::DenyCircuitReq { circuit_id, .. } => {
                            self.feed(to, from_handler::circuit_req_denied(circuit_id, dst));
                            self.drain(c as i64, n);
                        }
                        ToHandler::NegotiateOutboundConnect { circuit_id, inbound_circuit_req, src_peer_id, src_connection_id } => {
                            assert_eq!(src_peer_id, self.peers[p]);
                            assert_eq!(src_connection_id, ConnectionId::new_unchecked(c));
                            self.evs.push(json!({"e": "circ_adm", "n": n, "s": p, "sc": c, "d": d, "dc": to}));
                            self.circs.push(Circ { id: circuit_id, n, s: p, sc: c, d, dc: to, req: Some(inbound_circuit_req), stage: 0 });
                        }
                        _ => {}
                    }
                }
            }
            "step" => {
                let pending: Vec<usize> = (0..self.circs.len()).filter(|i| self.circs[*i].stage < 2).collect();
                if pending.is_empty() {
                    return;
                }
                let i = pending[vcommon::n(op, "i") as usize % pending.len()];
                let ok = vcommon::b(op, "ok");
                let (id, n, s, sc, d, dc, stage) = {
                    let x = &self.circs[i];
                    (x.id, x.n, x.s, x.sc, x.d, x.dc, x.stage)
                };
                if stage == 0 {
                    let req = self.circs[i].req.take().expect("request object with the dst handler");
                    if ok {
                        let (st, _ctl) = stream(&self.det);
                        self.feed(dc, from_handler::outbound_connect_negotiated(id, self.peers[s], ConnectionId::new_unchecked(sc), req, st));
                    } else {
                        self.feed(dc, from_handler::outbound_connect_negotiation_failed(id, self.peers[s], ConnectionId::new_unchecked(sc), req));
                    }
                    for (to, cmd) in self.drain(dc as i64, n) {
                        match cmd {
                            ToHandler::AcceptAndDriveCircuit { circuit_id, inbound_circuit_req, .. } => {
                                assert_eq!(to, sc);
                                assert_eq!(circuit_id, id);
                                self.circs[i].req = Some(inbound_circuit_req);
                                self.circs[i].stage = 1;
                            }
                            ToHandler::DenyCircuitReq { circuit_id, .. } => {
                                // the src handler denies the request and reports it
                                self.feed(to, from_handler::circuit_req_denied(circuit_id, self.peers[d]));
                                self.drain(sc as i64, n);
                            }
                            _ => {}
                        }
                    }
                    if self.circs[i].stage == 0 {
                        self.circs.remove(i);
                    }
                } else {
                    self.circs[i].req = None;
                    if ok {
                        self.circs[i].stage = 2;
                        self.feed(sc, from_handler::circuit_req_accepted(id, self.peers[d]));
                        self.evs.push(json!({"e": "circ_up", "n": n, "s": s, "sc": sc, "d": d, "dc": dc}));
                    } else {
                        self.circs.remove(i);
                        self.feed(sc, from_handler::circuit_req_accept_failed(id, self.peers[d]));
                    }
                    self.drain(sc as i64, n);
                }
            }
            "cclose" => {
                let est: Vec<usize> = (0..self.circs.len()).filter(|i| self.circs[*i].stage == 2).collect();
                if est.is_empty() {
                    return;
                }
                let i = est[vcommon::n(op, "i") as usize % est.len()];
                let x = self.circs.remove(i);
                self.feed(x.sc, from_handler::circuit_closed(x.id, self.peers[x.d], false));
                self.drain(x.sc as i64, x.n);
            }
            x => panic!("op {x}"),
        }
    }
}

fn run(out: &mut Out, sched: &Value, peers: &[PeerId], local: PeerId) {
    let mr = vcommon::n(sched, "mr") as usize;
    let mrp = vcommon::n(sched, "mrp") as usize;
    let mc = vcommon::n(sched, "mc") as usize;
    let mcp = vcommon::n(sched, "mcp") as usize;
    out.reset_with(json!({"mr": mr, "mrp": mrp, "mc": mc, "mcp": mcp}), sched);
    let mut cfg = Config::default();
    cfg.reservation_rate_limiters.clear();
    cfg.circuit_src_rate_limiters.clear();
    cfg.max_reservations = mr;
    cfg.max_reservations_per_peer = mrp;
    cfg.max_circuits = mc;
    cfg.max_circuits_per_peer = mcp;
    let mut w = World {
        beh: Behaviour::new(local, cfg),
        peers: peers.to_vec(),
        open: vec![false; 2 * NP],
        active: vec![false; 2 * NP],
        circs: vec![],
        next_circ: 1,
        det: Det::new(),
        evs: vec![],
        deferred: Default::default(),
    };
    for op in sched["ops"].as_array().unwrap() {
        let r = vcommon::guard(|| w.op(op));
        for e in w.evs.drain(..) {
            out.ev(e);
        }
        if let Err(m) = r {
            out.ev(json!({"e": "panic", "msg": m}));
            break;
        }
    }
    while !w.deferred.is_empty() {
        let r = vcommon::guard(|| w.op(&json!({"a": "report"})));
        for e in w.evs.drain(..) {
            out.ev(e);
        }
        if r.is_err() {
            break;
        }
    }
}

fn random_sched(rng: &mut impl Rng) -> Value {
    let mrp = rng.gen_range(1..=2);
    let mr = rng.gen_range(1..=4);
    let mcp = rng.gen_range(1..=2);
    let mc = rng.gen_range(1..=4);
    let np = rng.gen_range(2..=NP);
    let mut ops = vec![];
    // most runs start with every connection up
    for p in 0..np {
        for j in 0..2 {
            if rng.gen_bool(0.85) {
                ops.push(json!({"a": "conn", "p": p, "j": j}));
            }
        }
    }
    // usually some reservations exist before circuits are requested
    for p in 0..np {
        for j in 0..2 {
            if rng.gen_bool(0.5) {
                ops.push(json!({"a": "reserve", "p": p, "j": j, "ok": true}));
            }
        }
    }
    let len = rng.gen_range(6..=40);
    for _ in 0..len {
        let x = rng.gen_range(0..100);
        let p = rng.gen_range(0..np);
        let j = rng.gen_range(0..2);
        let op = if x < 20 {
            json!({"a": "reserve", "p": p, "j": j, "ok": rng.gen_bool(0.9), "defer": rng.gen_bool(0.4)})
        } else if x < 24 {
            json!({"a": "report"})
        } else if x < 50 {
            json!({"a": "connect", "p": p, "j": j, "d": rng.gen_range(0..np)})
        } else if x < 82 {
            json!({"a": "step", "i": rng.gen_range(0..4), "ok": rng.gen_bool(0.92)})
        } else if x < 88 {
            json!({"a": "cclose", "i": rng.gen_range(0..4)})
        } else if x < 92 {
            json!({"a": "timeout", "p": p, "j": j})
        } else if x < 96 {
            json!({"a": "close", "p": p, "j": j})
        } else {
            json!({"a": "conn", "p": p, "j": j})
        };
        ops.push(op);
    }
    json!({"mr": mr, "mrp": mrp, "mc": mc, "mcp": mcp, "ops": ops})
}

pub fn main(a: &vcommon::Args) {
    vcommon::quiet_panics();
    let peers: Vec<PeerId> = (0..NP).map(|_| PeerId::random()).collect();
    let local = PeerId::random();
    match a.get(0) {
        "replay" => {
            let scheds = vcommon::read_schedules(a.get(1));
            let mut out = Out::create(a.get(2));
            for s in &scheds {
                run(&mut out, s, &peers, local);
            }
            println!("runs={} events={}", out.run, out.events);
            out.finish();
        }
        // exhaustive: all connections of 3 peers up, then every op sequence of length n over a fixed alphabet
        "exhaustive" => {
            let n = a.num(1) as usize;
            let mut out = Out::create(a.get(2));
            let mut alpha: Vec<Value> = vec![];
            for (p, j) in [(0, 0), (0, 1), (1, 0)] {
                alpha.push(json!({"a": "reserve", "p": p, "j": j, "ok": true}));
            }
            for (p, j, d) in [(1, 0, 0), (2, 0, 0), (2, 1, 0), (2, 0, 1), (0, 0, 1)] {
                alpha.push(json!({"a": "connect", "p": p, "j": j, "d": d}));
            }
            alpha.push(json!({"a": "step", "i": 0, "ok": true}));
            alpha.push(json!({"a": "step", "i": 1, "ok": true}));
            alpha.push(json!({"a": "cclose", "i": 0}));
            alpha.push(json!({"a": "timeout", "p": 0, "j": 0}));
            alpha.push(json!({"a": "close", "p": 0, "j": 1}));
            // requests whose handler report is still outstanding, and the report
            alpha.push(json!({"a": "reserve", "p": 1, "j": 1, "ok": true, "defer": true}));
            alpha.push(json!({"a": "reserve", "p": 2, "j": 0, "ok": true, "defer": true}));
            alpha.push(json!({"a": "report"}));
            let k = alpha.len();
            for (mr, mrp, mc, mcp) in [(2usize, 1usize, 2usize, 1usize), (3, 2, 3, 2)] {
                for code in 0..k.pow(n as u32) {
                    let mut c = code;
                    let mut ops: Vec<Value> = vec![];
                    for p in 0..3 {
                        for j in 0..2 {
                            ops.push(json!({"a": "conn", "p": p, "j": j}));
                        }
                    }
                    for _ in 0..n {
                        ops.push(alpha[c % k].clone());
                        c /= k;
                    }
                    let s = json!({"mr": mr, "mrp": mrp, "mc": mc, "mcp": mcp, "ops": ops});
                    run(&mut out, &s, &peers, local);
                }
            }
            println!("runs={} events={}", out.run, out.events);
            out.finish();
        }
        "random" => {
            let seed = a.num(1);
            let runs = a.num(2);
            let mut out = Out::create(a.get(3));
            let mut rng = vcommon::rng(seed.wrapping_mul(7919).wrapping_add(47));
            for _ in 0..runs {
                let s = random_sched(&mut rng);
                run(&mut out, &s, &peers, local);
            }
            println!("runs={} events={}", out.run, out.events);
            out.finish();
        }
        m => {
            eprintln!("unknown sub-mode {m}");
            std::process::exit(2)
        }
    }
}
