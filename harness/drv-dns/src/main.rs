//! C23: the REAL `libp2p_dns::Transport::dial` around a scripted resolver (hickory `Lookup` values built
//! here) and a recording inner transport.
//!
//! Schedule: {"dial":[comp..], "zone":[entry..], "inner":[outcome..]}
//!   comp    = [kind, val]: ["dnsaddr"|"dns"|"dns4"|"dns6", name idx] ["ip4"|"ip6", k] ["tcp", port] ["p2p", peer idx]
//!   entry   = {"n":name idx,"t":"txt"|"a"|"aaaa"|"ip","k":"ans"|"err","recs":[rec..]}     (no entry => NoRecordsFound error)
//!   rec     = ["a",k] | ["aaaa",k] | ["cname",name idx] | ["txt",[comp..]] | ["txtraw","text"] | ["arange",start,count]
//!   outcome = "refused" (inner.dial returns MultiaddrNotSupported) | "failed" | "ok"; call i uses inner[min(i, len-1)]
//! Trace: {"e":"lookup","t":..,"n":idx,"ips":[comp..],"txts":[[comp..]..]}   what the resolver served (ground truth)
//!        {"e":"innerDial","addr":[comp..],"res":"accepted"|"refused"}
//!        {"e":"done","res":"ok"|"err","err":kind}   {"e":"panic","msg":..}
use std::{
    net::{Ipv4Addr, Ipv6Addr},
    pin::Pin,
    str::FromStr,
    sync::{Arc, Mutex},
    task::{Context, Poll},
};

use futures::future::BoxFuture;
use libp2p_core::{
    multiaddr::{Multiaddr, Protocol},
    transport::{DialOpts, ListenerId, PortUse, TransportError, TransportEvent},
    Endpoint, Transport,
};
use libp2p_dns::verif::{
    hickory_resolver::{
        lookup::Lookup,
        lookup_ip::LookupIp,
        proto::{
            op::Query,
            rr::{
                rdata::{A, AAAA, CNAME, TXT},
                Name, RData, Record, RecordType,
            },
        },
    },
    Resolver,
};
use libp2p_dns::ResolveError;
use libp2p_identity::PeerId;
use rand::Rng;
use vcommon::{exec::Det, json, Out, Value};

type Log = Arc<Mutex<Vec<Value>>>;

fn ip4(k: i64) -> Ipv4Addr {
    Ipv4Addr::new(10, 0, (k / 256) as u8, (k % 256) as u8)
}
fn ip6(k: i64) -> Ipv6Addr {
    Ipv6Addr::new(0xfd00, 0, 0, 0, 0, 0, (k / 65536) as u16, (k % 65536) as u16)
}
fn host(i: i64) -> String {
    format!("n{i}.test")
}
fn host_idx(s: &str) -> i64 {
    s.trim_end_matches('.').strip_prefix('n').and_then(|r| r.strip_suffix(".test")).and_then(|n| n.parse().ok()).unwrap_or(-1)
}

struct World {
    peers: Vec<PeerId>,
}

impl World {
    fn addr(&self, comps: &Value) -> Multiaddr {
        let mut m = Multiaddr::empty();
        for c in comps.as_array().unwrap() {
            let k = c[0].as_str().unwrap();
            let v = c[1].as_i64().unwrap();
            m.push(match k {
                "dnsaddr" => Protocol::Dnsaddr(host(v).into()),
                "dns" => Protocol::Dns(host(v).into()),
                "dns4" => Protocol::Dns4(host(v).into()),
                "dns6" => Protocol::Dns6(host(v).into()),
                "ip4" => Protocol::Ip4(ip4(v)),
                "ip6" => Protocol::Ip6(ip6(v)),
                "tcp" => Protocol::Tcp(v as u16),
                "udp" => Protocol::Udp(v as u16),
                "p2p" => Protocol::P2p(self.peers[v as usize]),
                x => panic!("driver: comp kind {x}"),
            });
        }
        m
    }
    fn abs(&self, m: &Multiaddr) -> Value {
        Value::Array(
            m.iter()
                .map(|p| match p {
                    Protocol::Dnsaddr(h) => json!(["dnsaddr", host_idx(&h)]),
                    Protocol::Dns(h) => json!(["dns", host_idx(&h)]),
                    Protocol::Dns4(h) => json!(["dns4", host_idx(&h)]),
                    Protocol::Dns6(h) => json!(["dns6", host_idx(&h)]),
                    Protocol::Ip4(a) => {
                        let o = a.octets();
                        json!(["ip4", if o[0] == 10 && o[1] == 0 { o[2] as i64 * 256 + o[3] as i64 } else { -1 }])
                    }
                    Protocol::Ip6(a) => {
                        let s = a.segments();
                        json!(["ip6", if s[0] == 0xfd00 { s[6] as i64 * 65536 + s[7] as i64 } else { -1 }])
                    }
                    Protocol::Tcp(p) => json!(["tcp", p]),
                    Protocol::Udp(p) => json!(["udp", p]),
                    Protocol::P2p(id) => json!(["p2p", self.peers.iter().position(|x| *x == id).map(|i| i as i64).unwrap_or(-1)]),
                    other => json!([format!("other:{other}"), -1]),
                })
                .collect(),
        )
    }
}

const CUTOFF: usize = 120;

#[derive(Clone)]
struct MockResolver {
    /// number of lookups served; past CUTOFF every lookup fails, so that a dial whose lookups are NOT bounded by
    /// the code still ends (the trace then shows far more than 32 lookups)
    served: Arc<Mutex<usize>>,
    zone: Arc<Vec<Value>>,
    log: Log,
    world: Arc<World>,
}

impl MockResolver {
    fn answer(&self, name: String, t: &str, rt: RecordType) -> Result<Lookup, ResolveError> {
        let bare = name.strip_prefix("_dnsaddr.").unwrap_or(&name).to_string();
        let idx = host_idx(&bare);
        let qname = Name::from_str(&format!("{}.", name.trim_end_matches('.'))).unwrap_or_else(|_| Name::root());
        let n_served = {
            let mut g = self.served.lock().unwrap();
            *g += 1;
            *g
        };
        let entry = if n_served > CUTOFF { None } else { self.zone.iter().find(|e| e["n"].as_i64() == Some(idx) && e["t"].as_str() == Some(t)) };
        let mut ips = vec![];
        let mut txts = vec![];
        let res = match entry {
            None => Err(ResolveError::from("no records found (scripted)")),
            Some(e) if e["k"].as_str() == Some("err") => Err(ResolveError::from("resolver error (scripted)")),
            Some(e) => {
                let mut records = vec![];
                for r in e["recs"].as_array().cloned().unwrap_or_default() {
                    match r[0].as_str().unwrap() {
                        "a" => {
                            let k = r[1].as_i64().unwrap();
                            records.push(Record::from_rdata(qname.clone(), 60, RData::A(A(ip4(k)))));
                            ips.push(json!(["ip4", k]));
                        }
                        "arange" => {
                            for k in r[1].as_i64().unwrap()..r[1].as_i64().unwrap() + r[2].as_i64().unwrap() {
                                records.push(Record::from_rdata(qname.clone(), 60, RData::A(A(ip4(k)))));
                                ips.push(json!(["ip4", k]));
                            }
                        }
                        "aaaa" => {
                            let k = r[1].as_i64().unwrap();
                            records.push(Record::from_rdata(qname.clone(), 60, RData::AAAA(AAAA(ip6(k)))));
                            ips.push(json!(["ip6", k]));
                        }
                        "cname" => {
                            let target = Name::from_str(&format!("{}.", host(r[1].as_i64().unwrap()))).unwrap();
                            records.push(Record::from_rdata(qname.clone(), 60, RData::CNAME(CNAME(target))));
                        }
                        "txt" => {
                            let a = self.world.addr(&r[1]);
                            records.push(Record::from_rdata(qname.clone(), 60, RData::TXT(TXT::new(vec![format!("dnsaddr={a}")]))));
                            txts.push(r[1].clone());
                        }
                        "txtraw" => {
                            records.push(Record::from_rdata(qname.clone(), 60, RData::TXT(TXT::new(vec![r[1].as_str().unwrap().to_string()]))));
                        }
                        "txtempty" => {
                            records.push(Record::from_rdata(qname.clone(), 60, RData::TXT(TXT::new(vec![]))));
                        }
                        x => panic!("driver: record kind {x}"),
                    }
                }
                Ok(Lookup::new_with_max_ttl(Query::query(qname.clone(), rt), records))
            }
        };
        self.log.lock().unwrap().push(json!({"e": "lookup", "t": t, "n": idx, "pref": name.starts_with("_dnsaddr."),
            "ok": res.is_ok(), "ips": ips, "txts": txts}));
        res
    }
}

impl Resolver for MockResolver {
    async fn lookup_ip(&self, name: String) -> Result<LookupIp, ResolveError> {
        self.answer(name, "ip", RecordType::A).map(LookupIp::from)
    }
    async fn ipv4_lookup(&self, name: String) -> Result<Lookup, ResolveError> {
        self.answer(name, "a", RecordType::A)
    }
    async fn ipv6_lookup(&self, name: String) -> Result<Lookup, ResolveError> {
        self.answer(name, "aaaa", RecordType::AAAA)
    }
    async fn txt_lookup(&self, name: String) -> Result<Lookup, ResolveError> {
        self.answer(name, "txt", RecordType::TXT)
    }
}

struct Recorder {
    log: Log,
    world: Arc<World>,
    outcomes: Vec<String>,
    calls: usize,
}

impl Transport for Recorder {
    type Output = ();
    type Error = std::io::Error;
    type ListenerUpgrade = BoxFuture<'static, Result<(), std::io::Error>>;
    type Dial = BoxFuture<'static, Result<(), std::io::Error>>;

    fn listen_on(&mut self, _: ListenerId, a: Multiaddr) -> Result<(), TransportError<Self::Error>> {
        Err(TransportError::MultiaddrNotSupported(a))
    }
    fn remove_listener(&mut self, _: ListenerId) -> bool {
        false
    }
    fn dial(&mut self, addr: Multiaddr, _: DialOpts) -> Result<Self::Dial, TransportError<Self::Error>> {
        let o = self.outcomes[self.calls.min(self.outcomes.len() - 1)].clone();
        self.calls += 1;
        let abs = self.world.abs(&addr);
        match o.as_str() {
            "refused" => {
                self.log.lock().unwrap().push(json!({"e": "innerDial", "addr": abs, "res": "refused"}));
                Err(TransportError::MultiaddrNotSupported(addr))
            }
            "failed" => {
                self.log.lock().unwrap().push(json!({"e": "innerDial", "addr": abs, "res": "accepted"}));
                Ok(Box::pin(async { Err(std::io::Error::other("scripted dial failure")) }))
            }
            _ => {
                self.log.lock().unwrap().push(json!({"e": "innerDial", "addr": abs, "res": "accepted"}));
                Ok(Box::pin(async { Ok(()) }))
            }
        }
    }
    fn poll(self: Pin<&mut Self>, _: &mut Context<'_>) -> Poll<TransportEvent<Self::ListenerUpgrade, Self::Error>> {
        Poll::Pending
    }
}

fn err_kind<E>(e: &libp2p_dns::Error<E>) -> &'static str {
    match e {
        libp2p_dns::Error::Transport(_) => "Transport",
        libp2p_dns::Error::ResolveError(_) => "ResolveError",
        libp2p_dns::Error::MultiaddrNotSupported(_) => "MultiaddrNotSupported",
        libp2p_dns::Error::TooManyLookups => "TooManyLookups",
        libp2p_dns::Error::Dial(_) => "Dial",
    }
}

fn run(out: &mut Out, sched: &Value, w: &Arc<World>) {
    out.reset(sched);
    let log: Log = Arc::new(Mutex::new(vec![]));
    let zone: Vec<Value> = sched["zone"].as_array().cloned().unwrap_or_default();
    let outcomes: Vec<String> = sched["inner"].as_array().map(|l| l.iter().map(|x| x.as_str().unwrap().to_string()).collect()).unwrap_or_else(|| vec!["failed".into()]);
    let resolver = MockResolver { served: Arc::new(Mutex::new(0)), zone: Arc::new(zone), log: log.clone(), world: w.clone() };
    let inner = Recorder { log: log.clone(), world: w.clone(), outcomes, calls: 0 };
    let mut t = libp2p_dns::verif::with_resolver(inner, resolver);
    let addr = w.addr(&sched["dial"]);
    let det = Det::new();
    let r = vcommon::guard(|| {
        let fut = t.dial(addr, DialOpts { role: Endpoint::Dialer, port_use: PortUse::Reuse });
        match fut {
            Err(e) => json!({"e": "done", "res": "err", "err": format!("sync:{e}")}),
            Ok(f) => {
                let mut f = Box::pin(f);
                match det.run_until_stalled(f.as_mut(), 100000) {
                    None => json!({"e": "done", "res": "stalled"}),
                    Some(Ok(())) => json!({"e": "done", "res": "ok"}),
                    Some(Err(e)) => {
                        let n = if let libp2p_dns::Error::Dial(v) = &e { v.len() } else { 1 };
                        json!({"e": "done", "res": "err", "err": err_kind(&e), "nerr": n})
                    }
                }
            }
        }
    });
    for ev in log.lock().unwrap().drain(..) {
        out.ev(ev);
    }
    match r {
        Ok(v) => out.ev(v),
        Err(m) => out.ev(json!({"e": "panic", "msg": m})),
    }
}

/// hand-written stress / corner-case schedules (real limits 32 / 16 / 16 are exceeded by the DATA, never by the code)
fn stress() -> Vec<Value> {
    let mut v = vec![];
    let sfx = json!(["p2p", 1]);
    for inner in [json!(["failed"]), json!(["refused"]), json!(["failed", "failed", "refused", "failed"])] {
        // self cycle, 2-cycle, long chain of /dnsaddr
        v.push(json!({"dial": [["dnsaddr", 0], sfx], "zone": [{"n": 0, "t": "txt", "k": "ans", "recs": [["txt", [["dnsaddr", 0], sfx]]]}], "inner": inner}));
        v.push(json!({"dial": [["dnsaddr", 0], sfx], "zone": [
            {"n": 0, "t": "txt", "k": "ans", "recs": [["txt", [["dnsaddr", 1], sfx]], ["txt", [["ip4", 1], ["tcp", 1], sfx]]]},
            {"n": 1, "t": "txt", "k": "ans", "recs": [["txt", [["dnsaddr", 0], sfx]], ["txt", [["ip4", 2], ["tcp", 1], sfx]]]}], "inner": inner}));
        let chain: Vec<Value> = (0..40).map(|i| json!({"n": i, "t": "txt", "k": "ans", "recs": [["txt", [["dnsaddr", i + 1], sfx]], ["txt", [["ip4", i], ["tcp", 1], sfx]]]})).collect();
        v.push(json!({"dial": [["dnsaddr", 0], sfx], "zone": chain, "inner": inner}));
        // fan-out: 20 TXT entries -> 20 hosts with 3 A records each; binary tree of dnsaddr
        let mut zone = vec![json!({"n": 0, "t": "txt", "k": "ans", "recs": (1..=20).map(|j| json!(["txt", [["dns4", j], ["tcp", 1], sfx]])).collect::<Vec<_>>()})];
        for j in 1..=20 {
            zone.push(json!({"n": j, "t": "a", "k": "ans", "recs": [["arange", j * 10, 3]]}));
        }
        v.push(json!({"dial": [["dnsaddr", 0], sfx], "zone": zone, "inner": inner}));
        let tree: Vec<Value> = (0..40).map(|i| json!({"n": i, "t": "txt", "k": "ans", "recs": [["txt", [["dnsaddr", 2 * i + 1], sfx]], ["txt", [["dnsaddr", 2 * i + 2], sfx]], ["txt", [["ip4", i], ["tcp", 1], sfx]]]})).collect();
        v.push(json!({"dial": [["dnsaddr", 0], sfx], "zone": tree, "inner": inner}));
        // wide answers for each host kind
        for (kind, t, rec) in [("dns4", "a", "a"), ("dns6", "aaaa", "aaaa"), ("dns", "ip", "a")] {
            let recs: Vec<Value> = (1..=40).map(|k| json!([rec, k])).collect();
            v.push(json!({"dial": [[kind, 0], ["tcp", 7]], "zone": [{"n": 0, "t": t, "k": "ans", "recs": recs}], "inner": inner}));
        }
        // foreign suffix / no suffix / longer suffix entries
        v.push(json!({"dial": [["dnsaddr", 0], sfx], "zone": [{"n": 0, "t": "txt", "k": "ans", "recs": [
            ["txt", [["ip4", 1], ["tcp", 1], ["p2p", 2]]], ["txt", [["ip4", 2], ["tcp", 1]]], ["txt", [["ip4", 3], ["tcp", 1], sfx]],
            ["txt", [["ip4", 4], ["tcp", 1], ["p2p", 2], sfx]], ["txtraw", "garbage"], ["txtraw", "dnsaddr=not-a-multiaddr"], ["txtempty"]]}], "inner": inner}));
        v.push(json!({"dial": [["ip4", 9], ["tcp", 1], ["dnsaddr", 0], ["tcp", 5], sfx], "zone": [{"n": 0, "t": "txt", "k": "ans", "recs": [
            ["txt", [["ip4", 1], ["tcp", 5], sfx]], ["txt", [["ip4", 2], ["tcp", 6], sfx]], ["txt", [["dns4", 3], ["tcp", 5], sfx]]]},
            {"n": 3, "t": "a", "k": "ans", "recs": [["a", 33], ["a", 34]]}], "inner": inner}));
    }
    // empty / partial answers for every query type
    for (kind, t) in [("dns", "ip"), ("dns4", "a"), ("dns6", "aaaa"), ("dnsaddr", "txt")] {
        for recs in [json!([]), json!([["cname", 5]]), json!([["aaaa", 1]]), json!([["a", 1]]), json!([["txtraw", "x"]]), json!([["cname", 5], ["a", 2]])] {
            v.push(json!({"dial": [[kind, 0], ["tcp", 1]], "zone": [{"n": 0, "t": t, "k": "ans", "recs": recs}], "inner": ["failed"]}));
            v.push(json!({"dial": [["dnsaddr", 9], ["p2p", 1]], "zone": [
                {"n": 9, "t": "txt", "k": "ans", "recs": [["txt", [[kind, 0], ["tcp", 1], ["p2p", 1]]], ["txt", [["ip4", 7], ["tcp", 1], ["p2p", 1]]]]},
                {"n": 0, "t": t, "k": "ans", "recs": recs}], "inner": ["failed"]}));
        }
        v.push(json!({"dial": [[kind, 0], ["tcp", 1]], "zone": [{"n": 0, "t": t, "k": "err"}], "inner": ["ok"]}));
        v.push(json!({"dial": [[kind, 0], ["tcp", 1]], "zone": [], "inner": ["ok"]}));
    }
    // /dnsaddr cycles through host names without any address record (nothing is ever dialed, so only the lookup
    // bound ends the dial); k /dns names, j /dns4 names and i /dns6 names per round: the lookup counter passes
    // through every residue
    for k in 0..=3i64 {
        for j in 0..=2i64 {
            for i in 0..=1i64 {
                for back in [true, false] {
                    let mut recs = vec![];
                    let cyc = json!(["txt", [["dnsaddr", 0], sfx_all()]]);
                    if !back {
                        recs.push(cyc.clone());
                    }
                    for x in 0..k {
                        recs.push(json!(["txt", [["dns", 10 + x], ["tcp", 1], sfx_all()]]));
                    }
                    for x in 0..j {
                        recs.push(json!(["txt", [["dns4", 20 + x], ["tcp", 1], sfx_all()]]));
                    }
                    for x in 0..i {
                        recs.push(json!(["txt", [["dns6", 30 + x], ["tcp", 1], sfx_all()]]));
                    }
                    if back {
                        recs.push(cyc);
                    }
                    v.push(json!({"dial": [["dnsaddr", 0], sfx_all()], "zone": [{"n": 0, "t": "txt", "k": "ans", "recs": recs}], "inner": ["failed"]}));
                }
            }
        }
    }
    // TXT entries that are a bare /dnsaddr indirection or a bare address (no suffix at all) behind a dial with a
    // /p2p suffix: nothing reached through them may be dialed
    for inner in [json!(["failed"]), json!(["ok"])] {
        v.push(json!({"dial": [["dnsaddr", 0], sfx_all()], "zone": [
            {"n": 0, "t": "txt", "k": "ans", "recs": [["txt", [["dnsaddr", 1]]], ["txt", [["dnsaddr", 2], ["p2p", 2]]]]},
            {"n": 1, "t": "txt", "k": "ans", "recs": [["txt", [["ip4", 1], ["tcp", 1], ["p2p", 2]]], ["txt", [["ip4", 2], ["tcp", 1], sfx_all()]], ["txt", [["ip4", 3], ["tcp", 1]]]]},
            {"n": 2, "t": "txt", "k": "ans", "recs": [["txt", [["ip4", 4], ["tcp", 1], ["p2p", 2]]], ["txt", [["ip4", 5], ["tcp", 1], sfx_all()]]]}], "inner": inner}));
        v.push(json!({"dial": [["dnsaddr", 0], ["tcp", 9], sfx_all()], "zone": [
            {"n": 0, "t": "txt", "k": "ans", "recs": [["txt", [["dns4", 1]]], ["txt", [["dnsaddr", 1]]], ["txt", [["ip4", 7]]]]},
            {"n": 1, "t": "a", "k": "ans", "recs": [["a", 8]]},
            {"n": 1, "t": "txt", "k": "ans", "recs": [["txt", [["ip4", 6], ["tcp", 9], sfx_all()]], ["txt", [["ip4", 6], ["tcp", 8], sfx_all()]]]}], "inner": inner}));
    }
    // several DNS components in one address, no DNS component at all
    v.push(json!({"dial": [["dns4", 0], ["tcp", 1], ["dns6", 1], ["tcp", 2]], "zone": [
        {"n": 0, "t": "a", "k": "ans", "recs": [["a", 1], ["a", 2]]}, {"n": 1, "t": "aaaa", "k": "ans", "recs": [["aaaa", 3], ["aaaa", 4]]}], "inner": ["failed"]}));
    v.push(json!({"dial": [["ip4", 1], ["tcp", 1]], "zone": [], "inner": ["ok"]}));
    v.push(json!({"dial": [["ip4", 1], ["tcp", 1]], "zone": [], "inner": ["refused"]}));
    v
}

fn sfx_all() -> Value {
    json!(["p2p", 1])
}

fn random_sched(rng: &mut impl Rng) -> Value {
    let nn = rng.gen_range(1..=5i64);
    let sfx = json!(["p2p", 1]);
    let mut zone = vec![];
    for n in 0..nn {
        if rng.gen_bool(0.85) {
            let cnt = if rng.gen_bool(0.15) { rng.gen_range(10..30) } else { rng.gen_range(0..4) };
            let recs: Vec<Value> = (0..cnt)
                .map(|_| {
                    let tail = if rng.gen_bool(0.8) { sfx.clone() } else { json!(["p2p", 2]) };
                    if rng.gen_bool(0.06) {
                        // bare indirection / bare host: no suffix at all
                        let kind = ["dnsaddr", "dns4", "dns"][rng.gen_range(0..3)];
                        return json!(["txt", [[kind, rng.gen_range(0..nn)]]]);
                    }
                    match rng.gen_range(0..10) {
                        0..=3 => json!(["txt", [["dnsaddr", rng.gen_range(0..nn)], tail]]),
                        4..=5 => {
                            let kind = ["dns4", "dns6", "dns"][rng.gen_range(0..3)];
                            json!(["txt", [[kind, rng.gen_range(0..nn)], ["tcp", 1], tail]])
                        }
                        6..=8 => json!(["txt", [["ip4", rng.gen_range(1..60)], ["tcp", 1], tail]]),
                        _ => json!(["txtraw", "junk"]),
                    }
                })
                .collect();
            zone.push(json!({"n": n, "t": "txt", "k": if rng.gen_bool(0.9) { "ans" } else { "err" }, "recs": recs}));
        }
        for t in ["a", "aaaa", "ip"] {
            if rng.gen_bool(0.7) {
                let cnt = if rng.gen_bool(0.1) { rng.gen_range(15..40) } else { rng.gen_range(0..4) };
                let recs: Vec<Value> = (0..cnt)
                    .map(|_| match rng.gen_range(0..8) {
                        0 => json!(["cname", rng.gen_range(0..nn)]),
                        1..=4 => json!([if t == "aaaa" { "aaaa" } else { "a" }, rng.gen_range(1..200)]),
                        5 => json!([if t == "aaaa" { "a" } else { "aaaa" }, rng.gen_range(1..200)]),
                        _ => json!(["a", rng.gen_range(1..200)]),
                    })
                    .collect();
                zone.push(json!({"n": n, "t": t, "k": if rng.gen_bool(0.9) { "ans" } else { "err" }, "recs": recs}));
            }
        }
    }
    let dial = match rng.gen_range(0..10) {
        0..=5 => json!([["dnsaddr", 0], sfx]),
        6 => json!([["dns4", 0], ["tcp", 1], sfx]),
        7 => json!([["dns6", 0], ["tcp", 1]]),
        8 => json!([["dns", 0], ["tcp", 1]]),
        _ => json!([["ip4", 5], ["tcp", 1], ["dnsaddr", 0], sfx]),
    };
    let inner: Vec<&str> = (0..rng.gen_range(1..5)).map(|_| ["failed", "failed", "failed", "refused", "ok"][rng.gen_range(0..5)]).collect();
    json!({"dial": dial, "zone": zone, "inner": inner})
}

fn main() {
    let a = vcommon::Args::parse();
    vcommon::quiet_panics();
    let w = Arc::new(World { peers: (0..4).map(|_| PeerId::random()).collect() });
    let scheds: Vec<Value> = match a.mode.as_str() {
        "replay" => vcommon::read_schedules(a.get(0)),
        "stress" => stress(),
        "random" => {
            let mut rng = vcommon::rng(a.num(0));
            (0..a.num(1)).map(|_| random_sched(&mut rng)).collect()
        }
        m => {
            eprintln!("unknown mode {m}");
            std::process::exit(2)
        }
    };
    let outp = match a.mode.as_str() {
        "replay" => a.get(1),
        "stress" => a.get(0),
        _ => a.get(2),
    };
    let mut out = Out::create(outp);
    for s in &scheds {
        run(&mut out, s, &w);
    }
    println!("runs={} events={}", out.run, out.events);
    out.finish();
}
