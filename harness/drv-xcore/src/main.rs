//! Driver for the libp2p-core transport combinators:
//!   comb  (X08)  OrTransport / OptionalTransport / Map / AndThen / TransportTimeout / global_only / Either over two
//!                puppet transports (harness/vswarm), one World each
mod comb;

fn main() {
    let a = vcommon::Args::parse();
    match a.mode.as_str() {
        "comb" => comb::main(&a),
        m => {
            eprintln!("unknown mode {m}");
            std::process::exit(2)
        }
    }
}
