//! X08: the transport combinators of libp2p-core over two puppet transports (harness/vswarm `PuppetTransport`, one
//! `World` each = side 0 / side 1). A thin `Spy` around each puppet counts the calls that reach it and can answer
//! chosen addresses with `TransportError::Other`, which the puppet itself never does.
//!
//! Schedule: {"stack": name, "sup": [[..8],[..8]], "ops": [op..]}; sup[side][addr]: 0 = MultiaddrNotSupported,
//! 1 = supported, 2 = TransportError::Other. Address alphabet (index): 0-3 /memory/11..14, 4 /ip4/8.8.8.8 (global),
//! 5 /ip4/10.0.0.7 (private), 6 /ip6/2606:4700::1 (global), 7 /ip6/fe80::1 (link-local).
//! Stacks: or | optnone_l | optnone_r | optsome | map | andthen | timeout | global | either_l | either_r | boxed
//! Ops:  listen id addr | remove id | dial addr | inj s k id addr addr2 | poll | fin s k i ok peer | await k j
//!   inj: the inner transport of side s gets a listener event (k: newaddr expired incoming closed closederr error)
//!   fin: the inner dial (k = dial) or upgrade (k = up) number i of side s completes
//!   await: poll the j-th future the COMBINATOR handed out (dial futures / incoming upgrades, in order of appearance)
//! plus the real-time lower-bound probes of TransportTimeout (`e = "to"`).
use std::{
    io,
    pin::Pin,
    sync::{Arc, Mutex},
    task::{Context, Poll},
    time::{Duration, Instant},
};

use futures::future;
use libp2p_core::{
    connection::ConnectedPoint,
    muxing::StreamMuxerBox,
    transport::{global_only, timeout::TransportTimeoutError, DialOpts, ListenerId, OptionalTransport, OrTransport, PortUse, TransportError, TransportEvent},
    Endpoint, Multiaddr, Transport,
};
use libp2p_identity::PeerId;
use rand::Rng;
use vcommon::{exec::Det, json, Out, Value};
use vswarm::puppet::{Ev, Outcome, PuppetFut, PuppetTransport, World};

const NADDR: usize = 8;
const NIDS: usize = 8;

fn addrs() -> Vec<Multiaddr> {
    ["/memory/11", "/memory/12", "/memory/13", "/memory/14", "/ip4/8.8.8.8/tcp/7", "/ip4/10.0.0.7/tcp/7", "/ip6/2606:4700::1/tcp/7", "/ip6/fe80::1/tcp/7"]
        .iter()
        .map(|s| s.parse().unwrap())
        .collect()
}
fn addr_idx(a: &Multiaddr) -> i64 {
    addrs().iter().position(|x| x == a).map(|i| i as i64).unwrap_or(-1)
}
fn peer(i: u64) -> PeerId {
    PeerId::from_bytes(&[0x00, 0x04, b'x', b'c', 0, i as u8]).expect("identity multihash peer id")
}
fn abs_peer(p: &PeerId) -> i64 {
    (0..32).find(|i| &peer(*i) == p).map(|i| i as i64).unwrap_or(-1)
}
fn cp_json(cp: &ConnectedPoint) -> Value {
    match cp {
        ConnectedPoint::Dialer { address, .. } => json!([0, addr_idx(address), -1]),
        ConnectedPoint::Listener { local_addr, send_back_addr } => json!([1, addr_idx(local_addr), addr_idx(send_back_addr)]),
    }
}

#[derive(Default)]
struct Stat {
    listen: u32,
    dial: u32,
    remove: u32,
    poll: u32,
}

/// The puppet plus call counters and scripted `TransportError::Other`.
struct Spy {
    inner: PuppetTransport,
    st: Arc<Mutex<Stat>>,
    err: Vec<Multiaddr>,
}

impl Transport for Spy {
    type Output = (PeerId, StreamMuxerBox);
    type Error = io::Error;
    type ListenerUpgrade = PuppetFut;
    type Dial = PuppetFut;
    fn listen_on(&mut self, id: ListenerId, addr: Multiaddr) -> Result<(), TransportError<Self::Error>> {
        self.st.lock().unwrap().listen += 1;
        if self.err.contains(&addr) {
            return Err(TransportError::Other(io::Error::other("spy: scripted listen error")));
        }
        self.inner.listen_on(id, addr)
    }
    fn remove_listener(&mut self, id: ListenerId) -> bool {
        self.st.lock().unwrap().remove += 1;
        self.inner.remove_listener(id)
    }
    fn dial(&mut self, addr: Multiaddr, opts: DialOpts) -> Result<Self::Dial, TransportError<Self::Error>> {
        self.st.lock().unwrap().dial += 1;
        if self.err.contains(&addr) {
            return Err(TransportError::Other(io::Error::other("spy: scripted dial error")));
        }
        self.inner.dial(addr, opts)
    }
    fn poll(mut self: Pin<&mut Self>, cx: &mut Context<'_>) -> Poll<TransportEvent<Self::ListenerUpgrade, Self::Error>> {
        self.st.lock().unwrap().poll += 1;
        Pin::new(&mut self.inner).poll(cx)
    }
}

struct Env {
    w: [World; 2],
    st: [Arc<Mutex<Stat>>; 2],
    ids: Vec<ListenerId>,
}

impl Env {
    fn new() -> Env {
        Env { w: [World::new(), World::new()], st: [Arc::default(), Arc::default()], ids: (0..NIDS).map(|_| ListenerId::next()).collect() }
    }
    fn spy(&self, side: usize, sup: &[i64]) -> Spy {
        let a = addrs();
        self.w[side].with(|g| {
            for (i, s) in sup.iter().enumerate().take(NADDR) {
                if *s == 0 {
                    g.unsupported.push(a[i].clone());
                    g.unlistenable.push(a[i].clone());
                }
            }
        });
        let err = sup.iter().enumerate().take(NADDR).filter(|(_, s)| **s == 2).map(|(i, _)| a[i].clone()).collect();
        Spy { inner: PuppetTransport { world: self.w[side].clone() }, st: self.st[side].clone(), err }
    }
    fn id_idx(&self, id: &ListenerId) -> i64 {
        self.ids.iter().position(|x| x == id).map(|i| i as i64).unwrap_or(-1)
    }
    fn counts(&self) -> [[usize; 2]; 8] {
        let mut c = [[0usize; 2]; 8];
        for s in 0..2 {
            let (l, r, d, u) = self.w[s].with(|g| (g.listen_calls.len(), g.removed.len(), g.dials.len(), g.upgrades.len()));
            c[7][s] = u;
            let st = self.st[s].lock().unwrap();
            c[0][s] = l;
            c[1][s] = r;
            c[2][s] = d;
            c[3][s] = st.listen as usize;
            c[4][s] = st.dial as usize;
            c[5][s] = st.remove as usize;
            c[6][s] = st.poll as usize;
        }
        c
    }
}

fn delta(a: &[[usize; 2]; 8], b: &[[usize; 2]; 8], row: usize) -> Value {
    json!([b[row][0] - a[row][0], b[row][1] - a[row][1]])
}

/// Run the ops of a schedule against one combinator stack.
/// What the op source may know: the futures the combinator handed out so far.
#[derive(Clone)]
struct Fut {
    up: bool,
    j: usize,
    side: usize,
    idx: usize,
    fin: bool,
    gone: bool,
}
#[derive(Default)]
struct Info {
    futs: Vec<Fut>,
    used: std::collections::HashSet<usize>,
    /// listener ids accepted by listen_on and not yet removed
    live: Vec<usize>,
    nops: usize,
}
type Src<'a> = &'a mut dyn FnMut(&Info) -> Option<Value>;

fn drive<T>(mut t: T, env: &Env, src: Src, out_fn: &dyn Fn(T::Output) -> Value, err_fn: &dyn Fn(&T::Error) -> Value) -> (Vec<Value>, Vec<Value>)
where
    T: Transport + Unpin,
{
    let a = addrs();
    let det = Det::new();
    let mut dials: Vec<Option<Pin<Box<T::Dial>>>> = vec![];
    let mut ups: Vec<Option<Pin<Box<T::ListenerUpgrade>>>> = vec![];
    let mut evs = vec![];
    let mut done_ops = vec![];
    let mut info = Info::default();
    while let Some(op) = src(&info) {
        let op = &op;
        done_ops.push(op.clone());
        info.nops += 1;
        let name = vcommon::s(op, "a");
        let g = |f: &str| op.get(f).and_then(|v| v.as_i64()).unwrap_or(0);
        let gs = |f: &str| op.get(f).and_then(|v| v.as_str()).unwrap_or("").to_string();
        let ai = (g("addr").max(0) as usize) % NADDR;
        let ai2 = (g("addr2").max(0) as usize) % NADDR;
        let id = (g("id").max(0) as usize) % NIDS;
        let side = (g("s").max(0) as usize) % 2;
        // a ListenerId is used for one listen_on only (ListenerId::next() contract)
        if name == "listen" && !info.used.insert(id) {
            evs.push(json!({"e": "skip"}));
            continue;
        }
        // an inner transport only reports the closure of a listener it has (the puppet would otherwise remember the
        // id as removed and refuse a later listen_on / remove_listener for it: an artefact, not a combinator matter)
        if name == "inj" && gs("k").starts_with("closed") {
            let lid = env.ids[id];
            let has = env.w[side].with(|g| g.listen_calls.iter().any(|(l, _)| *l == lid) && !g.removed.contains(&lid));
            if !has {
                evs.push(json!({"e": "skip"}));
                continue;
            }
        }
        let before = env.counts();
        let r = vcommon::guard(|| match name.as_str() {
            "listen" => {
                let mut ev = json!({"e": "listen", "id": id, "addr": ai, "errside": -1});
                match t.listen_on(env.ids[id], a[ai].clone()) {
                    Ok(()) => ev["res"] = json!("ok"),
                    Err(TransportError::MultiaddrNotSupported(back)) => {
                        ev["res"] = json!("unsup");
                        ev["back"] = json!(addr_idx(&back));
                    }
                    Err(TransportError::Other(e)) => {
                        ev["res"] = json!("other");
                        ev["err"] = err_fn(&e);
                    }
                }
                ev
            }
            "remove" => json!({"e": "remove", "id": id, "res": t.remove_listener(env.ids[id])}),
            "dial" => {
                let mut ev = json!({"e": "dial", "addr": ai, "j": -1});
                match t.dial(a[ai].clone(), DialOpts { role: Endpoint::Dialer, port_use: PortUse::Reuse }) {
                    Ok(f) => {
                        ev["res"] = json!("ok");
                        ev["j"] = json!(dials.len());
                        dials.push(Some(Box::pin(f)));
                    }
                    Err(TransportError::MultiaddrNotSupported(back)) => {
                        ev["res"] = json!("unsup");
                        ev["back"] = json!(addr_idx(&back));
                    }
                    Err(TransportError::Other(e)) => {
                        ev["res"] = json!("other");
                        ev["err"] = err_fn(&e);
                    }
                }
                ev
            }
            "inj" => {
                let k = gs("k");
                let e = match k.as_str() {
                    "newaddr" => Ev::NewAddress(env.ids[id], a[ai].clone()),
                    "expired" => Ev::AddressExpired(env.ids[id], a[ai].clone()),
                    "incoming" => Ev::Incoming { listener: env.ids[id], local: a[ai].clone(), send_back: a[ai2].clone() },
                    "closed" => Ev::ListenerClosed(env.ids[id], true),
                    "closederr" => Ev::ListenerClosed(env.ids[id], false),
                    _ => Ev::ListenerError(env.ids[id]),
                };
                env.w[side].push_event(e);
                json!({"e": "inj", "s": side, "k": k, "id": id, "addr": ai, "addr2": ai2})
            }
            "poll" => {
                let mut cx = det.cx();
                let mut ev = json!({"e": "poll", "id": -1, "addr": -1, "addr2": -1, "j": -1});
                match Pin::new(&mut t).poll(&mut cx) {
                    Poll::Pending => ev["res"] = json!("pending"),
                    Poll::Ready(TransportEvent::NewAddress { listener_id, listen_addr }) => {
                        ev["res"] = json!("newaddr");
                        ev["id"] = json!(env.id_idx(&listener_id));
                        ev["addr"] = json!(addr_idx(&listen_addr));
                    }
                    Poll::Ready(TransportEvent::AddressExpired { listener_id, listen_addr }) => {
                        ev["res"] = json!("expired");
                        ev["id"] = json!(env.id_idx(&listener_id));
                        ev["addr"] = json!(addr_idx(&listen_addr));
                    }
                    Poll::Ready(TransportEvent::Incoming { listener_id, upgrade, local_addr, send_back_addr }) => {
                        ev["res"] = json!("incoming");
                        ev["id"] = json!(env.id_idx(&listener_id));
                        ev["addr"] = json!(addr_idx(&local_addr));
                        ev["addr2"] = json!(addr_idx(&send_back_addr));
                        ev["j"] = json!(ups.len());
                        ups.push(Some(Box::pin(upgrade)));
                    }
                    Poll::Ready(TransportEvent::ListenerClosed { listener_id, reason }) => {
                        ev["id"] = json!(env.id_idx(&listener_id));
                        match reason {
                            Ok(()) => ev["res"] = json!("closed"),
                            Err(e) => {
                                ev["res"] = json!("closederr");
                                ev["err"] = err_fn(&e);
                            }
                        }
                    }
                    Poll::Ready(TransportEvent::ListenerError { listener_id, error }) => {
                        ev["res"] = json!("error");
                        ev["id"] = json!(env.id_idx(&listener_id));
                        ev["err"] = err_fn(&error);
                    }
                }
                ev
            }
            "fin" => {
                let k = gs("k");
                let i = g("i").max(0) as usize;
                let o = if op.get("ok").and_then(|v| v.as_bool()).unwrap_or(true) { Outcome::Ok(peer(g("peer").max(0) as u64)) } else { Outcome::Err };
                let ok = matches!(o, Outcome::Ok(_));
                let done = if k == "dial" { env.w[side].complete_dial(i, o) } else { env.w[side].complete_upgrade(i, o) };
                json!({"e": "fin", "s": side, "k": k, "i": i, "ok": ok, "peer": g("peer").max(0), "done": done})
            }
            "await" => {
                let k = gs("k");
                let j = g("j").max(0) as usize;
                let mut ev = json!({"e": "await", "k": k, "j": j});
                let res = if k == "dial" {
                    match dials.get_mut(j) {
                        Some(slot @ Some(_)) => {
                            let r = det.run_until_stalled(slot.as_mut().unwrap().as_mut(), 50);
                            if r.is_some() {
                                *slot = None;
                            }
                            Some(r)
                        }
                        _ => None,
                    }
                } else {
                    match ups.get_mut(j) {
                        Some(slot @ Some(_)) => {
                            let r = det.run_until_stalled(slot.as_mut().unwrap().as_mut(), 50);
                            if r.is_some() {
                                *slot = None;
                            }
                            Some(r)
                        }
                        _ => None,
                    }
                };
                match res {
                    None => ev["res"] = json!("gone"),
                    Some(None) => ev["res"] = json!("pending"),
                    Some(Some(Ok(o))) => {
                        ev["res"] = json!("ok");
                        ev["out"] = out_fn(o);
                    }
                    Some(Some(Err(e))) => {
                        ev["res"] = json!("err");
                        ev["err"] = err_fn(&e);
                    }
                }
                ev
            }
            _ => json!({"e": "skip"}),
        });
        let after = env.counts();
        match r {
            Ok(mut ev) => {
                if ev["e"] != "skip" {
                    ev["lis"] = delta(&before, &after, 0);
                    ev["rem"] = delta(&before, &after, 1);
                    ev["slots"] = delta(&before, &after, 2);
                    ev["asked"] = json!([after[3][0] - before[3][0] + after[4][0] - before[4][0] + after[5][0] - before[5][0],
                                         after[3][1] - before[3][1] + after[4][1] - before[4][1] + after[5][1] - before[5][1]]);
                    ev["polled"] = delta(&before, &after, 6);
                    // bookkeeping for the op source
                    if ev["e"] == "listen" && ev["res"] == "ok" {
                        info.live.push(id);
                    }
                    if ev["e"] == "remove" && ev["res"] == true {
                        info.live.retain(|x| *x != id);
                    }
                    if ev["e"] == "poll" && (ev["res"] == "closed" || ev["res"] == "closederr") {
                        let gone = ev["id"].as_i64().unwrap_or(-1);
                        info.live.retain(|x| *x as i64 != gone);
                    }
                    if ev["e"] == "dial" && ev["res"] == "ok" {
                        let side = if after[2][0] > before[2][0] { 0 } else { 1 };
                        info.futs.push(Fut { up: false, j: ev["j"].as_u64().unwrap_or(0) as usize, side, idx: before[2][side], fin: false, gone: false });
                    }
                    if ev["e"] == "poll" && ev["res"] == "incoming" {
                        let side = if after[7][0] > before[7][0] { 0 } else { 1 };
                        info.futs.push(Fut { up: true, j: ev["j"].as_u64().unwrap_or(0) as usize, side, idx: before[7][side], fin: false, gone: false });
                    }
                    if ev["e"] == "fin" && ev["done"] == true {
                        let (up, sd, ix) = (ev["k"] == "up", ev["s"].as_u64().unwrap_or(0) as usize, ev["i"].as_u64().unwrap_or(0) as usize);
                        info.futs.iter_mut().filter(|f| f.up == up && f.side == sd && f.idx == ix).for_each(|f| f.fin = true);
                    }
                    if ev["e"] == "await" && (ev["res"] == "ok" || ev["res"] == "err") {
                        let (up, j) = (ev["k"] == "up", ev["j"].as_u64().unwrap_or(0) as usize);
                        info.futs.iter_mut().filter(|f| f.up == up && f.j == j).for_each(|f| f.gone = true);
                    }
                }
                evs.push(ev);
            }
            Err(m) => {
                evs.push(json!({"e": "panic", "msg": m, "op": op}));
                break;
            }
        }
    }
    (done_ops, evs)
}

type PuppetOut = (PeerId, StreamMuxerBox);
type OrOut = future::Either<PuppetOut, PuppetOut>;
type OrErr = either::Either<io::Error, io::Error>;

fn or_out(o: OrOut) -> Value {
    match o {
        future::Either::Left((p, _)) => json!({"side": 0, "peer": abs_peer(&p), "cp": []}),
        future::Either::Right((p, _)) => json!({"side": 1, "peer": abs_peer(&p), "cp": []}),
    }
}
fn or_err(e: &OrErr) -> Value {
    match e {
        either::Either::Left(_) => json!({"side": 0, "timeout": false, "fun": false}),
        either::Either::Right(_) => json!({"side": 1, "timeout": false, "fun": false}),
    }
}

fn sup_of(s: &Value, side: usize) -> Vec<i64> {
    let v: Vec<i64> = s["sup"][side].as_array().map(|v| v.iter().map(|x| x.as_i64().unwrap_or(1)).collect()).unwrap_or_default();
    (0..NADDR).map(|i| v.get(i).copied().unwrap_or(1)).collect()
}

/// Build the named stack over two fresh puppets and run the ops the source yields; returns (ops run, events).
fn with_stack(stack: &str, sup: &[Vec<i64>; 2], src: Src) -> (Vec<Value>, Vec<Value>) {
    let r = vcommon::guard(|| {
        let env = Env::new();
        let ops = src;
        let a = env.spy(0, &sup[0]);
        let b = env.spy(1, &sup[1]);
        match stack {
            "or" => drive(OrTransport::new(a, b), &env, ops, &or_out, &or_err),
            "optnone_l" => drive(OrTransport::new(OptionalTransport::<Spy>::none(), b), &env, ops, &or_out, &or_err),
            "optnone_r" => drive(OrTransport::new(a, OptionalTransport::<Spy>::none()), &env, ops, &or_out, &or_err),
            "optsome" => drive(OrTransport::new(OptionalTransport::some(a), OptionalTransport::some(b)), &env, ops, &or_out, &or_err),
            "either_l" => drive(either::Either::<Spy, Spy>::Left(a), &env, ops, &or_out, &or_err),
            "either_r" => drive(either::Either::<Spy, Spy>::Right(b), &env, ops, &or_out, &or_err),
            "global" => drive(global_only::Transport::new(OrTransport::new(a, b)), &env, ops, &or_out, &or_err),
            "timeout" => drive(
                libp2p_core::transport::timeout::TransportTimeout::new(OrTransport::new(a, b), Duration::from_secs(3600)),
                &env,
                ops,
                &or_out,
                &|e: &TransportTimeoutError<OrErr>| match e {
                    TransportTimeoutError::Other(x) => or_err(x),
                    _ => json!({"side": -1, "timeout": true, "fun": false}),
                },
            ),
            "map" => drive(
                OrTransport::new(a, b).map(|o: OrOut, cp: ConnectedPoint| {
                    let mut v = or_out(o);
                    v["cp"] = cp_json(&cp);
                    v
                }),
                &env,
                ops,
                &|v: Value| v,
                &or_err,
            ),
            "andthen" => drive(
                OrTransport::new(a, b).and_then(|o: OrOut, cp: ConnectedPoint| {
                    let mut v = or_out(o);
                    v["cp"] = cp_json(&cp);
                    // the function refuses peer 9 (its error must surface as the Right error)
                    future::ready(if v["peer"] == 9 { Err(io::Error::other("and_then: refused")) } else { Ok(v) })
                }),
                &env,
                ops,
                &|v: Value| v,
                &|e: &either::Either<OrErr, io::Error>| match e {
                    either::Either::Left(x) => or_err(x),
                    either::Either::Right(_) => json!({"side": -1, "timeout": false, "fun": true}),
                },
            ),
            "boxed" => drive(
                OrTransport::new(a, b).map(|o: OrOut, _| or_out(o)).boxed(),
                &env,
                ops,
                &|v: Value| v,
                &|_e: &io::Error| json!({"side": -1, "timeout": false, "fun": false}),
            ),
            _ => (vec![], vec![json!({"e": "skip"})]),
        }
    });
    match r {
        Ok(x) => x,
        Err(m) => (vec![], vec![json!({"e": "panic", "msg": m})]),
    }
}

fn run_fixed(out: &mut Out, sched: &Value) {
    let stack = sched.get("stack").and_then(|v| v.as_str()).unwrap_or("or").to_string();
    let sup = [sup_of(sched, 0), sup_of(sched, 1)];
    out.reset_with(json!({"stack": stack, "sup": sup}), sched);
    let mut it = sched["ops"].as_array().cloned().unwrap_or_default().into_iter();
    let (_, evs) = with_stack(&stack, &sup, &mut |_| it.next());
    evs.into_iter().for_each(|e| out.ev(e));
}

/// TransportTimeout against real time, lower bounds only.  `wait_ms` is slept between dial and the poll,
/// `inner`: 0 = the inner dial stays pending, 1 = it completed (ok) before the poll, 2 = it failed before the poll.
fn timeout_probe(out: &mut Out, timeout_ms: u64, wait_ms: u64, inner: u8, incoming: bool) {
    let sched = json!({"stack": "toprobe", "timeout_ms": timeout_ms, "wait_ms": wait_ms, "inner": inner, "incoming": incoming, "ops": []});
    out.reset_with(json!({"stack": "toprobe", "sup": [[], []]}), &sched);
    let r = vcommon::guard(|| {
        let env = Env::new();
        let a = env.spy(0, &[1; NADDR]);
        let mut t = libp2p_core::transport::timeout::TransportTimeout::new(a, Duration::from_millis(timeout_ms));
        let det = Det::new();
        let addr = addrs()[0].clone();
        let start = Instant::now();
        let mut fut: Pin<Box<dyn futures::Future<Output = Result<PuppetOut, TransportTimeoutError<io::Error>>>>> = if incoming {
            t.listen_on(env.ids[0], addr.clone()).expect("listen");
            env.w[0].push_event(Ev::Incoming { listener: env.ids[0], local: addr.clone(), send_back: addrs()[1].clone() });
            let mut cx = det.cx();
            match Pin::new(&mut t).poll(&mut cx) {
                Poll::Ready(TransportEvent::Incoming { upgrade, .. }) => Box::pin(upgrade),
                _ => panic!("no incoming"),
            }
        } else {
            Box::pin(t.dial(addr, DialOpts { role: Endpoint::Dialer, port_use: PortUse::Reuse }).expect("dial"))
        };
        // first poll registers the timer
        let first = det.poll(fut.as_mut());
        let first_after = start.elapsed().as_micros() as i64;
        let mut ev = json!({"e": "to", "timeout_ms": timeout_ms, "inner": inner, "incoming": incoming});
        let cls = |r: &Poll<Result<PuppetOut, TransportTimeoutError<io::Error>>>| match r {
            Poll::Pending => "pending",
            Poll::Ready(Ok(_)) => "ok",
            Poll::Ready(Err(TransportTimeoutError::Timeout)) => "timeout",
            Poll::Ready(Err(_)) => "other",
        };
        ev["first"] = json!(cls(&first));
        ev["first_after_us"] = json!(first_after);
        if first.is_pending() {
            std::thread::sleep(Duration::from_millis(wait_ms));
            if inner > 0 {
                let o = if inner == 1 { Outcome::Ok(peer(1)) } else { Outcome::Err };
                if incoming {
                    env.w[0].complete_upgrade(0, o);
                } else {
                    env.w[0].complete_dial(0, o);
                }
            }
            let before = start.elapsed().as_micros() as i64;
            let second = det.poll(fut.as_mut());
            let after = start.elapsed().as_micros() as i64;
            ev["second"] = json!(cls(&second));
            ev["before_us"] = json!(before);
            ev["after_us"] = json!(after);
        } else {
            ev["second"] = json!("none");
            ev["before_us"] = json!(0);
            ev["after_us"] = json!(0);
        }
        ev
    });
    match r {
        Ok(ev) => out.ev(ev),
        Err(m) => out.ev(json!({"e": "panic", "msg": m})),
    }
}

const STACKS: [&str; 11] = ["or", "optnone_l", "optnone_r", "optsome", "map", "andthen", "timeout", "global", "either_l", "either_r", "boxed"];

/// Seeded random run; the ops are chosen online from what the combinator has handed out so far.
fn run_random(out: &mut Out, rng: &mut rand::rngs::StdRng) {
    let stack = STACKS[rng.gen_range(0..STACKS.len())];
    let sup: [Vec<i64>; 2] = [0, 1].map(|_| (0..NADDR).map(|_| [0, 0, 1, 1, 1, 2][rng.gen_range(0..6)]).collect());
    let len = rng.gen_range(8..=50);
    let mut src = |info: &Info| -> Option<Value> {
        if info.nops >= len + 6 {
            return None;
        }
        if info.nops >= len {
            return Some(json!({"a": "poll"}));
        }
        let addr = rng.gen_range(0..NADDR);
        let id = rng.gen_range(0..NIDS);
        let s = rng.gen_range(0..2usize);
        let open: Vec<&Fut> = info.futs.iter().filter(|f| !f.gone).collect();
        Some(match rng.gen_range(0..100) {
            0..=11 => json!({"a": "listen", "id": (0..NIDS).find(|i| !info.used.contains(i)).unwrap_or(id), "addr": addr}),
            12..=17 => json!({"a": "remove", "id": if !info.live.is_empty() && rng.gen_bool(0.7) { info.live[rng.gen_range(0..info.live.len())] } else { id }}),
            18..=32 => json!({"a": "dial", "addr": addr}),
            33..=50 => {
                let k = ["newaddr", "expired", "incoming", "incoming", "incoming", "closed", "closederr", "error"][rng.gen_range(0..8)];
                // closures (and most other events) concern a listener that exists; its side is tried at random
                let lid = if !info.live.is_empty() && (k.starts_with("closed") || rng.gen_bool(0.7)) { info.live[rng.gen_range(0..info.live.len())] } else { id };
                json!({"a": "inj", "s": s, "k": k, "id": lid, "addr": addr, "addr2": rng.gen_range(0..NADDR)})
            }
            51..=68 => json!({"a": "poll"}),
            69..=84 => {
                let unfinished: Vec<&&Fut> = open.iter().filter(|f| !f.fin).collect();
                if !unfinished.is_empty() && rng.gen_bool(0.9) {
                    let f = unfinished[rng.gen_range(0..unfinished.len())];
                    json!({"a": "fin", "s": f.side, "k": if f.up { "up" } else { "dial" }, "i": f.idx, "ok": rng.gen_bool(0.7), "peer": ([1, 2, 3, 9][rng.gen_range(0..4)])})
                } else {
                    json!({"a": "fin", "s": s, "k": if rng.gen_bool(0.5) { "up" } else { "dial" }, "i": rng.gen_range(0..4), "ok": rng.gen_bool(0.7), "peer": 1})
                }
            }
            _ => {
                if !open.is_empty() && rng.gen_bool(0.9) {
                    let f = open[rng.gen_range(0..open.len())];
                    json!({"a": "await", "k": if f.up { "up" } else { "dial" }, "j": f.j})
                } else {
                    json!({"a": "await", "k": if rng.gen_bool(0.5) { "up" } else { "dial" }, "j": rng.gen_range(0..6)})
                }
            }
        })
    };
    let (ops, evs) = with_stack(stack, &sup, &mut src);
    let sched = json!({"stack": stack, "sup": sup, "ops": ops});
    out.reset_with(json!({"stack": stack, "sup": sup}), &sched);
    evs.into_iter().for_each(|e| out.ev(e));
}

/// busy-first scenarios: side 0 holds `n0` events when side 1 gets one; everything must come out
fn directed() -> Vec<Value> {
    let mut v = vec![];
    for stack in ["or", "optsome", "map", "timeout", "boxed"] {
        for n0 in [1usize, 3, 8] {
            let mut ops = vec![json!({"a": "listen", "id": 0, "addr": 0}), json!({"a": "listen", "id": 1, "addr": 1})];
            for i in 0..n0 {
                ops.push(json!({"a": "inj", "s": 0, "k": "newaddr", "id": 0, "addr": i % 4, "addr2": 0}));
            }
            ops.push(json!({"a": "inj", "s": 1, "k": "incoming", "id": 1, "addr": 1, "addr2": 2}));
            for i in 0..n0 + 3 {
                ops.push(json!({"a": "poll"}));
                // the first transport stays busy: one more event for every one taken out
                if i < n0 {
                    ops.push(json!({"a": "inj", "s": 0, "k": "expired", "id": 0, "addr": i % 4, "addr2": 0}));
                }
            }
            for _ in 0..n0 + 2 {
                ops.push(json!({"a": "poll"}));
            }
            ops.push(json!({"a": "fin", "s": 1, "k": "up", "i": 0, "ok": true, "peer": 2}));
            ops.push(json!({"a": "await", "k": "up", "j": 0}));
            v.push(json!({"stack": stack, "sup": [[1, 0, 1, 0, 1, 1, 1, 1], [0, 1, 1, 0, 1, 1, 1, 1]], "ops": ops}));
        }
    }
    // routing table: every address on every stack, listen + dial + remove
    for stack in STACKS {
        let mut ops = vec![];
        for a in 0..NADDR {
            ops.push(json!({"a": "listen", "id": a % NIDS, "addr": a}));
            ops.push(json!({"a": "dial", "addr": a}));
            ops.push(json!({"a": "remove", "id": a % NIDS}));
            ops.push(json!({"a": "remove", "id": a % NIDS}));
            ops.push(json!({"a": "poll"}));
        }
        for (i, sup) in [[[1, 0, 1, 0, 1, 1, 2, 0], [0, 1, 1, 0, 1, 0, 1, 2]], [[1, 1, 1, 1, 1, 1, 1, 1], [1, 1, 1, 1, 1, 1, 1, 1]], [[0, 0, 0, 0, 0, 0, 0, 0], [2, 1, 1, 1, 1, 1, 1, 1]]].iter().enumerate() {
            let _ = i;
            v.push(json!({"stack": stack, "sup": sup, "ops": ops}));
        }
    }
    v
}

pub fn main(a: &vcommon::Args) {
    vcommon::quiet_panics();
    match a.get(0) {
        "replay" => {
            let scheds = vcommon::read_schedules(a.get(1));
            let mut out = Out::create(a.get(2));
            for s in &scheds {
                if s.get("stack").and_then(|v| v.as_str()) == Some("toprobe") {
                    timeout_probe(&mut out, vcommon::n(s, "timeout_ms") as u64, vcommon::n(s, "wait_ms") as u64, vcommon::n(s, "inner") as u8, vcommon::b(s, "incoming"));
                } else {
                    run_fixed(&mut out, s);
                }
            }
            println!("runs={} events={}", out.run, out.events);
            out.finish();
        }
        "directed" => {
            let mut out = Out::create(a.get(1));
            for s in directed() {
                run_fixed(&mut out, &s);
            }
            for incoming in [false, true] {
                for (to, wait, inner) in [(40u64, 5u64, 0u8), (40, 5, 1), (40, 5, 2), (60, 35, 0), (60, 35, 1), (15, 40, 0), (15, 40, 1), (15, 40, 2), (0, 3, 0), (0, 3, 1)] {
                    timeout_probe(&mut out, to, wait, inner, incoming);
                }
            }
            println!("runs={} events={}", out.run, out.events);
            out.finish();
        }
        "random" => {
            let mut rng = vcommon::rng(a.num(1) ^ 0xc0be);
            let mut out = Out::create(a.get(3));
            for _ in 0..a.num(2) {
                run_random(&mut out, &mut rng);
            }
            println!("runs={} events={}", out.run, out.events);
            out.finish();
        }
        m => panic!("comb mode {m}"),
    }
}
