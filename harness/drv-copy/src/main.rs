//! C49 driver: the real relay copy loop (`libp2p_relay::verif::copy_future`) between two scripted
//! byte pipes.  Direction 0 = client a -> client b (src -> dst), direction 1 = b -> a.
//!
//! Topology: pipe A = (a, relay.src), pipe B = (relay.dst, b).
//!   input  of direction 0: A.dir0 (manual delivery)     output of direction 0: B.dir0 (auto, logged)
//!   input  of direction 1: B.dir1 (manual delivery)     output of direction 1: A.dir1 (auto, logged)
//! The k-th byte written by a client in direction d is `pat(d, k)`; forwarded bytes are compared
//! with the pattern at the forwarding offset (`bad` = index of the first mismatch in the chunk, -1 = none).
use std::{
    future::Future,
    pin::Pin,
    time::{Duration, Instant},
};

use rand::Rng;
use vcommon::{exec::Det, json, pipe::pipe, pipe::PipeCtl, Out, Value};

const BUF: u64 = 8192; // futures::io::BufReader default capacity = "one read buffer"

fn pat(d: usize, p: u64) -> u8 {
    ((p.wrapping_mul(31) + (d as u64) * 17 + (p >> 8)) % 251) as u8
}

struct Run {
    ctl_a: PipeCtl,
    ctl_b: PipeCtl,
    written: [u64; 2],
    fwd: [u64; 2],
    eofout: [bool; 2],
    faulted: bool,
}

impl Run {
    fn input(&self, d: usize) -> (&PipeCtl, usize) {
        if d == 0 { (&self.ctl_a, 0) } else { (&self.ctl_b, 1) }
    }
    fn output(&self, d: usize) -> (&PipeCtl, usize) {
        if d == 0 { (&self.ctl_b, 0) } else { (&self.ctl_a, 1) }
    }
    /// log what appeared at the far ends since the last call
    fn observe(&mut self, out: &mut Out) {
        for d in 0..2 {
            let (c, dir) = self.output(d);
            let bytes = c.take_log(dir);
            let closed = c.with(dir, |x| x.closed);
            if !bytes.is_empty() {
                let mut bad: i64 = -1;
                for (i, b) in bytes.iter().enumerate() {
                    if *b != pat(d, self.fwd[d] + i as u64) {
                        bad = i as i64;
                        break;
                    }
                }
                self.fwd[d] += bytes.len() as u64;
                out.ev(json!({"e": "fw", "d": d, "n": bytes.len(), "bad": bad}));
            }
            if closed && !self.eofout[d] {
                self.eofout[d] = true;
                out.ev(json!({"e": "eofout", "d": d}));
            }
        }
    }
    fn out_open(&self, d: usize) -> bool {
        let (c, dir) = self.output(d);
        c.with(dir, |x| x.write_budget.map(|b| b > 0).unwrap_or(true))
    }
}

fn run(out: &mut Out, sched: &Value) {
    let max = vcommon::n(sched, "max") as u64;
    let dur_ms = sched.get("dur_ms").and_then(|x| x.as_u64()).unwrap_or(3_600_000);
    let lazy = sched.get("lazy").and_then(|x| x.as_bool()).unwrap_or(false);
    let budgeted = sched.get("budgeted").and_then(|x| x.as_bool()).unwrap_or(false);
    let rc = sched.get("rc").and_then(|x| x.as_u64()).unwrap_or(0) as usize;
    let wc = sched.get("wc").and_then(|x| x.as_u64()).unwrap_or(0) as usize;
    let flaky = sched.get("flaky").and_then(|x| x.as_bool()).unwrap_or(false);
    out.reset_with(json!({"max": max, "buf": BUF, "dur": dur_ms}), sched);

    let (_a, src, ctl_a) = pipe(false);
    let (dst, _b, ctl_b) = pipe(false);
    let mut r = Run { ctl_a, ctl_b, written: [0; 2], fwd: [0; 2], eofout: [false; 2], faulted: false };
    for d in 0..2 {
        let (c, dir) = r.input(d);
        c.with(dir, |x| {
            x.read_chunk = rc;
            // spurious Pending + immediate wake on every second read; only for hand-written schedules:
            // two flaky directions can alternate their wake-ups forever, which defeats stall detection
            x.flaky_read = flaky;
        });
        let (c, dir) = r.output(d);
        c.with(dir, |x| {
            x.auto = true;
            x.keep_log = true;
            x.write_chunk = wc;
            x.write_budget = if budgeted { Some(0) } else { None };
        });
    }
    let det = Det::new();
    let t0 = Instant::now();
    let mut fut: Pin<Box<dyn Future<Output = std::io::Result<()>>>> =
        Box::pin(libp2p_relay::verif::copy_future(src, dst, Duration::from_millis(dur_ms), max));
    let mut finished = false;

    let mut do_poll = |r: &mut Run, out: &mut Out, finished: &mut bool| {
        if *finished {
            return;
        }
        // poll until Ready or truly stalled (Pending without a wake-up during the poll)
        let res = vcommon::guard(|| {
            for _ in 0..50_000_000u64 {
                let before = det.wakes();
                match det.poll(fut.as_mut()) {
                    std::task::Poll::Ready(v) => return Some(v),
                    std::task::Poll::Pending => {
                        if det.wakes() == before {
                            return None;
                        }
                    }
                }
            }
            eprintln!("driver: poll budget exhausted (livelock?)");
            std::process::exit(3)
        });
        match res {
            Err(m) => {
                out.ev(json!({"e": "panic", "msg": m}));
                *finished = true;
            }
            Ok(None) => {
                r.observe(out);
                out.ev(json!({"e": "stall", "open": [r.out_open(0), r.out_open(1)]}));
            }
            Ok(Some(v)) => {
                r.observe(out);
                let elapsed = t0.elapsed().as_millis() as u64;
                match v {
                    Ok(()) => out.ev(json!({"e": "done", "res": "ok", "elapsed": elapsed})),
                    Err(e) if e.kind() == std::io::ErrorKind::TimedOut => {
                        out.ev(json!({"e": "done", "res": "timeout", "elapsed": elapsed}))
                    }
                    Err(e) => out.ev(json!({"e": "done", "res": "err", "elapsed": elapsed, "kind": format!("{:?}", e.kind())})),
                }
                *finished = true;
            }
        }
    };

    for op in sched["ops"].as_array().unwrap() {
        if finished {
            break;
        }
        let a = vcommon::s(op, "a");
        let d = op.get("d").and_then(|x| x.as_u64()).unwrap_or(0) as usize;
        let n = op.get("n").and_then(|x| x.as_u64()).unwrap_or(0);
        match a.as_str() {
            "w" => {
                if r.input(d).0.with(r.input(d).1, |x| x.closed) {
                    continue; // a closed client cannot write
                }
                let bytes: Vec<u8> = (0..n).map(|i| pat(d, r.written[d] + i)).collect();
                r.written[d] += n;
                let (c, dir) = r.input(d);
                c.inject(dir, &bytes);
                out.ev(json!({"e": "w", "d": d, "n": n}));
            }
            "dl" => {
                let (c, dir) = r.input(d);
                let k = if n == 0 { c.deliver_all(dir) } else { c.deliver(dir, n as usize) };
                out.ev(json!({"e": "avail", "d": d, "n": k}));
            }
            "close" => {
                let (c, dir) = r.input(d);
                c.close_dir(dir);
                c.deliver_eof(dir);
                out.ev(json!({"e": "close", "d": d}));
            }
            "wb" => {
                let (c, dir) = r.output(d);
                c.add_write_budget(dir, n as usize);
                out.ev(json!({"e": "grant", "d": d, "n": n}));
            }
            "wbinf" => {
                let (c, dir) = r.output(d);
                c.set_write_budget(dir, None);
                out.ev(json!({"e": "grant", "d": d, "n": -1}));
            }
            "fail" => {
                let what = vcommon::s(op, "what");
                if what == "read" {
                    let (c, dir) = r.input(d);
                    c.fail_read(dir);
                } else {
                    let (c, dir) = r.output(d);
                    c.with(dir, |x| x.fail_write = true);
                }
                r.faulted = true;
                out.ev(json!({"e": "fault", "d": d, "what": what}));
            }
            "expire" => {
                // wait (generously) for the real Delay to wake the future's waker
                let w0 = det.wakes();
                let limit = Instant::now() + Duration::from_millis(dur_ms + 10_000);
                // make sure the future has registered the waker with its timer
                do_poll(&mut r, out, &mut finished);
                if finished {
                    break;
                }
                while det.wakes() == w0 && Instant::now() < limit {
                    std::thread::sleep(Duration::from_millis(5));
                }
                out.ev(json!({"e": "expired", "woken": det.wakes() != w0, "elapsed": t0.elapsed().as_millis() as u64}));
                do_poll(&mut r, out, &mut finished);
                continue;
            }
            "poll" => {
                do_poll(&mut r, out, &mut finished);
                continue;
            }
            x => panic!("op {x}"),
        }
        if !lazy {
            do_poll(&mut r, out, &mut finished);
        }
    }
    if !finished {
        do_poll(&mut r, out, &mut finished);
    }
}

fn exhaustive(out: &mut Out, len: usize) {
    // alphabet per direction: w(2), dl(1), dl(all), close; budgets unlimited or per-byte grants
    for budgeted in [false, true] {
        let mut alphabet: Vec<Value> = vec![];
        for d in 0..2 {
            alphabet.push(json!({"a": "w", "d": d, "n": 2}));
            alphabet.push(json!({"a": "dl", "d": d, "n": 1}));
            alphabet.push(json!({"a": "dl", "d": d, "n": 0}));
            alphabet.push(json!({"a": "close", "d": d}));
            if budgeted {
                alphabet.push(json!({"a": "wb", "d": d, "n": 1}));
                alphabet.push(json!({"a": "wbinf", "d": d}));
            }
        }
        let k = alphabet.len();
        for max in [0u64, 1, 3] {
            let n = if budgeted { len.saturating_sub(1).max(1) } else { len };
            let mut idx = vec![0usize; n];
            loop {
                let ops: Vec<Value> = idx.iter().map(|&i| alphabet[i].clone()).collect();
                run(out, &json!({"max": max, "budgeted": budgeted, "ops": ops}));
                let mut j = 0;
                while j < n {
                    idx[j] += 1;
                    if idx[j] < k {
                        break;
                    }
                    idx[j] = 0;
                    j += 1;
                }
                if j == n {
                    break;
                }
            }
        }
    }
}

fn random(out: &mut Out, seed: u64, runs: u64) {
    let mut rng = vcommon::rng(seed);
    let sizes = [1u64, 2, 3, 7, 100, 1000, 8191, 8192, 8193, 20000, 40000];
    let maxes = [0u64, 1, 5, 100, 8192, 8193, 30000, 100000];
    for i in 0..runs {
        let max = maxes[rng.gen_range(0..maxes.len())];
        let budgeted = rng.gen_bool(0.4);
        let lazy = rng.gen_bool(0.3);
        let rc = [0u64, 0, 1, 3, 5000][rng.gen_range(0..5)];
        let wc = [0u64, 0, 1, 2, 7000][rng.gen_range(0..5)];
        let len = rng.gen_range(4..=30);
        let mut ops = vec![];
        // every 7th run: drive the byte counter exactly to max first, then flood both directions
        if i % 7 == 3 && max > 0 {
            ops.push(json!({"a": "wbinf", "d": 0}));
            ops.push(json!({"a": "wbinf", "d": 1}));
            ops.push(json!({"a": "w", "d": 0, "n": max}));
            ops.push(json!({"a": "dl", "d": 0, "n": 0}));
            ops.push(json!({"a": "poll"}));
            ops.push(json!({"a": "w", "d": 0, "n": 20000}));
            ops.push(json!({"a": "w", "d": 1, "n": 20000}));
            ops.push(json!({"a": "dl", "d": 1, "n": 0}));
            ops.push(json!({"a": "dl", "d": 0, "n": 0}));
            ops.push(json!({"a": "poll"}));
        }
        for _ in 0..len {
            let d = rng.gen_range(0..2);
            let op = match rng.gen_range(0..100) {
                0..=29 => json!({"a": "w", "d": d, "n": sizes[rng.gen_range(0..sizes.len())]}),
                30..=49 => json!({"a": "dl", "d": d, "n": 0}),
                50..=64 => json!({"a": "dl", "d": d, "n": sizes[rng.gen_range(0..sizes.len())]}),
                65..=71 => json!({"a": "close", "d": d}),
                72..=84 => json!({"a": "wb", "d": d, "n": sizes[rng.gen_range(0..sizes.len())]}),
                85..=90 => json!({"a": "wbinf", "d": d}),
                91..=97 => json!({"a": "poll"}),
                _ => json!({"a": "fail", "d": d, "what": if rng.gen_bool(0.5) { "read" } else { "write" }}),
            };
            ops.push(op);
        }
        if rng.gen_bool(0.5) {
            // orderly ending: everything delivered, budgets opened, both sides closed
            for d in 0..2 {
                ops.push(json!({"a": "wbinf", "d": d}));
                ops.push(json!({"a": "dl", "d": d, "n": 0}));
                ops.push(json!({"a": "close", "d": d}));
            }
            ops.push(json!({"a": "poll"}));
        }
        run(out, &json!({"max": max, "budgeted": budgeted, "lazy": lazy, "rc": rc, "wc": wc, "ops": ops}));
    }
}

/// runs with a real (short) max_circuit_duration
fn timed(out: &mut Out, runs: u64) {
    for i in 0..runs {
        let dur = 60 + 40 * (i % 3);
        let mut ops = vec![json!({"a": "w", "d": i % 2, "n": 10}), json!({"a": "dl", "d": i % 2, "n": 0})];
        if i % 2 == 1 {
            ops.push(json!({"a": "close", "d": 0}));
        }
        ops.push(json!({"a": "expire"}));
        run(out, &json!({"max": 0, "dur_ms": dur, "ops": ops}));
    }
}

fn main() {
    vcommon::quiet_panics();
    let a = vcommon::Args::parse();
    match a.mode.as_str() {
        "replay" => {
            let scheds = vcommon::read_schedules(a.get(0));
            let mut out = Out::create(a.get(1));
            for s in &scheds {
                run(&mut out, s);
            }
            println!("runs={} events={}", out.run, out.events);
            out.finish();
        }
        "exhaustive" => {
            let mut out = Out::create(a.get(1));
            exhaustive(&mut out, a.num(0) as usize);
            println!("runs={} events={}", out.run, out.events);
            out.finish();
        }
        "random" => {
            let mut out = Out::create(a.get(2));
            random(&mut out, a.num(0), a.num(1));
            println!("runs={} events={}", out.run, out.events);
            out.finish();
        }
        "timed" => {
            let mut out = Out::create(a.get(1));
            timed(&mut out, a.num(0));
            println!("runs={} events={}", out.run, out.events);
            out.finish();
        }
        m => {
            eprintln!("unknown mode {m}");
            std::process::exit(2)
        }
    }
}
