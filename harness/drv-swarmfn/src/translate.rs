//! C13: `_address_translation(original, observed)` on every pair of component-kind sequences.
//! Record: {"orig":[[kind,val]..], "obs":[..], "some":bool, "out":[[kind,val]..]}
use libp2p_core::{multiaddr::Protocol, Multiaddr};
use libp2p_identity::PeerId;
use vcommon::{json, Out, Value};

pub const KINDS: [&str; 9] = ["ip4", "ip6", "dns", "dns4", "dns6", "tcp", "udp", "quic-v1", "p2p"];

pub fn comp(kind: &str, v: u8, peers: &[PeerId]) -> Protocol<'static> {
    match kind {
        "ip4" => Protocol::Ip4([10, 0, 0, v].into()),
        "ip6" => Protocol::Ip6([0xfd00, 0, 0, 0, 0, 0, 0, v as u16].into()),
        "dns" => Protocol::Dns(format!("h{v}.example").into()),
        "dns4" => Protocol::Dns4(format!("h{v}.example").into()),
        "dns6" => Protocol::Dns6(format!("h{v}.example").into()),
        "tcp" => Protocol::Tcp(1000 + v as u16),
        "udp" => Protocol::Udp(2000 + v as u16),
        "quic-v1" => Protocol::QuicV1,
        "p2p" => Protocol::P2p(peers[v as usize % peers.len()]),
        k => panic!("kind {k}"),
    }
}

/// abstract a concrete component back to [kind, val]
pub fn abs(p: &Protocol<'_>, peers: &[PeerId]) -> Value {
    match p {
        Protocol::Ip4(a) => json!(["ip4", a.octets()[3]]),
        Protocol::Ip6(a) => json!(["ip6", a.segments()[7]]),
        Protocol::Dns(h) => json!(["dns", host_val(h)]),
        Protocol::Dns4(h) => json!(["dns4", host_val(h)]),
        Protocol::Dns6(h) => json!(["dns6", host_val(h)]),
        Protocol::Tcp(p) => json!(["tcp", *p as i64 - 1000]),
        Protocol::Udp(p) => json!(["udp", *p as i64 - 2000]),
        Protocol::QuicV1 => json!(["quic-v1", 0]),
        Protocol::P2p(id) => json!(["p2p", peers.iter().position(|x| x == id).map(|i| i as i64).unwrap_or(-1)]),
        other => json!([format!("other:{other}"), -1]),
    }
}

fn host_val(h: &str) -> i64 {
    h.strip_prefix('h').and_then(|r| r.strip_suffix(".example")).and_then(|n| n.parse().ok()).unwrap_or(-1)
}

fn build(seq: &[(usize, u8)], peers: &[PeerId]) -> (Multiaddr, Value) {
    let mut m = Multiaddr::empty();
    let mut a = vec![];
    for &(k, v) in seq {
        let v = if KINDS[k] == "quic-v1" { 0 } else { v };
        m.push(comp(KINDS[k], v, peers));
        a.push(json!([KINDS[k], v]));
    }
    (m, Value::Array(a))
}

fn seqs(maxlen: usize, val: u8) -> Vec<Vec<(usize, u8)>> {
    let mut all = vec![vec![]];
    let mut frontier = vec![vec![]];
    for _ in 0..maxlen {
        let mut next = vec![];
        for s in &frontier {
            for k in 0..KINDS.len() {
                let mut t: Vec<(usize, u8)> = s.clone();
                t.push((k, val));
                next.push(t);
            }
        }
        all.extend(next.iter().cloned());
        frontier = next;
    }
    all
}

pub fn main(a: &vcommon::Args) {
    vcommon::quiet_panics();
    let peers: Vec<PeerId> = (0..4).map(|_| PeerId::random()).collect();
    let maxlen = a.num(0) as usize;
    let mut out = Out::create(a.get(1));
    let origs = seqs(maxlen, 1);
    let obss = seqs(maxlen, 2);
    // second family: the observed address starts with the SAME value as the original (same host seen from outside),
    // its later components still differ
    let same_first: Vec<Vec<(usize, u8)>> = obss
        .iter()
        .filter(|b| !b.is_empty())
        .map(|b| {
            let mut t = b.clone();
            t[0].1 = 1;
            t
        })
        .collect();
    for o in &origs {
        for b in obss.iter().chain(same_first.iter().filter(|b| !o.is_empty() && o[0].0 == b[0].0)) {
            let (om, oa) = build(o, &peers);
            let (bm, ba) = build(b, &peers);
            match vcommon::guard(|| libp2p_swarm::_address_translation(&om, &bm)) {
                Ok(r) => {
                    let outv: Vec<Value> = r.iter().flat_map(|m| m.iter().map(|p| abs(&p, &peers)).collect::<Vec<_>>()).collect();
                    out.ev(json!({"orig": oa, "obs": ba, "some": r.is_some(), "out": outv}));
                }
                Err(m) => out.ev(json!({"orig": oa, "obs": ba, "panic": m, "some": false, "out": []})),
            }
        }
    }
    println!("records={}", out.events);
    out.finish();
}
