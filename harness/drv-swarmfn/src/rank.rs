//! C09: smart-dial ranking on every multiset (size <= N) over an abstract alphabet of address
//! shapes. Record: {"in":[[idx,group,transport]..], "out":[[idx,delay_ms]..]}
//! group = the DOCUMENTED group of the address shape: private / public / relay / other.
use libp2p_core::{multiaddr::Protocol, Multiaddr};
use libp2p_identity::PeerId;
use vcommon::{json, Out, Value};

#[derive(Clone, Copy, Debug)]
enum Host {
    V4Priv,
    V4Pub,
    V4Loop,
    V6Priv,
    V6Pub,
    DnsLocal,
    DnsSubLocal,
    DnsNon,
    Dns4Non,
    None,
}
#[derive(Clone, Copy, Debug)]
enum Tr {
    QuicV1,
    Quic,
    Tcp,
    WebrtcDirect,
    None,
}
#[derive(Clone, Copy, Debug)]
struct Letter {
    host: Host,
    tr: Tr,
    circuit: bool,
}

fn alphabet() -> Vec<Letter> {
    let mut v = vec![];
    for host in [Host::V4Priv, Host::V4Pub, Host::V6Priv, Host::V6Pub, Host::DnsLocal, Host::DnsNon] {
        for tr in [Tr::QuicV1, Tr::Tcp] {
            v.push(Letter { host, tr, circuit: false });
        }
    }
    v.push(Letter { host: Host::V4Pub, tr: Tr::Quic, circuit: false });
    v.push(Letter { host: Host::V4Pub, tr: Tr::WebrtcDirect, circuit: false });
    v.push(Letter { host: Host::V4Loop, tr: Tr::Tcp, circuit: false });
    v.push(Letter { host: Host::DnsSubLocal, tr: Tr::Tcp, circuit: false });
    v.push(Letter { host: Host::Dns4Non, tr: Tr::Tcp, circuit: false });
    v.push(Letter { host: Host::DnsNon, tr: Tr::None, circuit: false });
    v.push(Letter { host: Host::V4Pub, tr: Tr::Tcp, circuit: true });
    v.push(Letter { host: Host::V4Pub, tr: Tr::QuicV1, circuit: true });
    v
}

/// reduced alphabet for the larger multisets: long public schedules (QUIC, TCP, Happy-Eyeballs pairs, WebRTC-direct
/// last), relay and no-IP addresses behind them
fn deep_alphabet() -> Vec<Letter> {
    vec![
        Letter { host: Host::V4Pub, tr: Tr::QuicV1, circuit: false },
        Letter { host: Host::V6Pub, tr: Tr::QuicV1, circuit: false },
        Letter { host: Host::V4Pub, tr: Tr::Tcp, circuit: false },
        Letter { host: Host::V6Pub, tr: Tr::Tcp, circuit: false },
        Letter { host: Host::V4Pub, tr: Tr::WebrtcDirect, circuit: false },
        Letter { host: Host::V4Priv, tr: Tr::Tcp, circuit: false },
        Letter { host: Host::V4Pub, tr: Tr::Tcp, circuit: true },
        Letter { host: Host::V4Pub, tr: Tr::QuicV1, circuit: true },
        Letter { host: Host::DnsNon, tr: Tr::Tcp, circuit: false },
    ]
}

/// the group the DOCUMENTATION / property statement assigns
fn group(l: &Letter) -> &'static str {
    if l.circuit {
        return "relay";
    }
    match l.host {
        Host::V4Priv | Host::V6Priv | Host::V4Loop | Host::DnsLocal | Host::DnsSubLocal => "private",
        Host::V4Pub | Host::V6Pub => "public",
        Host::DnsNon | Host::Dns4Non | Host::None => "other",
    }
}

fn tr_name(l: &Letter) -> &'static str {
    match l.tr {
        Tr::QuicV1 | Tr::Quic => "quic",
        Tr::Tcp => "tcp",
        Tr::WebrtcDirect => "webrtc",
        Tr::None => "none",
    }
}

fn concretise(l: &Letter, idx: usize, relay: &PeerId) -> Multiaddr {
    let mut m = Multiaddr::empty();
    let x = (idx % 200) as u8 + 1;
    match l.host {
        Host::V4Priv => m.push(Protocol::Ip4([10, 0, 0, x].into())),
        Host::V4Pub => m.push(Protocol::Ip4([8, 8, 8, x].into())),
        Host::V4Loop => m.push(Protocol::Ip4([127, 0, 0, x].into())),
        Host::V6Priv => m.push(Protocol::Ip6([0xfd00, 0, 0, 0, 0, 0, 0, x as u16].into())),
        Host::V6Pub => m.push(Protocol::Ip6([0x2001, 0x4860, 0, 0, 0, 0, 0, x as u16].into())),
        Host::DnsLocal => m.push(Protocol::Dns("localhost".into())),
        Host::DnsSubLocal => m.push(Protocol::Dns("node.localhost".into())),
        Host::DnsNon => m.push(Protocol::Dns("example.com".into())),
        Host::Dns4Non => m.push(Protocol::Dns4("libp2p.io".into())),
        Host::None => {}
    }
    let port = 4000 + idx as u16; // unique port = unique identity of the input element
    match l.tr {
        Tr::QuicV1 => {
            m.push(Protocol::Udp(port));
            m.push(Protocol::QuicV1)
        }
        Tr::Quic => {
            m.push(Protocol::Udp(port));
            m.push(Protocol::Quic)
        }
        Tr::Tcp => m.push(Protocol::Tcp(port)),
        Tr::WebrtcDirect => {
            m.push(Protocol::Udp(port));
            m.push(Protocol::WebRTCDirect)
        }
        Tr::None => m.push(Protocol::P2p(PeerId::random())), // unique per element
    }
    if l.circuit {
        m.push(Protocol::P2p(*relay));
        m.push(Protocol::P2pCircuit);
    }
    m
}

fn emit(out: &mut Out, letters: &[Letter], combo: &[usize], relay: &PeerId) {
    let addrs: Vec<Multiaddr> = combo.iter().enumerate().map(|(i, &li)| concretise(&letters[li], i, relay)).collect();
    let inp: Vec<Value> = combo.iter().enumerate().map(|(i, &li)| json!([i, group(&letters[li]), tr_name(&letters[li])])).collect();
    match vcommon::guard(|| libp2p_swarm::verif::rank_addrs(addrs.clone())) {
        Ok(r) => {
            let outv: Vec<Value> = r
                .iter()
                .map(|(d, a)| {
                    let idx = addrs.iter().position(|x| x == a).map(|i| i as i64).unwrap_or(-1);
                    json!([idx, d.as_millis() as u64])
                })
                .collect();
            out.ev(json!({"in": inp, "out": outv, "addrs": addrs.iter().map(|a| a.to_string()).collect::<Vec<_>>()}));
        }
        Err(m) => out.ev(json!({"in": inp, "out": [], "panic": m})),
    }
}

pub fn main(a: &vcommon::Args) {
    vcommon::quiet_panics();
    let maxn = a.num(0) as usize;
    let mut out = Out::create(a.get(1));
    let letters = alphabet();
    let relay = PeerId::random();
    enumerate(&mut out, &letters, 1, maxn, &relay);
    // deep=N: every multiset (both orders) of size 5..=N over the reduced alphabet
    let deep = a.kv_num("deep", 0) as usize;
    if deep >= 5 {
        enumerate(&mut out, &deep_alphabet(), 5, deep, &relay);
    }
    println!("records={}", out.events);
    out.finish();
}

fn enumerate(out: &mut Out, letters: &[Letter], from: usize, maxn: usize, relay: &PeerId) {
    let k = letters.len();
    // all sequences (order matters for a stable sort based ranker) of length 1..=2, multisets for longer
    for n in from..=maxn {
        let mut idx = vec![0usize; n];
        loop {
            let ordered = n <= 2 || idx.windows(2).all(|w| w[0] <= w[1]);
            if ordered {
                emit(out, letters, &idx, relay);
                if n > 2 {
                    // also the reversed order of the same multiset
                    let rev: Vec<usize> = idx.iter().rev().cloned().collect();
                    if rev != idx {
                        emit(out, letters, &rev, relay);
                    }
                }
            }
            let mut j = 0;
            while j < n {
                idx[j] += 1;
                if idx[j] < k {
                    break;
                }
                idx[j] = 0;
                j += 1;
            }
            if j == n {
                break;
            }
        }
    }
}
