//! Driver for pure / helper functions of libp2p-swarm: address translation (C13), ...
mod rank;
mod translate;

fn main() {
    let a = vcommon::Args::parse();
    match a.mode.as_str() {
        "translate" => translate::main(&a),
        "rank" => rank::main(&a),
        m => {
            eprintln!("unknown mode {m}");
            std::process::exit(2)
        }
    }
}
