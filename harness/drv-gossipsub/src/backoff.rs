//! C32: the real `BackoffStorage` (through the verif wrapper) under the verif clock.
//! Logical time is counted in ticks of `TICK` seconds; the heartbeat interval is `h` ticks, the
//! prune backoff `pb` ticks, update durations `d` ticks (also longer than the ring).  After every
//! operation the state of every (topic, peer) pair is logged:
//!   st [[topic, peer, is_backoff_with_slack, get_backoff_time > now]..]
use std::time::Duration;

use libp2p_gossipsub::{
    verif::{clock, BackoffStorage},
    IdentTopic, TopicHash,
};
use libp2p_identity::PeerId;
use rand::Rng;
use vcommon::{json, Out, Value};

/// seconds per tick: far more than any real time a run can take
const TICK: u64 = 1000;

fn run(out: &mut Out, sched: &Value) {
    let c = &sched["cfg"];
    let pb = vcommon::n(c, "pb") as u64;
    let slack = vcommon::n(c, "slack") as u32;
    let h = vcommon::n(c, "h") as u64;
    let nt = vcommon::n(c, "nt") as usize;
    let np = vcommon::n(c, "np") as usize;
    let topics: Vec<TopicHash> = (0..nt).map(|t| IdentTopic::new(format!("t{t}")).hash()).collect();
    let peers: Vec<PeerId> = (0..np).map(|_| PeerId::random()).collect();
    let mut bs = BackoffStorage::new(&Duration::from_secs(pb * TICK), Duration::from_secs(h * TICK), slack);
    // slots of the ring as the documentation of BackoffStorage::new states it
    let ring = pb.div_ceil(h) + slack as u64 + 1;
    out.reset_with(json!({"pb": pb, "slack": slack, "h": h, "nt": nt, "np": np, "ring": ring}), sched);
    for op in sched["ops"].as_array().unwrap() {
        let a = vcommon::s(op, "a");
        let mut ev = op.clone();
        ev.as_object_mut().unwrap().remove("a");
        ev["e"] = json!(a);
        let r = vcommon::guard(|| {
            match a.as_str() {
                "upd" => {
                    let t = vcommon::n(op, "t") as usize;
                    let p = vcommon::n(op, "p") as usize;
                    let d = vcommon::n(op, "d") as u64;
                    bs.update_backoff(&topics[t], &peers[p], Duration::from_secs(d * TICK));
                }
                "hb" => bs.heartbeat(),
                "tick" => clock::advance(Duration::from_secs(vcommon::n(op, "d") as u64 * TICK)),
                x => panic!("op {x}"),
            }
            let now = clock::Instant::now();
            let mut st = vec![];
            for (ti, t) in topics.iter().enumerate() {
                for (pi, p) in peers.iter().enumerate() {
                    let isbo = bs.is_backoff_with_slack(t, p);
                    let fut = bs.get_backoff_time(t, p).map(|i| i > now).unwrap_or(false);
                    st.push(json!([ti, pi, isbo as u8, fut as u8]));
                }
            }
            st
        });
        match r {
            Ok(st) => {
                ev["st"] = json!(st);
                out.ev(ev);
            }
            Err(m) => {
                out.ev(json!({"e": "panic", "msg": m.chars().take(200).collect::<String>()}));
                break;
            }
        }
    }
}

pub fn main(a: &vcommon::Args) {
    vcommon::quiet_panics();
    match a.get(0) {
        "replay" => {
            let scheds = vcommon::read_schedules(a.get(1));
            let mut out = Out::create(a.get(2));
            for s in &scheds {
                run(&mut out, s);
            }
            println!("runs={} events={}", out.run, out.events);
            out.finish();
        }
        // every op sequence of length n over {upd d in {1, pb, 2*ring+1}, hb, tick 1}, one pair,
        // for (pb, slack, h) in {(2,1,1), (3,0,2)}
        "exhaustive" => {
            let n = a.num(1) as usize;
            let mut out = Out::create(a.get(2));
            for (pb, slack, h) in [(2u64, 1u64, 1u64), (3, 0, 2)] {
                let ring = pb.div_ceil(h) + slack + 1;
                let alphabet = vec![
                    json!({"a": "upd", "t": 0, "p": 0, "d": 1}),
                    json!({"a": "upd", "t": 0, "p": 0, "d": pb}),
                    json!({"a": "upd", "t": 0, "p": 0, "d": 2 * ring * h + 1}),
                    json!({"a": "hb"}),
                    json!({"a": "tick", "d": 1}),
                ];
                let k = alphabet.len();
                let mut idx = vec![0usize; n];
                loop {
                    let ops: Vec<Value> = idx.iter().map(|&i| alphabet[i].clone()).collect();
                    run(&mut out, &json!({"cfg": {"pb": pb, "slack": slack, "h": h, "nt": 1, "np": 1}, "ops": ops}));
                    let mut j = 0;
                    while j < n {
                        idx[j] += 1;
                        if idx[j] < k {
                            break;
                        }
                        idx[j] = 0;
                        j += 1;
                    }
                    if j == n {
                        break;
                    }
                }
            }
            println!("runs={} events={}", out.run, out.events);
            out.finish();
        }
        "random" => {
            let seed = a.num(1);
            let runs = a.num(2);
            let mut out = Out::create(a.get(3));
            let mut rng = vcommon::rng(seed ^ 0x5bd1_e995);
            for _ in 0..runs {
                let pb = rng.gen_range(1..=6u64);
                let slack = rng.gen_range(0..=2u64);
                let h = rng.gen_range(1..=3u64);
                let ring = pb.div_ceil(h) + slack + 1;
                let nt = rng.gen_range(1..=2usize);
                let np = rng.gen_range(1..=2usize);
                let len = rng.gen_range(15..=60);
                let mut ops = vec![];
                for _ in 0..len {
                    let x = rng.gen_range(0..100);
                    ops.push(if x < 35 {
                        let d = match rng.gen_range(0..4) {
                            0 => rng.gen_range(1..=pb),
                            1 => rng.gen_range(1..=h),
                            2 => rng.gen_range(pb..=(ring * h * 2 + 2)), // longer than the ring: wraps
                            _ => rng.gen_range(1..=(pb + 3)),
                        };
                        json!({"a": "upd", "t": rng.gen_range(0..nt), "p": rng.gen_range(0..np), "d": d})
                    } else if x < 75 {
                        json!({"a": "hb"})
                    } else {
                        json!({"a": "tick", "d": rng.gen_range(1..=3)})
                    });
                }
                // tail: let everything expire and be forgotten
                if rng.gen_bool(0.5) {
                    ops.push(json!({"a": "tick", "d": ring * h * 3 + 5}));
                    for _ in 0..(2 * ring + 1) {
                        ops.push(json!({"a": "hb"}));
                    }
                }
                run(&mut out, &json!({"cfg": {"pb": pb, "slack": slack, "h": h, "nt": nt, "np": np}, "ops": ops}));
            }
            println!("runs={} events={}", out.run, out.events);
            out.finish();
        }
        m => panic!("backoff mode {m}"),
    }
}
