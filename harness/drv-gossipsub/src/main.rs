//! Driver for the gossipsub ROUTER family (behaviour.rs / backoff.rs / handler.rs):
//!   router  ...   C28 C29 C35 C36 (+ router level of C32): one real Behaviour, all entry points
//!   backoff ...   C32: the real BackoffStorage under the verif clock
//!   net     ...   C27: up to a dozen real Behaviours, the driver is the network
mod backoff;
mod net;
mod router;

fn main() {
    let a = vcommon::Args::parse();
    let rest = vcommon::Args { mode: a.mode.clone(), rest: a.rest.clone() };
    match a.mode.as_str() {
        "router" => router::main(&rest),
        "backoff" => backoff::main(&rest),
        "net" => net::main(&rest),
        m => {
            eprintln!("unknown mode {m}");
            std::process::exit(2)
        }
    }
}
