//! C28 / C29 / C35 / C36 (+ router level of C32): one REAL `gossipsub::Behaviour` driven through its
//! entry points exactly as the swarm would (handle_established_*_connection, on_swarm_event,
//! on_connection_handler_event with RPCs that went through the real codec, subscribe / unsubscribe /
//! publish / set_application_score, heartbeat via the hook), with the REAL connection `Handler`s
//! kept per connection and fed every `NotifyHandler` the behaviour emits.
//!
//! After every operation one event is logged with the complete observable state:
//!   mesh   [[peer..] per topic]   Behaviour::mesh_peers
//!   subs   [topic..]              Behaviour::topics
//!   trk    [[topic..] per peer]   Behaviour::all_peers (tracked topics; [] when not connected)
//!   cp     [peer..]               peers known to the behaviour (all_peers keys)
//!   fan    [[peer..] per topic]   verif_fanout (hook)
//!   ntf    [[peer, conn, 1|0]..]  drained NotifyHandler(JoinedMesh=1 / LeftMesh=0), in order
//!   keep   [conn..]               connections whose real Handler::connection_keep_alive() is true
//!   neg/low [peer..]              connected peers with score < 0 / < publish_threshold
//!   sc     [[peer, score]..]      score of every connected peer, rounded to an integer
//!   gr     [[peer, topic]..]      GRAFTs queued for peers in this step
//!   pr     [[peer, topic, secs]..] PRUNEs queued (secs = -1 when the backoff field is absent)
//!   pubto  [peer..]               recipients of a Publish in this step
//!   bo     [[topic, peer]..]      pairs the behaviour's BackoffStorage reports as backed off
//! Time is logical: `tick d` advances the gossipsub verif clock by d units of `UNIT` seconds.
use std::{
    collections::{BTreeMap, HashSet},
    task::{Context, Poll},
    time::Duration,
};

use libp2p_core::{transport::PortUse, ConnectedPoint, Endpoint, Multiaddr};
use libp2p_gossipsub::{
    self as gs,
    verif::{self, pb, HandlerEvent, HandlerIn, PeerKind},
    AllowAllSubscriptionFilter, Behaviour, CallbackSubscriptionFilter, CombinedSubscriptionFilters,
    ConfigBuilder, IdentTopic, IdentityTransform, MaxCountSubscriptionFilter, MessageAuthenticity,
    PeerScoreParams, PeerScoreThresholds, TopicHash, TopicSubscriptionFilter, ValidationMode,
    WhitelistSubscriptionFilter,
};
use libp2p_identity::PeerId;
use libp2p_swarm::{
    behaviour::{ConnectionClosed, ConnectionEstablished, FromSwarm},
    ConnectionHandler, ConnectionId, NetworkBehaviour, NotifyHandler, ToSwarm,
};
use rand::Rng;
use vcommon::{json, Out, Value};

/// seconds per logical time unit (the heartbeat interval). Large, so that the real time that
/// elapses while a run executes (micro/milliseconds) can never add up to one unit.
pub const UNIT: u64 = 60;
pub const PRUNE_BACKOFF_UNITS: u64 = 3;
pub const UNSUB_BACKOFF_UNITS: u64 = 1;
pub const BACKOFF_SLACK: u32 = 1;

fn topic_name(t: usize) -> String {
    format!("t{t}")
}

fn arr_usize(v: &Value, k: &str) -> Vec<usize> {
    v.get(k)
        .and_then(|x| x.as_array())
        .map(|a| a.iter().map(|x| x.as_u64().expect("int") as usize).collect())
        .unwrap_or_default()
}

struct World<F: TopicSubscriptionFilter + Send + 'static> {
    gs: Behaviour<IdentityTransform, F>,
    cfg: gs::Config,
    peers: Vec<PeerId>,
    topics: Vec<IdentTopic>,
    kinds: Vec<String>,
    /// open connections per peer, in establishment order
    open: Vec<Vec<usize>>,
    handlers: BTreeMap<usize, gs::verif::Handler>,
    /// connections whose handler already reported the negotiated protocol (a handler reports it
    /// before it can deliver any message, so RPCs are only injected on such connections)
    kinded: HashSet<usize>,
    publish_threshold: f64,
    pub_seq: u64,
    /// slow peers: their send queues are not drained (they fill up)
    stalled: HashSet<usize>,
}

fn kind_of(s: &str) -> PeerKind {
    match s {
        "f" => PeerKind::Floodsub,
        "g" => PeerKind::Gossipsubv1_1,
        "g2" => PeerKind::Gossipsubv1_2,
        x => panic!("kind {x}"),
    }
}

impl<F: TopicSubscriptionFilter + Send + 'static> World<F> {
    fn pidx(&self, p: &PeerId) -> i64 {
        self.peers.iter().position(|x| x == p).map(|i| i as i64).unwrap_or(-1)
    }
    fn tidx(&self, t: &str) -> i64 {
        self.topics.iter().position(|x| x.hash().as_str() == t).map(|i| i as i64).unwrap_or(-1)
    }

    fn endpoint(&self, p: usize, c: usize, out: bool) -> ConnectedPoint {
        let addr: Multiaddr = format!("/ip4/10.0.{}.{}/tcp/{}", p / 200, 1 + p % 200, 1000 + c).parse().unwrap();
        if out {
            ConnectedPoint::Dialer { address: addr, role_override: Endpoint::Dialer, port_use: PortUse::Reuse }
        } else {
            ConnectedPoint::Listener { local_addr: "/ip4/10.9.9.9/tcp/9".parse().unwrap(), send_back_addr: addr }
        }
    }

    /// Execute one op against the real behaviour. Returns the op-specific result fields.
    fn apply(&mut self, op: &Value) -> Value {
        let a = vcommon::s(op, "a");
        match a.as_str() {
            "connect" => {
                let p = vcommon::n(op, "p") as usize;
                let c = vcommon::n(op, "c") as usize;
                let out = op.get("out").and_then(|x| x.as_bool()).unwrap_or(false);
                if self.handlers.contains_key(&c) || self.open.iter().any(|v| v.contains(&c)) {
                    return json!({"skip": true});
                }
                let cid = ConnectionId::new_unchecked(c);
                let ep = self.endpoint(p, c, out);
                let peer = self.peers[p];
                let h = if out {
                    self.gs.handle_established_outbound_connection(cid, peer, ep.get_remote_address(), Endpoint::Dialer, PortUse::Reuse)
                } else {
                    let local: Multiaddr = "/ip4/10.9.9.9/tcp/9".parse().unwrap();
                    self.gs.handle_established_inbound_connection(cid, peer, &local, ep.get_remote_address())
                };
                let h = match h {
                    Ok(h) => h,
                    Err(_) => return json!({"denied": true}),
                };
                self.handlers.insert(c, h);
                let other = self.open[p].len();
                self.gs.on_swarm_event(FromSwarm::ConnectionEstablished(ConnectionEstablished {
                    peer_id: peer,
                    connection_id: cid,
                    endpoint: &ep,
                    failed_addresses: &[],
                    other_established: other,
                }));
                self.open[p].push(c);
                json!({"out": out})
            }
            "kind" => {
                let p = vcommon::n(op, "p") as usize;
                let c = vcommon::n(op, "c") as usize;
                if !self.open[p].contains(&c) {
                    return json!({"skip": true});
                }
                let k = op.get("k").and_then(|x| x.as_str()).map(|s| s.to_string()).unwrap_or_else(|| self.kinds[p].clone());
                self.gs.on_connection_handler_event(self.peers[p], ConnectionId::new_unchecked(c), HandlerEvent::PeerKind(kind_of(&k)));
                self.kinded.insert(c);
                json!({"k": if k == "f" { "f" } else { "g" }})
            }
            "close" => {
                let p = vcommon::n(op, "p") as usize;
                let c = vcommon::n(op, "c") as usize;
                let Some(pos) = self.open[p].iter().position(|x| *x == c) else {
                    return json!({"skip": true});
                };
                self.open[p].remove(pos);
                self.handlers.remove(&c);
                self.kinded.remove(&c);
                let ep = self.endpoint(p, c, false);
                self.gs.on_swarm_event(FromSwarm::ConnectionClosed(ConnectionClosed {
                    peer_id: self.peers[p],
                    connection_id: ConnectionId::new_unchecked(c),
                    endpoint: &ep,
                    cause: None,
                    remaining_established: self.open[p].len(),
                }));
                json!({})
            }
            "rpc" => {
                let p = vcommon::n(op, "p") as usize;
                let ready: Vec<usize> = self.open[p].iter().copied().filter(|c| self.kinded.contains(c)).collect();
                if ready.is_empty() {
                    return json!({"skip": true});
                }
                let c = ready[op.get("ci").and_then(|x| x.as_u64()).unwrap_or(0) as usize % ready.len()];
                let mut rpc = pb::Rpc::default();
                if let Some(subs) = op.get("subs").and_then(|x| x.as_array()) {
                    for s in subs {
                        let t = s[0].as_u64().unwrap() as usize;
                        let on = s[1].as_bool().unwrap();
                        rpc.subscriptions.push(pb::rpc::SubOpts {
                            subscribe: Some(on),
                            topic_id: Some(topic_name(t)),
                            ..Default::default()
                        });
                    }
                }
                let grafts = arr_usize(op, "graft");
                let prunes = op.get("prune").and_then(|x| x.as_array()).cloned().unwrap_or_default();
                if !grafts.is_empty() || !prunes.is_empty() {
                    let mut ctl = pb::ControlMessage::default();
                    for t in grafts {
                        ctl.graft.push(pb::ControlGraft { topic_id: Some(topic_name(t)) });
                    }
                    for pr in prunes {
                        let t = pr[0].as_u64().unwrap() as usize;
                        let b = pr[1].as_i64().unwrap();
                        ctl.prune.push(pb::ControlPrune {
                            topic_id: Some(topic_name(t)),
                            peers: vec![],
                            backoff: if b < 0 { None } else { Some(b as u64) },
                        });
                    }
                    rpc.control = Some(ctl);
                }
                // the production decode path: real codec, real conversion to RpcIn
                match verif::rpc_event(&self.cfg, rpc) {
                    Ok(Some(ev)) => {
                        self.gs.on_connection_handler_event(self.peers[p], ConnectionId::new_unchecked(c), ev);
                        json!({"c": c})
                    }
                    Ok(None) => json!({"skip": true, "why": "codec dropped"}),
                    Err(e) => json!({"skip": true, "why": e}),
                }
            }
            "sub" => {
                let t = vcommon::n(op, "t") as usize;
                let r = self.gs.subscribe(&self.topics[t]);
                json!({"res": match r { Ok(true) => "new", Ok(false) => "already", Err(_) => "denied" }})
            }
            "unsub" => {
                let t = vcommon::n(op, "t") as usize;
                let r = self.gs.unsubscribe(&self.topics[t]);
                json!({"res": r})
            }
            "pub" => {
                let t = vcommon::n(op, "t") as usize;
                self.pub_seq += 1;
                let data = format!("m{}", self.pub_seq).into_bytes();
                let r = self.gs.publish(self.topics[t].hash(), data);
                json!({"res": match r { Ok(_) => "ok".to_string(), Err(e) => format!("{e:?}").chars().take(24).collect::<String>() }})
            }
            "score" => {
                let p = vcommon::n(op, "p") as usize;
                let v = vcommon::n(op, "v") as f64;
                let r = self.gs.set_application_score(&self.peers[p], v);
                json!({"res": r})
            }
            // a slow peer: from now on its send queue is not drained / is drained again
            "stall" => {
                self.stalled.insert(vcommon::n(op, "p") as usize);
                json!({})
            }
            "unstall" => {
                self.stalled.remove(&(vcommon::n(op, "p") as usize));
                json!({})
            }
            "hb" => {
                self.gs.verif_heartbeat();
                json!({})
            }
            "tick" => {
                let d = vcommon::n(op, "d") as u64;
                verif::clock::advance(Duration::from_secs(d * UNIT));
                json!({})
            }
            x => panic!("unknown op {x}"),
        }
    }

    /// Drain the behaviour's pending events; feed NotifyHandler to the real handlers.
    fn drain(&mut self) -> Vec<Value> {
        let waker = futures::task::noop_waker();
        let mut cx = Context::from_waker(&waker);
        let mut ntf = vec![];
        for _ in 0..100_000 {
            match self.gs.poll(&mut cx) {
                Poll::Ready(ToSwarm::NotifyHandler { peer_id, handler, event }) => {
                    let p = self.pidx(&peer_id);
                    let joined = matches!(event, HandlerIn::JoinedMesh);
                    match handler {
                        NotifyHandler::One(cid) => {
                            // recover the integer id
                            let c = self.handlers.keys().copied().find(|c| ConnectionId::new_unchecked(*c) == cid);
                            match c {
                                Some(c) => {
                                    self.handlers.get_mut(&c).unwrap().on_behaviour_event(event);
                                    ntf.push(json!([p, c, if joined { 1 } else { 0 }]));
                                }
                                // addressed to a connection that does not exist (any more): the
                                // swarm would drop it
                                None => ntf.push(json!([p, -2, if joined { 1 } else { 0 }])),
                            }
                        }
                        NotifyHandler::Any => {
                            // the swarm picks one; we deliver to the oldest open connection and say so
                            if p >= 0 {
                                if let Some(c) = self.open[p as usize].first().copied() {
                                    self.handlers.get_mut(&c).unwrap().on_behaviour_event(event);
                                    ntf.push(json!([p, c, if joined { 1 } else { 0 }]));
                                }
                            }
                        }
                    }
                }
                Poll::Ready(_) => {}
                Poll::Pending => break,
            }
        }
        ntf
    }

    fn observe(&mut self, ev: &mut Value) {
        let ntf = self.drain();
        let np = self.peers.len();
        let mut mesh = vec![];
        let mut fan = vec![];
        for t in &self.topics {
            let h = t.hash();
            let mut m: Vec<i64> = self.gs.mesh_peers(&h).map(|p| self.pidx(p)).collect();
            m.sort();
            mesh.push(m);
            let mut f: Vec<i64> = self.gs.verif_fanout(&h).unwrap_or_default().iter().map(|p| self.pidx(p)).collect();
            f.sort();
            fan.push(f);
        }
        let mut subs: Vec<i64> = self.gs.topics().map(|t| self.tidx(t.as_str())).collect();
        subs.sort();
        let mut trk: Vec<Vec<i64>> = vec![vec![]; np];
        let mut cp = vec![];
        for (p, ts) in self.gs.all_peers() {
            let i = self.pidx(p);
            if i >= 0 {
                let mut v: Vec<i64> = ts.iter().map(|t| self.tidx(t.as_str())).collect();
                v.sort();
                trk[i as usize] = v;
                cp.push(i);
            }
        }
        cp.sort();
        let keep: Vec<usize> = self.handlers.iter().filter(|(_, h)| h.connection_keep_alive()).map(|(c, _)| *c).collect();
        let mut neg = vec![];
        let mut low = vec![];
        let mut sc = vec![];
        for &i in &cp {
            if let Some(s) = self.gs.peer_score(&self.peers[i as usize]) {
                sc.push(json!([i, s.round().clamp(-1.0e9, 1.0e9) as i64]));
                if s < 0.0 {
                    neg.push(i);
                }
                if s < self.publish_threshold {
                    low.push(i);
                }
            }
        }
        // queued RPCs per peer
        let mut gr = vec![];
        let mut pr = vec![];
        let mut pubto = vec![];
        for i in 0..np {
            if self.stalled.contains(&i) {
                continue;
            }
            let peer = self.peers[i];
            for rpc in self.gs.verif_drain_rpcs(&peer) {
                if !rpc.publish.is_empty() {
                    pubto.push(i);
                }
                if let Some(ctl) = rpc.control {
                    for g in ctl.graft {
                        gr.push(json!([i, self.tidx(g.topic_id.as_deref().unwrap_or(""))]));
                    }
                    for x in ctl.prune {
                        pr.push(json!([i, self.tidx(x.topic_id.as_deref().unwrap_or("")), x.backoff.map(|b| b as i64).unwrap_or(-1)]));
                    }
                }
            }
        }
        pubto.sort();
        pubto.dedup();
        let mut bo = vec![];
        for (ti, t) in self.topics.iter().enumerate() {
            for i in 0..np {
                if self.gs.verif_is_backoff(&t.hash(), &self.peers[i]) {
                    bo.push(json!([ti, i]));
                }
            }
        }
        ev["mesh"] = json!(mesh);
        ev["subs"] = json!(subs);
        ev["trk"] = json!(trk);
        ev["cp"] = json!(cp);
        ev["fan"] = json!(fan);
        ev["ntf"] = json!(ntf);
        ev["keep"] = json!(keep);
        ev["neg"] = json!(neg);
        ev["low"] = json!(low);
        ev["sc"] = json!(sc);
        ev["gr"] = json!(gr);
        ev["pr"] = json!(pr);
        ev["pubto"] = json!(pubto);
        ev["bo"] = json!(bo);
    }
}

fn gs_config(c: &Value) -> gs::Config {
    let mut b = ConfigBuilder::default();
    b.mesh_n_low(vcommon::n(c, "lo") as usize)
        .mesh_n(vcommon::n(c, "n") as usize)
        .mesh_n_high(vcommon::n(c, "hi") as usize)
        .mesh_outbound_min(vcommon::n(c, "omin") as usize)
        .heartbeat_interval(Duration::from_secs(UNIT))
        .heartbeat_initial_delay(Duration::from_secs(1_000_000))
        .prune_backoff(Duration::from_secs(PRUNE_BACKOFF_UNITS * UNIT))
        .unsubscribe_backoff(Duration::from_secs(UNSUB_BACKOFF_UNITS * UNIT))
        .backoff_slack(BACKOFF_SLACK)
        .graft_flood_threshold(Duration::from_secs(UNIT))
        .flood_publish(false)
        .check_explicit_peers_ticks(1_000_000)
        .opportunistic_graft_ticks(if c.get("opp").and_then(|x| x.as_bool()).unwrap_or(false) { 2 } else { 1_000_000 })
        .validation_mode(ValidationMode::Permissive);
    if let Some(q) = c.get("qlen").and_then(|x| x.as_u64()) {
        b.connection_handler_queue_len(q as usize);
    }
    b.build().expect("valid gossipsub config")
}

fn run_with<F: TopicSubscriptionFilter + Send + 'static>(out: &mut Out, sched: &Value, filter: F) {
    let c = &sched["cfg"];
    let np = vcommon::n(c, "np") as usize;
    let nt = vcommon::n(c, "nt") as usize;
    let cfg = gs_config(c);
    let local = PeerId::random();
    let mut gsb: Behaviour<IdentityTransform, F> =
        Behaviour::new_with_subscription_filter(MessageAuthenticity::Author(local), cfg.clone(), filter).expect("behaviour");
    let mut params = PeerScoreParams::default();
    params.app_specific_weight = 10.0;
    params.decay_interval = Duration::from_secs(1_000_000);
    params.ip_colocation_factor_threshold = 1000.0;
    let mut th = PeerScoreThresholds::default();
    th.gossip_threshold = -10.0;
    th.publish_threshold = -50.0;
    th.graylist_threshold = -1.0e12;
    let publish_threshold = th.publish_threshold;
    gsb.with_peer_score(params, th).expect("score params");
    let peers: Vec<PeerId> = (0..np).map(|_| PeerId::random()).collect();
    let explicit = arr_usize(c, "explicit");
    for &p in &explicit {
        gsb.add_explicit_peer(&peers[p]);
    }
    let kinds: Vec<String> = c["kinds"].as_array().map(|a| a.iter().map(|x| x.as_str().unwrap().to_string()).collect()).unwrap_or_else(|| vec!["g".to_string(); np]);
    let mut w = World {
        gs: gsb,
        cfg,
        peers,
        topics: (0..nt).map(|t| IdentTopic::new(topic_name(t))).collect(),
        kinds,
        open: vec![vec![]; np],
        handlers: BTreeMap::new(),
        kinded: HashSet::new(),
        publish_threshold,
        pub_seq: 0,
        stalled: HashSet::new(),
    };
    let _ = w.drain(); // Dial requests for explicit peers
    let mut hdr = c.clone();
    // what the configured filter admits, as the statement defines it (oracle side, not taken from the code)
    let f = c.get("filter").cloned().unwrap_or(json!({"k": "all"}));
    let k = f.get("k").and_then(|x| x.as_str()).unwrap_or("all").to_string();
    let all: Vec<usize> = (0..nt).collect();
    let deny = f.get("deny").and_then(|x| x.as_u64()).unwrap_or(0) as usize;
    let allowed: Vec<usize> = match k.as_str() {
        "all" | "max" => all,
        "wl" | "maxwl" | "comb2" => arr_usize(&f, "allow"),
        "comb" => arr_usize(&f, "allow").into_iter().filter(|t| *t != deny).collect(),
        x => panic!("filter kind {x}"),
    };
    let counted = matches!(k.as_str(), "max" | "maxwl" | "comb" | "comb2");
    hdr["allowed"] = json!(allowed);
    hdr["maxsubs"] = json!(if counted { f.get("maxsubs").and_then(|x| x.as_u64()).unwrap_or(100) } else { 100 });
    hdr["maxreq"] = json!(if counted { f.get("maxreq").and_then(|x| x.as_u64()).unwrap_or(100) } else { 100 });
    hdr["unit"] = json!(UNIT);
    hdr["pb"] = json!(PRUNE_BACKOFF_UNITS * UNIT);
    hdr["ub"] = json!(UNSUB_BACKOFF_UNITS * UNIT);
    out.reset_with(hdr, sched);
    for op in sched["ops"].as_array().unwrap() {
        let mut ev = op.clone();
        let a = vcommon::s(op, "a");
        ev.as_object_mut().unwrap().remove("a");
        if let Some(req) = ev.as_object_mut().unwrap().remove("subs") {
            ev["req"] = req; // the op's subscription entries ("subs" is the observed local subscription list)
        }
        ev["e"] = json!(a);
        let r = vcommon::guard(|| {
            let res = w.apply(op);
            if res.get("skip").is_some() {
                return None;
            }
            let mut ev2 = ev.clone();
            for (k, v) in res.as_object().unwrap() {
                ev2[k] = v.clone();
            }
            w.observe(&mut ev2);
            Some(ev2)
        });
        match r {
            Ok(Some(e)) => out.ev(e),
            Ok(None) => {}
            Err(m) => {
                out.ev(json!({"e": "panic", "msg": m.chars().take(200).collect::<String>(), "op": op}));
                break;
            }
        }
    }
}

/// Filter kinds (cfg.filter.k): "all" (the default MaxCount(AllowAll,100,100)), "wl" whitelist,
/// "max" MaxCount(AllowAll, maxsubs, maxreq), "maxwl" MaxCount(Whitelist), "comb"
/// MaxCount(Combined(Whitelist, Callback(topic != t<deny>))), "comb2" Combined(MaxCount(AllowAll), Whitelist).
pub fn run(out: &mut Out, sched: &Value) {
    let c = &sched["cfg"];
    let f = c.get("filter").cloned().unwrap_or(json!({"k": "all"}));
    let k = f.get("k").and_then(|x| x.as_str()).unwrap_or("all").to_string();
    let allow: HashSet<TopicHash> = arr_usize(&f, "allow").into_iter().map(|t| IdentTopic::new(topic_name(t)).hash()).collect();
    let maxsubs = f.get("maxsubs").and_then(|x| x.as_u64()).unwrap_or(100) as usize;
    let maxreq = f.get("maxreq").and_then(|x| x.as_u64()).unwrap_or(100) as usize;
    match k.as_str() {
        "all" => run_with(out, sched, MaxCountSubscriptionFilter { filter: AllowAllSubscriptionFilter {}, max_subscribed_topics: 100, max_subscriptions_per_request: 100 }),
        "wl" => run_with(out, sched, WhitelistSubscriptionFilter(allow)),
        "max" => run_with(out, sched, MaxCountSubscriptionFilter { filter: AllowAllSubscriptionFilter {}, max_subscribed_topics: maxsubs, max_subscriptions_per_request: maxreq }),
        "maxwl" => run_with(out, sched, MaxCountSubscriptionFilter { filter: WhitelistSubscriptionFilter(allow), max_subscribed_topics: maxsubs, max_subscriptions_per_request: maxreq }),
        "comb" => {
            // whitelist = allow + one extra topic that the second filter denies again
            let deny = f.get("deny").and_then(|x| x.as_u64()).unwrap_or(0) as usize;
            let mut wl = allow.clone();
            let denied = IdentTopic::new(topic_name(deny)).hash();
            wl.insert(denied.clone());
            let cb = CallbackSubscriptionFilter(move |t: &TopicHash| *t != denied);
            run_with(
                out,
                sched,
                MaxCountSubscriptionFilter {
                    filter: CombinedSubscriptionFilters { filter1: WhitelistSubscriptionFilter(wl), filter2: cb },
                    max_subscribed_topics: maxsubs,
                    max_subscriptions_per_request: maxreq,
                },
            )
        }
        // the max-count filter as a MEMBER of a combination (its limits must hold there too)
        "comb2" => run_with(
            out,
            sched,
            CombinedSubscriptionFilters {
                filter1: MaxCountSubscriptionFilter { filter: AllowAllSubscriptionFilter {}, max_subscribed_topics: maxsubs, max_subscriptions_per_request: maxreq },
                filter2: WhitelistSubscriptionFilter(allow),
            },
        ),
        x => panic!("filter kind {x}"),
    }
}

// ------------------------------------------------------------------------------------------------
// schedule generation

struct GenCfg {
    /// schedule class: "mesh" (C28/C29), "fanout" (C35), "filter" (C36 subscription RPCs only),
    /// "filterg" (C36 + GRAFTs, reported separately), "backoff" (C32 router level)
    class: String,
}

fn gen_one(rng: &mut impl Rng, g: &GenCfg, len: usize) -> Value {
    let class = g.class.as_str();
    let np = if class == "fanout" && rng.gen_bool(0.5) { rng.gen_range(5..=8usize) } else { rng.gen_range(2..=5usize) };
    let nt = match class {
        "filter" | "filterg" => rng.gen_range(3..=5usize),
        "fanout" => rng.gen_range(1..=2usize),
        _ => rng.gen_range(1..=3usize),
    };
    // mesh params: small so that low/high limits are actually hit with <= 5 peers
    let lo = rng.gen_range(1..=2usize);
    let n = lo + rng.gen_range(0..=(if class == "fanout" { 2usize } else { 1usize }));
    let hi = n + rng.gen_range(0..=1usize).max(if n == lo { 1 } else { 0 });
    let omin = if rng.gen_bool(0.3) && lo >= 1 && n >= 2 { 1 } else { 0 }; // omin <= lo, omin <= n/2
    let mut explicit = vec![];
    if class == "mesh" && rng.gen_bool(0.4) {
        explicit.push(rng.gen_range(0..np));
    }
    let kinds: Vec<&str> = (0..np).map(|_| if class == "mesh" && rng.gen_bool(0.15) { "f" } else if rng.gen_bool(0.2) { "g2" } else { "g" }).collect();
    let filter = match class {
        "filter" | "filterg" => {
            let k = ["wl", "max", "maxwl", "comb", "comb2"][rng.gen_range(0..5)];
            let mut allow: Vec<usize> = (0..nt).filter(|_| rng.gen_bool(0.6)).collect();
            if allow.is_empty() {
                allow.push(0);
            }
            let deny = rng.gen_range(0..nt);
            if k == "comb" {
                allow.retain(|t| *t != deny);
            }
            json!({"k": k, "allow": allow, "deny": deny, "maxsubs": rng.gen_range(1..=3), "maxreq": rng.gen_range(1..=4)})
        }
        _ => json!({"k": "all"}),
    };
    let mut cfg = json!({"np": np, "nt": nt, "lo": lo, "n": n, "hi": hi, "omin": omin, "explicit": explicit, "kinds": kinds,
                     "filter": filter, "opp": class == "mesh" && rng.gen_bool(0.2), "class": class});
    // fanout class: in half of the runs peers can be slow (send queues of 2 that are not drained for a while)
    let slow = class == "fanout" && rng.gen_bool(0.5);
    if slow {
        cfg["qlen"] = json!(2);
    }
    let mut ops: Vec<Value> = vec![];
    let mut next_conn = 0usize;
    // track open connections in the generator so that most ops are meaningful
    let mut open: Vec<Vec<usize>> = vec![vec![]; np];
    let connect = |ops: &mut Vec<Value>, open: &mut Vec<Vec<usize>>, next_conn: &mut usize, rng: &mut dyn rand::RngCore, p: usize, with_kind: bool| {
        let c = *next_conn;
        *next_conn += 1;
        ops.push(json!({"a": "connect", "p": p, "c": c, "out": rng.gen_bool(0.4)}));
        if with_kind {
            ops.push(json!({"a": "kind", "p": p, "c": c}));
        }
        open[p].push(c);
    };
    // warm-up: connect most peers
    for p in 0..np {
        if rng.gen_bool(0.8) {
            connect(&mut ops, &mut open, &mut next_conn, rng, p, true);
        }
    }
    if class == "fanout" {
        // most peers subscribe to most topics, so that fanout sets have several members
        for p in 0..np {
            if !open[p].is_empty() {
                let subs: Vec<Value> = (0..nt).filter(|_| rng.gen_bool(0.8)).map(|t| json!([t, true])).collect();
                if !subs.is_empty() {
                    ops.push(json!({"a": "rpc", "p": p, "subs": subs}));
                }
            }
        }
    }
    let any_topic = |rng: &mut dyn rand::RngCore| rng.gen_range(0..nt);
    while ops.len() < len {
        let p = rng.gen_range(0..np);
        let x = rng.gen_range(0..100);
        let op = match class {
            "filter" | "filterg" => match x {
                0..=5 => {
                    if open[p].len() < 2 {
                        connect(&mut ops, &mut open, &mut next_conn, rng, p, true);
                    }
                    continue;
                }
                6..=9 => {
                    if let Some(c) = open[p].pop() {
                        json!({"a": "close", "p": p, "c": c})
                    } else {
                        continue;
                    }
                }
                10..=14 => json!({"a": "sub", "t": any_topic(rng)}),
                15..=17 => json!({"a": "unsub", "t": any_topic(rng)}),
                18..=21 => json!({"a": "hb"}),
                22..=33 if class == "filterg" => {
                    let k = rng.gen_range(1..=2);
                    let ts: Vec<usize> = (0..k).map(|_| any_topic(rng)).collect();
                    json!({"a": "rpc", "p": p, "graft": ts})
                }
                _ => {
                    // subscription request: 1..6 entries, duplicates and sub/unsub pairs likely
                    let k = rng.gen_range(1..=6);
                    let subs: Vec<Value> = (0..k).map(|_| json!([any_topic(rng), rng.gen_bool(0.65)])).collect();
                    json!({"a": "rpc", "p": p, "subs": subs, "ci": rng.gen_range(0..2)})
                }
            },
            "fanout" => match x {
                0..=7 => {
                    if open[p].is_empty() {
                        connect(&mut ops, &mut open, &mut next_conn, rng, p, true);
                    }
                    continue;
                }
                8..=12 => {
                    if let Some(c) = open[p].pop() {
                        json!({"a": "close", "p": p, "c": c})
                    } else {
                        continue;
                    }
                }
                13..=30 => json!({"a": "rpc", "p": p, "subs": [[any_topic(rng), rng.gen_bool(0.8)]]}),
                31..=36 => json!({"a": "score", "p": p, "v": ([-10, -1, 0, 1][rng.gen_range(0..4)])}),
                37..=40 if slow => json!({"a": if rng.gen_bool(0.65) { "stall" } else { "unstall" }, "p": p}),
                37..=44 => json!({"a": "hb"}),
                45..=48 => json!({"a": "sub", "t": any_topic(rng)}),
                49..=52 => json!({"a": "unsub", "t": any_topic(rng)}),
                _ => json!({"a": "pub", "t": any_topic(rng)}),
            },
            // "mesh" and "backoff"
            _ if nt >= 2 && rng.gen_bool(0.04) => {
                // scenario templates around "one heartbeat changes a peer's membership in several topics"
                let t0 = rng.gen_range(0..nt);
                let t1 = (t0 + 1 + rng.gen_range(0..(nt - 1))) % nt;
                if open[p].is_empty() {
                    connect(&mut ops, &mut open, &mut next_conn, rng, p, true);
                }
                if rng.gen_bool(0.5) {
                    // subscribes with a negative score (not grafted), recovers, next heartbeat grafts
                    ops.push(json!({"a": "score", "p": p, "v": -1}));
                    ops.push(json!({"a": "sub", "t": t0}));
                    ops.push(json!({"a": "sub", "t": t1}));
                    ops.push(json!({"a": "rpc", "p": p, "subs": [[t0, true], [t1, true]]}));
                    ops.push(json!({"a": "score", "p": p, "v": 1}));
                } else {
                    // the peer prunes us in two topics; after the backoff heartbeats graft it again
                    ops.push(json!({"a": "sub", "t": t0}));
                    ops.push(json!({"a": "sub", "t": t1}));
                    ops.push(json!({"a": "rpc", "p": p, "subs": [[t0, true], [t1, true]]}));
                    ops.push(json!({"a": "rpc", "p": p, "prune": [[t0, 60], [t1, 60]]}));
                    ops.push(json!({"a": "tick", "d": rng.gen_range(1..=3)}));
                    for _ in 0..rng.gen_range(1..=4) {
                        ops.push(json!({"a": "hb"}));
                    }
                }
                json!({"a": "hb"})
            }
            _ => match x {
                0..=7 => {
                    if open[p].len() < 3 {
                        let wk = rng.gen_bool(0.9);
                        connect(&mut ops, &mut open, &mut next_conn, rng, p, wk);
                    }
                    continue;
                }
                8..=13 => {
                    if open[p].is_empty() {
                        continue;
                    }
                    let i = rng.gen_range(0..open[p].len());
                    let c = open[p].remove(i);
                    json!({"a": "close", "p": p, "c": c})
                }
                14..=15 => {
                    if open[p].is_empty() {
                        continue;
                    }
                    let c = open[p][rng.gen_range(0..open[p].len())];
                    json!({"a": "kind", "p": p, "c": c, "k": if rng.gen_bool(0.7) { "g" } else { "f" }})
                }
                16..=33 => {
                    let k = rng.gen_range(1..=2);
                    let subs: Vec<Value> = (0..k).map(|_| json!([any_topic(rng), rng.gen_bool(0.8)])).collect();
                    json!({"a": "rpc", "p": p, "subs": subs, "ci": rng.gen_range(0..3)})
                }
                34..=45 => {
                    let k = rng.gen_range(1..=2);
                    let ts: Vec<usize> = (0..k).map(|_| any_topic(rng)).collect();
                    json!({"a": "rpc", "p": p, "graft": ts, "ci": rng.gen_range(0..3)})
                }
                46..=53 => {
                    let b: i64 = [-1, 0, 60, 120, 300, 600][rng.gen_range(0..6)];
                    json!({"a": "rpc", "p": p, "prune": [[any_topic(rng), b]], "ci": rng.gen_range(0..3)})
                }
                54..=56 => {
                    // mixed RPC
                    json!({"a": "rpc", "p": p, "subs": [[any_topic(rng), rng.gen_bool(0.7)]], "graft": [any_topic(rng)],
                           "prune": [[any_topic(rng), ([-1i64, 60, 120][rng.gen_range(0..3)])]]})
                }
                57..=64 => json!({"a": "sub", "t": any_topic(rng)}),
                65..=69 => json!({"a": "unsub", "t": any_topic(rng)}),
                70..=74 => json!({"a": "score", "p": p, "v": ([-10, -1, 0, 1, 100][rng.gen_range(0..5)])}),
                75..=88 => json!({"a": "hb"}),
                89..=94 => json!({"a": "tick", "d": ([1, 1, 2, 3, 5][rng.gen_range(0..5)])}),
                _ => json!({"a": "pub", "t": any_topic(rng)}),
            },
        };
        ops.push(op);
    }
    json!({"cfg": cfg, "ops": ops})
}

/// Hand-written regression schedules: forced (no random choice involved) situations from the
/// design's defect list and the multi-topic / multi-connection corner cases.
fn directed(class: &str) -> Vec<Value> {
    let base = |np: usize, nt: usize, lo: usize, n: usize, hi: usize| {
        json!({"np": np, "nt": nt, "lo": lo, "n": n, "hi": hi, "omin": 0, "explicit": [], "kinds": vec!["g"; np], "filter": {"k": "all"}, "opp": false, "class": class})
    };
    let mut v = vec![];
    match class {
        "mesh" => {
            // one peer, two topics: pruned from both (negative score), re-grafted into both by ONE heartbeat
            v.push(json!({"cfg": base(1, 2, 1, 1, 2), "ops": [
                {"a": "sub", "t": 0}, {"a": "sub", "t": 1},
                {"a": "connect", "p": 0, "c": 0, "out": false}, {"a": "kind", "p": 0, "c": 0},
                {"a": "rpc", "p": 0, "subs": [[0, true], [1, true]]},
                {"a": "score", "p": 0, "v": -1}, {"a": "hb"},
                {"a": "score", "p": 0, "v": 0}, {"a": "tick", "d": 6}, {"a": "hb"}, {"a": "hb"}, {"a": "hb"}, {"a": "hb"}, {"a": "hb"}, {"a": "hb"},
                {"a": "rpc", "p": 0, "prune": [[0, 0]]}, {"a": "hb"}]}));
            // peer connects, subscribes to two topics we join later; one heartbeat grafts it in both
            v.push(json!({"cfg": base(1, 2, 1, 1, 2), "ops": [
                {"a": "connect", "p": 0, "c": 0, "out": true}, {"a": "kind", "p": 0, "c": 0},
                {"a": "rpc", "p": 0, "subs": [[0, true], [1, true]]},
                {"a": "sub", "t": 0}, {"a": "sub", "t": 1}, {"a": "unsub", "t": 0}, {"a": "unsub", "t": 1},
                {"a": "sub", "t": 0}, {"a": "sub", "t": 1}, {"a": "tick", "d": 3}, {"a": "hb"}, {"a": "hb"}, {"a": "hb"}, {"a": "hb"}, {"a": "hb"}]}));
            // first-connection rule: two connections, the first closes while the peer is meshed
            v.push(json!({"cfg": base(1, 1, 1, 1, 2), "ops": [
                {"a": "sub", "t": 0},
                {"a": "connect", "p": 0, "c": 0, "out": false}, {"a": "kind", "p": 0, "c": 0}, {"a": "connect", "p": 0, "c": 1, "out": true},
                {"a": "rpc", "p": 0, "subs": [[0, true]]}, {"a": "close", "p": 0, "c": 0},
                {"a": "rpc", "p": 0, "subs": [[0, false]]}, {"a": "connect", "p": 0, "c": 2, "out": false}, {"a": "close", "p": 0, "c": 1},
                {"a": "rpc", "p": 0, "subs": [[0, true]]}, {"a": "hb"}]}));
            // outbound quota: the mesh has mesh_n_low members but all inbound (< mesh_outbound_min outbound) and the only
            // outbound, subscribed candidate is an EXPLICIT peer: the heartbeat's outbound top-up must not graft it
            // (added after seeded mutant C28-2 was missed by the random schedules)
            for inbound_first in [true, false] {
                let mut cfg = base(3, 1, 2, 2, 3);
                cfg["omin"] = json!(1);
                cfg["explicit"] = json!([2]);
                let mut ops = vec![json!({"a": "sub", "t": 0})];
                let order: Vec<usize> = if inbound_first { vec![0, 1, 2] } else { vec![2, 0, 1] };
                for &p in &order {
                    ops.push(json!({"a": "connect", "p": p, "c": p, "out": p == 2}));
                    ops.push(json!({"a": "kind", "p": p, "c": p}));
                }
                for &p in &order {
                    ops.push(json!({"a": "rpc", "p": p, "subs": [[0, true]]}));
                }
                for _ in 0..4 {
                    ops.push(json!({"a": "hb"}));
                }
                ops.push(json!({"a": "tick", "d": 2}));
                ops.push(json!({"a": "hb"}));
                v.push(json!({"cfg": cfg, "ops": ops}));
            }
            // GRAFT at mesh_n_high, GRAFT during backoff, GRAFT with negative score, GRAFT from a floodsub peer
            v.push(json!({"cfg": base(4, 1, 1, 1, 2), "ops": [
                {"a": "sub", "t": 0},
                {"a": "connect", "p": 0, "c": 0}, {"a": "kind", "p": 0, "c": 0}, {"a": "connect", "p": 1, "c": 1}, {"a": "kind", "p": 1, "c": 1},
                {"a": "connect", "p": 2, "c": 2}, {"a": "kind", "p": 2, "c": 2}, {"a": "connect", "p": 3, "c": 3}, {"a": "kind", "p": 3, "c": 3, "k": "f"},
                {"a": "rpc", "p": 0, "subs": [[0, true]]}, {"a": "rpc", "p": 1, "subs": [[0, true]]}, {"a": "rpc", "p": 2, "subs": [[0, true]]}, {"a": "rpc", "p": 3, "subs": [[0, true]]},
                {"a": "rpc", "p": 1, "graft": [0]}, {"a": "rpc", "p": 2, "graft": [0]}, {"a": "rpc", "p": 3, "graft": [0]},
                {"a": "rpc", "p": 0, "prune": [[0, 120]]}, {"a": "rpc", "p": 0, "graft": [0]}, {"a": "tick", "d": 1}, {"a": "rpc", "p": 0, "graft": [0]},
                {"a": "tick", "d": 1}, {"a": "rpc", "p": 0, "graft": [0]}, {"a": "score", "p": 2, "v": -1}, {"a": "rpc", "p": 2, "graft": [0]}, {"a": "hb"}]}));
        }
        "fanout" => {
            // §7-9: publish, another subscribed peer connects, publish again
            v.push(json!({"cfg": base(2, 1, 2, 3, 4), "ops": [
                {"a": "connect", "p": 0, "c": 0}, {"a": "kind", "p": 0, "c": 0}, {"a": "rpc", "p": 0, "subs": [[0, true]]},
                {"a": "pub", "t": 0},
                {"a": "connect", "p": 1, "c": 1}, {"a": "kind", "p": 1, "c": 1}, {"a": "rpc", "p": 1, "subs": [[0, true]]},
                {"a": "pub", "t": 0}, {"a": "pub", "t": 0}, {"a": "hb"}, {"a": "pub", "t": 0}]}));
            // publish twice with an unchanged peer set smaller than mesh_n
            v.push(json!({"cfg": base(1, 1, 1, 2, 3), "ops": [
                {"a": "connect", "p": 0, "c": 0}, {"a": "kind", "p": 0, "c": 0}, {"a": "rpc", "p": 0, "subs": [[0, true]]},
                {"a": "pub", "t": 0}, {"a": "pub", "t": 0}, {"a": "pub", "t": 0}]}));
        }
        "filter" | "filterg" => {
            let mut c = base(1, 3, 1, 1, 2);
            c["filter"] = json!({"k": "wl", "allow": [0]});
            let mut ops = vec![
                json!({"a": "connect", "p": 0, "c": 0}), json!({"a": "kind", "p": 0, "c": 0}),
                json!({"a": "rpc", "p": 0, "subs": [[1, true]]}), json!({"a": "rpc", "p": 0, "subs": [[0, true], [1, true]]}),
            ];
            if class == "filterg" {
                ops.push(json!({"a": "rpc", "p": 0, "graft": [1]}));
                ops.push(json!({"a": "rpc", "p": 0, "graft": [0, 2]}));
            }
            v.push(json!({"cfg": c, "ops": ops}));
            let mut c = base(1, 4, 1, 1, 2);
            c["filter"] = json!({"k": "max", "maxsubs": 2, "maxreq": 3});
            let mut ops = vec![
                json!({"a": "sub", "t": 3}),
                json!({"a": "connect", "p": 0, "c": 0}), json!({"a": "kind", "p": 0, "c": 0}),
                json!({"a": "rpc", "p": 0, "subs": [[0, true], [1, true], [2, true]]}),
                json!({"a": "rpc", "p": 0, "subs": [[0, true], [0, true], [0, true], [0, true]]}),
                json!({"a": "rpc", "p": 0, "subs": [[0, true], [1, true]]}),
                json!({"a": "rpc", "p": 0, "subs": [[2, true]]}),
                json!({"a": "rpc", "p": 0, "subs": [[0, false], [2, true]]}),
            ];
            if class == "filterg" {
                ops.push(json!({"a": "rpc", "p": 0, "graft": [3]}));
            }
            v.push(json!({"cfg": c, "ops": ops}));
            // the max-count filter as a member of a combination: its limits must still hold
            let mut c = base(1, 3, 1, 1, 2);
            c["filter"] = json!({"k": "comb2", "allow": [0, 1], "maxsubs": 1, "maxreq": 2});
            v.push(json!({"cfg": c, "ops": [
                {"a": "connect", "p": 0, "c": 0}, {"a": "kind", "p": 0, "c": 0},
                {"a": "rpc", "p": 0, "subs": [[0, true], [1, true]]},
                {"a": "rpc", "p": 0, "subs": [[0, true], [0, true], [0, true]]},
                {"a": "rpc", "p": 0, "subs": [[0, true]]}, {"a": "rpc", "p": 0, "subs": [[1, true]]},
                {"a": "rpc", "p": 0, "subs": [[0, false], [1, true]]}]}));
        }
        _ => {}
    }
    v
}

pub fn main(a: &vcommon::Args) {
    vcommon::quiet_panics();
    match a.get(0) {
        "replay" => {
            let scheds = vcommon::read_schedules(a.get(1));
            let mut out = Out::create(a.get(2));
            for s in &scheds {
                run(&mut out, s);
            }
            println!("runs={} events={}", out.run, out.events);
            out.finish();
        }
        // router random <class> <seed> <runs> <len> <out>
        "random" => {
            let class = a.get(1).to_string();
            let seed = a.num(2);
            let runs = a.num(3);
            let len = a.num(4) as usize;
            let mut out = Out::create(a.get(5));
            let mut rng = vcommon::rng(seed ^ 0x9e37_79b9);
            // `directed=0`: seeded random schedules only (used to measure what they find on their own)
            if a.kv_num("directed", 1) == 1 {
                for s in directed(&class) {
                    run(&mut out, &s);
                }
            }
            let g = GenCfg { class };
            for _ in 0..runs {
                let l = rng.gen_range(len / 2..=len);
                let s = gen_one(&mut rng, &g, l);
                run(&mut out, &s);
            }
            println!("runs={} events={}", out.run, out.events);
            out.finish();
        }
        m => panic!("router mode {m}"),
    }
}

