//! C27: a network of up to a dozen REAL `gossipsub::Behaviour`s (signed messages, strict validation).
//! The driver is the network: after every operation it pops what each node queued for each peer
//! (wire form, `verif_drain_rpcs`) into a per-link FIFO, and the schedule decides which link
//! delivers next; a delivery runs the bytes through the receiver's real codec (`verif::rpc_event`,
//! signature validation included) into `on_connection_handler_event`.  So the schedule is exactly the
//! message order / heartbeat timing the property quantifies over, and every copy on every link is
//! visible.
//!
//! Events (msg = the integer k of the payload "m<k>"):
//!   conn {a,b}                        an edge is established (a dials b), kinds reported
//!   sub {n,t}                         node n subscribes to topic t
//!   pub {n,k,t,res, snd:[[to,k]..]}   node n publishes message k
//!   dlv {a,b, msgs:[k..], iwant:[k..], got:[k..], snd:[[to,k]..]}
//!                                     one RPC travels a -> b; got = Event::Message at b during this step;
//!                                     snd = message copies b queued during this step
//!   hb {n, snd}                       heartbeat at n
//!   end {quiet, due}                  the driver ran heartbeats + deliveries to a fixed point; due = all messages
//!                                     were published into a formed network (delivery to all is owed)
use std::{
    collections::{BTreeMap, HashMap, VecDeque},
    task::{Context, Poll},
    time::Duration,
};

use libp2p_core::{transport::PortUse, ConnectedPoint, Endpoint, Multiaddr};
use libp2p_gossipsub::{
    self as gs,
    verif::{self, pb, HandlerEvent, PeerKind},
    Behaviour, ConfigBuilder, Event, IdentTopic, MessageAcceptance, MessageAuthenticity, MessageId,
};
use libp2p_identity::{Keypair, PeerId};
use libp2p_swarm::{
    behaviour::{ConnectionEstablished, FromSwarm},
    ConnectionId, NetworkBehaviour, ToSwarm,
};
use rand::{seq::SliceRandom, Rng};
use vcommon::{json, Out, Value};

struct Node {
    gs: Behaviour,
    cfg: gs::Config,
    id: PeerId,
    /// connection id towards each neighbour
    conn: BTreeMap<usize, usize>,
    next_conn: usize,
    _handlers: Vec<verif::Handler>,
    /// validate_messages mode: messages handed to the application and not yet accepted
    pend: VecDeque<(MessageId, PeerId)>,
}

struct Net {
    nodes: Vec<Node>,
    /// FIFO of wire RPCs per directed link
    links: BTreeMap<(usize, usize), VecDeque<pb::Rpc>>,
    /// message id -> k
    ids: HashMap<MessageId, i64>,
    topics: Vec<IdentTopic>,
    /// RPCs delivered in this run
    delivered: usize,
    /// (n, b): node n's RPCs for b are left in its real send queue until released
    held: std::collections::BTreeSet<(usize, usize)>,
    /// peers announce gossipsub v1.2 (IDONTWANT)
    v12: bool,
    /// nodes run with validate_messages(): forwarding waits for the application's Accept
    val: bool,
}

/// a healthy run of 12 nodes needs a few thousand deliveries; a network that does not quiesce
/// (e.g. a message circulating forever) is cut off here and reported as `overrun`
const MAX_DELIVERIES: usize = 30_000;

fn payload_k(data: &[u8]) -> i64 {
    // "m<k>" optionally followed by padding (big messages, above the IDONTWANT size threshold)
    std::str::from_utf8(data)
        .ok()
        .and_then(|s| s.strip_prefix('m'))
        .map(|s| s.chars().take_while(|c| c.is_ascii_digit()).collect::<String>())
        .and_then(|s| s.parse().ok())
        .unwrap_or(-1)
}

impl Net {
    /// Pop everything node n queued, per neighbour, into the link FIFOs; report the message copies.
    fn flush(&mut self, n: usize) -> Vec<Value> {
        let mut snd = vec![];
        let nbrs: Vec<usize> = self.nodes[n].conn.keys().copied().collect();
        for b in nbrs {
            if self.held.contains(&(n, b)) {
                continue; // the RPCs stay in the behaviour's real per-peer send queue
            }
            let peer = self.nodes[b].id;
            for rpc in self.nodes[n].gs.verif_drain_rpcs(&peer) {
                for m in &rpc.publish {
                    snd.push(json!([b, payload_k(m.data.as_deref().unwrap_or(&[]))]));
                }
                self.links.entry((n, b)).or_default().push_back(rpc);
            }
        }
        snd
    }

    /// Drain node n's behaviour events; returns the delivered message numbers.
    fn events(&mut self, n: usize) -> Vec<i64> {
        let waker = futures::task::noop_waker();
        let mut cx = Context::from_waker(&waker);
        let mut got = vec![];
        for _ in 0..100_000 {
            match self.nodes[n].gs.poll(&mut cx) {
                Poll::Ready(ToSwarm::GenerateEvent(Event::Message { message, message_id, propagation_source })) => {
                    got.push(payload_k(&message.data));
                    if self.val {
                        self.nodes[n].pend.push_back((message_id, propagation_source));
                    }
                }
                Poll::Ready(_) => {}
                Poll::Pending => break,
            }
        }
        got
    }

    fn connect(&mut self, a: usize, b: usize) {
        for (x, y, out) in [(a, b, true), (b, a, false)] {
            let peer = self.nodes[y].id;
            let node = &mut self.nodes[x];
            let c = node.next_conn;
            node.next_conn += 1;
            let cid = ConnectionId::new_unchecked(c);
            let addr: Multiaddr = format!("/memory/{}", 1000 + y).parse().unwrap();
            let ep = if out {
                ConnectedPoint::Dialer { address: addr.clone(), role_override: Endpoint::Dialer, port_use: PortUse::Reuse }
            } else {
                ConnectedPoint::Listener { local_addr: "/memory/1".parse().unwrap(), send_back_addr: addr.clone() }
            };
            let h = if out {
                node.gs.handle_established_outbound_connection(cid, peer, &addr, Endpoint::Dialer, PortUse::Reuse)
            } else {
                node.gs.handle_established_inbound_connection(cid, peer, &"/memory/1".parse().unwrap(), &addr)
            }
            .expect("connection accepted");
            node._handlers.push(h);
            node.gs.on_swarm_event(FromSwarm::ConnectionEstablished(ConnectionEstablished {
                peer_id: peer,
                connection_id: cid,
                endpoint: &ep,
                failed_addresses: &[],
                other_established: 0,
            }));
            node.gs.on_connection_handler_event(peer, cid, HandlerEvent::PeerKind(if self.v12 { PeerKind::Gossipsubv1_2 } else { PeerKind::Gossipsubv1_1 }));
            node.conn.insert(y, c);
        }
    }

    /// One RPC travels a -> b. None if the link is empty.
    fn deliver(&mut self, a: usize, b: usize) -> Option<Value> {
        if self.delivered >= MAX_DELIVERIES {
            return None;
        }
        self.delivered += 1;
        let rpc = self.links.get_mut(&(a, b))?.pop_front()?;
        let msgs: Vec<i64> = rpc.publish.iter().map(|m| payload_k(m.data.as_deref().unwrap_or(&[]))).collect();
        let mut iwant = vec![];
        if let Some(ctl) = &rpc.control {
            for w in &ctl.iwant {
                for id in &w.message_ids {
                    iwant.push(self.ids.get(&MessageId::new(id)).copied().unwrap_or(-1));
                }
            }
        }
        let mut ihave = vec![];
        let (mut grafts, mut prunes) = (0, 0);
        if let Some(ctl) = &rpc.control {
            for h in &ctl.ihave {
                for id in &h.message_ids {
                    ihave.push(self.ids.get(&MessageId::new(id)).copied().unwrap_or(-1));
                }
            }
            grafts = ctl.graft.len();
            prunes = ctl.prune.len();
        }
        let from = self.nodes[a].id;
        let cid = ConnectionId::new_unchecked(self.nodes[b].conn[&a]);
        // ihave is diagnostic only; gr / pr (GRAFTs / PRUNEs carried) tell the specification whether meshes still change
        let mut ev = json!({"e": "dlv", "a": a, "b": b, "msgs": msgs, "iwant": iwant, "ihave": ihave, "gr": grafts, "pr": prunes});
        match verif::rpc_event(&self.nodes[b].cfg, rpc) {
            Ok(Some(hev)) => {
                if let HandlerEvent::Message { invalid_messages, .. } = &hev {
                    ev["invalid"] = json!(invalid_messages.len());
                }
                self.nodes[b].gs.on_connection_handler_event(from, cid, hev);
            }
            Ok(None) => ev["dropped"] = json!("codec returned nothing"),
            Err(e) => ev["dropped"] = json!(e),
        }
        ev["got"] = json!(self.events(b));
        ev["snd"] = json!(self.flush(b));
        Some(ev)
    }

    /// The application at node x accepts its i-th pending message (validate_messages mode): the
    /// behaviour forwards it now. Reported as a step of x that delivers nothing and queues `snd`.
    fn accept(&mut self, x: usize, i: usize) -> Option<Value> {
        let len = self.nodes[x].pend.len();
        if len == 0 {
            return None;
        }
        let (id, src) = self.nodes[x].pend.remove(i % len).unwrap();
        self.nodes[x].gs.report_message_validation_result(&id, &src, MessageAcceptance::Accept);
        let got = self.events(x);
        let snd = self.flush(x);
        Some(json!({"e": "hb", "n": x, "got": got, "snd": snd, "accept": true}))
    }

    fn accept_all(&mut self) -> Vec<Value> {
        let mut evs = vec![];
        for x in 0..self.nodes.len() {
            while let Some(e) = self.accept(x, 0) {
                evs.push(e);
            }
        }
        evs
    }

    /// deliver on random busy links until nothing is in flight; in validate mode the applications
    /// accept whatever is pending whenever the wires are empty
    fn drain(&mut self, r: &mut impl Rng, evs: &mut Vec<Value>) {
        for _ in 0..20_000 {
            let busy = self.busy_links();
            if busy.is_empty() {
                let acc = self.accept_all();
                if acc.is_empty() {
                    break;
                }
                evs.extend(acc);
                continue;
            }
            let (x, y) = *busy.choose(r).unwrap();
            match self.deliver(x, y) {
                Some(e) => evs.push(e),
                None => break,
            }
        }
    }

    fn busy_links(&self) -> Vec<(usize, usize)> {
        self.links.iter().filter(|(_, q)| !q.is_empty()).map(|(k, _)| *k).collect()
    }
}

fn run(out: &mut Out, sched: &Value) {
    let c = &sched["cfg"];
    let n = vcommon::n(c, "n") as usize;
    let nt = vcommon::n(c, "nt") as usize;
    let mut b = ConfigBuilder::default();
    b.mesh_n_low(vcommon::n(c, "lo") as usize)
        .mesh_n(vcommon::n(c, "mn") as usize)
        .mesh_n_high(vcommon::n(c, "hi") as usize)
        .mesh_outbound_min(0)
        // every non-mesh neighbour hears about every message a node holds, for the whole run:
        // delivery to all does not depend on luck or on how many heartbeats happened meanwhile
        .gossip_lazy(16)
        .history_length(60)
        .history_gossip(60)
        .flood_publish(c["flood"].as_bool().unwrap_or(true))
        .heartbeat_interval(Duration::from_secs(3600))
        .heartbeat_initial_delay(Duration::from_secs(1_000_000))
        .duplicate_cache_time(Duration::from_secs(3600));
    let val = c.get("val").and_then(|x| x.as_bool()).unwrap_or(false);
    if val {
        b.validate_messages();
    }
    let cfg = b.build().expect("config");
    let topics: Vec<IdentTopic> = (0..nt).map(|t| IdentTopic::new(format!("t{t}"))).collect();
    let nodes: Vec<Node> = (0..n)
        .map(|_| {
            let kp = Keypair::generate_ed25519();
            let id = kp.public().to_peer_id();
            Node {
                gs: Behaviour::new(MessageAuthenticity::Signed(kp), cfg.clone()).expect("behaviour"),
                cfg: cfg.clone(),
                id,
                conn: BTreeMap::new(),
                next_conn: 0,
                _handlers: vec![],
                pend: VecDeque::new(),
            }
        })
        .collect();
    let mut net = Net { nodes, links: BTreeMap::new(), ids: HashMap::new(), topics, delivered: 0, held: Default::default(), v12: c.get("v12").and_then(|x| x.as_bool()).unwrap_or(false), val };
    out.reset_with(json!({"n": n, "nt": nt}), sched);
    let ops = sched["ops"].as_array().unwrap();
    for op in ops {
        let a = vcommon::s(op, "a");
        let r = vcommon::guard(|| -> Vec<Value> {
            match a.as_str() {
                "conn" => {
                    let (x, y) = (vcommon::n(op, "x") as usize, vcommon::n(op, "y") as usize);
                    if x == y || net.nodes[x].conn.contains_key(&y) {
                        return vec![];
                    }
                    net.connect(x, y);
                    let s1 = net.flush(x);
                    let s2 = net.flush(y);
                    vec![json!({"e": "conn", "a": x, "b": y, "snd": ([s1, s2].concat())})]
                }
                "sub" => {
                    let (x, t) = (vcommon::n(op, "n") as usize, vcommon::n(op, "t") as usize);
                    let topic = net.topics[t].clone();
                    let r = net.nodes[x].gs.subscribe(&topic);
                    let snd = net.flush(x);
                    vec![json!({"e": "sub", "n": x, "t": t, "res": matches!(r, Ok(true)), "snd": snd})]
                }
                "pub" => {
                    let (x, t, k) = (vcommon::n(op, "n") as usize, vcommon::n(op, "t") as usize, vcommon::n(op, "k"));
                    let topic = net.topics[t].hash();
                    let mut payload = format!("m{k}");
                    if op.get("big").and_then(|x| x.as_bool()).unwrap_or(false) {
                        payload.push(' ');
                        payload.push_str(&"x".repeat(1200));
                    }
                    let r = net.nodes[x].gs.publish(topic, payload.into_bytes());
                    let ok = r.is_ok();
                    if let Ok(id) = r {
                        net.ids.insert(id, k);
                    }
                    let got = net.events(x);
                    let snd = net.flush(x);
                    vec![json!({"e": "pub", "n": x, "t": t, "k": k, "res": ok, "got": got, "snd": snd})]
                }
                // hold: node x's RPCs for y stay in the real send queue (a slow link); release: they go onto the wire now
                "hold" => {
                    let (x, y) = (vcommon::n(op, "x") as usize, vcommon::n(op, "y") as usize);
                    net.held.insert((x, y));
                    vec![]
                }
                "release" => {
                    let (x, y) = (vcommon::n(op, "x") as usize, vcommon::n(op, "y") as usize);
                    if !net.held.remove(&(x, y)) {
                        return vec![];
                    }
                    let snd = net.flush(x);
                    vec![json!({"e": "hb", "n": x, "got": [], "snd": snd, "release": true})]
                }
                "hb" => {
                    let x = vcommon::n(op, "n") as usize;
                    net.nodes[x].gs.verif_heartbeat();
                    let got = net.events(x);
                    let snd = net.flush(x);
                    vec![json!({"e": "hb", "n": x, "got": got, "snd": snd})]
                }
                "accept" => {
                    let (x, i) = (vcommon::n(op, "n") as usize, vcommon::n(op, "i") as usize);
                    net.accept(x, i).into_iter().collect()
                }
                // deliver one RPC on the i-th busy link (i taken modulo the number of busy links)
                "dlv" => {
                    let busy = net.busy_links();
                    if busy.is_empty() {
                        return vec![];
                    }
                    let (x, y) = busy[vcommon::n(op, "i") as usize % busy.len()];
                    net.deliver(x, y).into_iter().collect()
                }
                // run the network to quiescence, links in the order given by the seed of the op
                "quiesce" => {
                    let mut evs = vec![];
                    let mut r = vcommon::rng(vcommon::n(op, "s") as u64);
                    net.drain(&mut r, &mut evs);
                    evs
                }
                // form: (heartbeat at every node, then quiescence) until a whole round moved no GRAFT/PRUNE
                // (mesh fixed point) or `max` rounds passed
                "form" => {
                    let mut evs = vec![];
                    let mut r = vcommon::rng(vcommon::n(op, "s") as u64);
                    for _ in 0..vcommon::n(op, "max") {
                        let before = evs.len();
                        for x in 0..net.nodes.len() {
                            net.nodes[x].gs.verif_heartbeat();
                            let got = net.events(x);
                            let snd = net.flush(x);
                            evs.push(json!({"e": "hb", "n": x, "got": got, "snd": snd}));
                        }
                        net.drain(&mut r, &mut evs);
                        let churn = evs[before..].iter().any(|e| e.get("gr").and_then(|x| x.as_u64()).unwrap_or(0) + e.get("pr").and_then(|x| x.as_u64()).unwrap_or(0) > 0);
                        if !churn {
                            break;
                        }
                    }
                    evs
                }
                // settle: `rounds` times (heartbeat at every node in a shuffled order, then quiescence);
                // afterwards the completeness clause of the property is due
                "settle" => {
                    let mut evs = vec![];
                    let held: Vec<(usize, usize)> = net.held.iter().copied().collect();
                    for (x, _) in held {
                        net.held.retain(|(a, _)| *a != x);
                        let snd = net.flush(x);
                        evs.push(json!({"e": "hb", "n": x, "got": [], "snd": snd, "release": true}));
                    }
                    let mut r = vcommon::rng(vcommon::n(op, "s") as u64);
                    let rounds = vcommon::n(op, "rounds") as usize;
                    let mut quiet = false;
                    for _ in 0..rounds {
                        let mut order: Vec<usize> = (0..net.nodes.len()).collect();
                        order.shuffle(&mut r);
                        for x in order {
                            net.nodes[x].gs.verif_heartbeat();
                            let got = net.events(x);
                            let snd = net.flush(x);
                            evs.push(json!({"e": "hb", "n": x, "got": got, "snd": snd}));
                        }
                        net.drain(&mut r, &mut evs);
                        quiet = net.busy_links().is_empty();
                    }
                    evs.push(json!({"e": "end", "quiet": quiet, "due": op.get("due").and_then(|x| x.as_bool()).unwrap_or(false)}));
                    evs
                }
                x => panic!("op {x}"),
            }
        });
        match r {
            Ok(evs) => {
                for e in evs {
                    out.ev(e);
                }
                if net.delivered >= MAX_DELIVERIES {
                    // no specification has an action for this: the run is rejected
                    out.ev(json!({"e": "overrun", "deliveries": net.delivered}));
                    break;
                }
            }
            Err(m) => {
                out.ev(json!({"e": "panic", "msg": m.chars().take(200).collect::<String>()}));
                break;
            }
        }
    }
}

/// random connected topology on n nodes: a random spanning tree + extra edges with probability p
fn topology(rng: &mut impl Rng, n: usize, p: f64) -> Vec<(usize, usize)> {
    let mut order: Vec<usize> = (0..n).collect();
    order.shuffle(rng);
    let mut edges = vec![];
    for i in 1..n {
        let j = rng.gen_range(0..i);
        edges.push((order[i], order[j]));
    }
    for a in 0..n {
        for b in (a + 1)..n {
            if !edges.contains(&(a, b)) && !edges.contains(&(b, a)) && rng.gen_bool(p) {
                edges.push(if rng.gen_bool(0.5) { (a, b) } else { (b, a) });
            }
        }
    }
    edges.shuffle(rng);
    edges
}

fn gen_one(rng: &mut impl Rng, max_n: usize) -> Value {
    let n = rng.gen_range(2..=max_n);
    let nt = rng.gen_range(1..=2usize);
    // mesh parameters: either "everyone is a mesh peer" or a small mesh with pruning and gossip
    let (lo, mn, hi) = if rng.gen_bool(0.4) { (12, 12, 16) } else { [(1, 2, 3), (2, 3, 4), (1, 1, 2), (4, 6, 12)][rng.gen_range(0..4)] };
    let flood = rng.gen_bool(0.6);
    let mut ops = vec![];
    let density = [0.0, 0.15, 0.4, 1.0][rng.gen_range(0..4)];
    let edges = topology(rng, n, density);
    // subscriptions and connections in random relative order
    let mut setup: Vec<Value> = vec![];
    for (a, b) in &edges {
        setup.push(json!({"a": "conn", "x": a, "y": b}));
    }
    for x in 0..n {
        for t in 0..nt {
            setup.push(json!({"a": "sub", "n": x, "t": t}));
        }
    }
    setup.shuffle(rng);
    for s in setup {
        ops.push(s);
        for _ in 0..rng.gen_range(0..3) {
            ops.push(json!({"a": "dlv", "i": rng.gen_range(0..64)}));
        }
    }
    // let the network form: everything exchanged, at least one heartbeat round (or not: sometimes
    // publish into a half-built network; then only the safety clauses are due)
    let formed = rng.gen_bool(0.8);
    if formed {
        ops.push(json!({"a": "quiesce", "s": rng.gen_range(0..1_000_000)}));
        ops.push(json!({"a": "form", "s": rng.gen_range(0..1_000_000), "max": 2 * n + 4}));
    }
    let nmsg = rng.gen_range(1..=5);
    let mut k = 0;
    let v12 = rng.gen_bool(0.4);
    let val = rng.gen_bool(0.3);
    for _ in 0..nmsg {
        k += 1;
        if v12 && rng.gen_bool(0.5) {
            // slow links: some queues are held back while traffic (incl. IDONTWANT) keeps arriving
            for _ in 0..rng.gen_range(1..=3) {
                let (x, y) = edges[rng.gen_range(0..edges.len())];
                let (x, y) = if rng.gen_bool(0.5) { (x, y) } else { (y, x) };
                ops.push(json!({"a": if rng.gen_bool(0.7) { "hold" } else { "release" }, "x": x, "y": y}));
            }
        }
        ops.push(json!({"a": "pub", "n": rng.gen_range(0..n), "t": rng.gen_range(0..nt), "k": k, "big": v12 && rng.gen_bool(0.5)}));
        for _ in 0..rng.gen_range(0..(4 * n)) {
            if rng.gen_bool(0.08) {
                ops.push(json!({"a": "hb", "n": rng.gen_range(0..n)}));
            } else if val && rng.gen_bool(0.25) {
                ops.push(json!({"a": "accept", "n": rng.gen_range(0..n), "i": rng.gen_range(0..4)}));
            } else {
                ops.push(json!({"a": "dlv", "i": rng.gen_range(0..64)}));
            }
        }
    }
    ops.push(json!({"a": "settle", "s": rng.gen_range(0..1_000_000), "rounds": n + 2, "due": formed}));
    json!({"cfg": {"n": n, "nt": nt, "lo": lo, "mn": mn, "hi": hi, "flood": flood, "v12": v12, "val": val}, "ops": ops})
}

/// directed: chain x(0) - p(1) - y(2); y publishes a big message, p's IDONTWANT for it reaches x while x still has a
/// burst of small publishes queued for p (slow link): none of them may be lost (seeded mutant C27-1)
fn directed() -> Vec<Value> {
    let mut v = vec![];
    for burst in [1, 3, 5] {
        let mut ops = vec![json!({"a": "conn", "x": 0, "y": 1}), json!({"a": "conn", "x": 1, "y": 2})];
        for x in 0..3 {
            ops.push(json!({"a": "sub", "n": x, "t": 0}));
        }
        ops.push(json!({"a": "quiesce", "s": 1}));
        ops.push(json!({"a": "form", "s": 2, "max": 10}));
        ops.push(json!({"a": "hold", "x": 0, "y": 1}));
        ops.push(json!({"a": "hold", "x": 1, "y": 0}));
        ops.push(json!({"a": "pub", "n": 2, "t": 0, "k": 1, "big": true}));
        ops.push(json!({"a": "quiesce", "s": 3}));
        for i in 0..burst {
            ops.push(json!({"a": "pub", "n": 0, "t": 0, "k": 2 + i}));
        }
        ops.push(json!({"a": "release", "x": 1, "y": 0}));
        ops.push(json!({"a": "quiesce", "s": 4}));
        ops.push(json!({"a": "release", "x": 0, "y": 1}));
        ops.push(json!({"a": "quiesce", "s": 5}));
        ops.push(json!({"a": "settle", "s": 6, "rounds": 5, "due": true}));
        v.push(json!({"cfg": {"n": 3, "nt": 1, "lo": 1, "mn": 2, "hi": 3, "flood": true, "v12": true}, "ops": ops}));
    }
    // validate_messages mode on a clique of 3 / 4: while a node's application still validates a message,
    // the other mesh peers forward the same message to it; after Accept none of them may get it back
    // (seeded mutant C27-2)
    for n in [3usize, 4] {
        let mut ops = vec![];
        for x in 0..n {
            for y in (x + 1)..n {
                ops.push(json!({"a": "conn", "x": x, "y": y}));
            }
            ops.push(json!({"a": "sub", "n": x, "t": 0}));
        }
        ops.push(json!({"a": "quiesce", "s": 1}));
        ops.push(json!({"a": "form", "s": 2, "max": 10}));
        ops.push(json!({"a": "pub", "n": 0, "t": 0, "k": 1}));
        // everything node 0 sent arrives; then nodes 2.. accept first, their forwards reach node 1
        // before node 1's application accepts
        for _ in 0..n {
            ops.push(json!({"a": "dlv", "i": 0}));
        }
        for x in 2..n {
            ops.push(json!({"a": "accept", "n": x, "i": 0}));
        }
        ops.push(json!({"a": "quiesce", "s": 3}));
        ops.push(json!({"a": "settle", "s": 4, "rounds": 4, "due": true}));
        v.push(json!({"cfg": {"n": n, "nt": 1, "lo": 4, "mn": 6, "hi": 12, "flood": true, "val": true}, "ops": ops}));
    }
    v
}

pub fn main(a: &vcommon::Args) {
    vcommon::quiet_panics();
    match a.get(0) {
        "replay" => {
            let scheds = vcommon::read_schedules(a.get(1));
            let mut out = Out::create(a.get(2));
            for s in &scheds {
                run(&mut out, s);
            }
            println!("runs={} events={}", out.run, out.events);
            out.finish();
        }
        // net random <seed> <runs> <max_nodes> <out>
        "random" => {
            let seed = a.num(1);
            let runs = a.num(2);
            let max_n = a.num(3) as usize;
            let mut out = Out::create(a.get(4));
            let mut rng = vcommon::rng(seed ^ 0x2545_f491);
            for s in directed() {
                run(&mut out, &s);
            }
            for _ in 0..runs {
                let s = gen_one(&mut rng, max_n);
                run(&mut out, &s);
            }
            println!("runs={} events={}", out.run, out.events);
            out.finish();
        }
        m => panic!("net mode {m}"),
    }
}
