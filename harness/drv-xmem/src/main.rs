//! X02 driver: the REAL `libp2p_core::transport::MemoryTransport` (process-global port hub), several transport
//! instances in one process, polled by hand.
//!
//!   drv-xmem exhaustive <len> <out> | random <seed> <runs> <out> | replay <file> <out>
//!
//! Ports are process-global: every run uses its own private block of ports BASE + run*64 + 1..8 (abstract 1..8);
//! every other port (allocated by /memory/0, or an ephemeral dial port) is named 100, 101, .. in order of appearance.
//!
//! Schedule: {"ops": [op..]}; transports live in slots 0..2, a dropped transport is replaced by a fresh one (new id)
//!   {"a":"listen","t":slot,"p":k}        k = 0: /memory/0, else the private port k   (optional "sfx":"p2p" appends /p2p/<id>,
//!                                        "sfx":"bad" appends /tcp/1 = not a memory address; also for dial)
//!   {"a":"listenl","t":slot,"l":i}       listen on the (known) port of listener i  (i mod #listeners)
//!   {"a":"listend","t":slot,"d":i}       listen on the (known) ephemeral port of dial i
//!   {"a":"remove","t":slot,"l":i}        remove_listener(id of listener i) on the transport in slot t
//!   {"a":"dial","t":slot,"p":k} {"a":"diall","t":slot,"l":i} {"a":"diald","t":slot,"d":i}   Transport::dial
//!   {"a":"dialpoll","d":i}               ONE poll of the DialFuture; on success the dialer writes its tag byte
//!   {"a":"dropd","d":i}                  drop the unfinished DialFuture
//!   {"a":"poll","t":slot}                ONE call of Transport::poll (an Incoming's upgrade is awaited and its tag read)
//!   {"a":"dropt","t":slot}               drop the transport
//!   {"a":"write","d":i,"side":"d"|"l","n":len} {"a":"read","d":i,"side","n":max} {"a":"close","d":i,"side"}
use std::{collections::HashMap, future::Future, pin::Pin, task::Poll};

use futures::io::{AsyncRead, AsyncWrite};
use libp2p_core::{
    multiaddr::Protocol,
    transport::{DialOpts, ListenerId, MemoryTransport, PortUse, Transport, TransportEvent},
    Endpoint, Multiaddr,
};
use rand::Rng;
use vcommon::{exec::Det, guard, json, Args, Out, Value};

const BASE: u64 = 0x5eed_0000_0000;
const NPRIV: u64 = 8;

type Chan = libp2p_core::transport::memory::Channel<Vec<u8>>;
type DialFut = <MemoryTransport as Transport>::Dial;

struct Dial {
    fut: Option<Pin<Box<DialFut>>>,
    dend: Option<Pin<Box<Chan>>>,
    lend: Option<Pin<Box<Chan>>>,
    dport: Option<i64>,
}

struct World {
    base: u64,
    names: HashMap<u64, i64>,
    trans: Vec<(i64, Option<MemoryTransport>)>, // (transport id, instance)
    next_tid: i64,
    lids: Vec<(ListenerId, Option<i64>)>, // listener i: id, known abstract port
    dials: Vec<Dial>,
    det: Det,
    wr: u8,
}

impl World {
    fn new(run: u64) -> Self {
        World {
            base: BASE + run * 64,
            names: HashMap::new(),
            trans: (0..3).map(|i| (i as i64 + 1, Some(MemoryTransport::new()))).collect(),
            next_tid: 4,
            lids: vec![],
            dials: vec![],
            det: Det::new(),
            wr: 0,
        }
    }
    fn abs(&mut self, real: u64) -> i64 {
        if real > self.base && real <= self.base + NPRIV {
            return (real - self.base) as i64;
        }
        if real == 0 {
            return 0;
        }
        let n = self.names.len() as i64;
        *self.names.entry(real).or_insert(100 + n)
    }
    fn real(&self, abs: i64) -> Option<u64> {
        if abs == 0 {
            Some(0)
        } else if abs < 100 {
            Some(self.base + abs as u64)
        } else {
            self.names.iter().find(|(_, v)| **v == abs).map(|(k, _)| *k)
        }
    }
    fn port_of(&mut self, a: &Multiaddr) -> i64 {
        match a.iter().next() {
            Some(Protocol::Memory(p)) => self.abs(p),
            _ => -1,
        }
    }
    fn lid_index(&self, id: ListenerId) -> i64 {
        self.lids.iter().position(|(l, _)| *l == id).map(|i| i as i64 + 1).unwrap_or(-1)
    }
}

fn addr(real: u64) -> Multiaddr {
    Multiaddr::empty().with(Protocol::Memory(real))
}

/// "p2p": /memory/N/p2p/<peer> (supported, same port); "bad": /memory/N/tcp/1 (not a memory address)
fn addr_sfx(real: u64, sfx: &str) -> Multiaddr {
    match sfx {
        "p2p" => addr(real).with(Protocol::P2p(libp2p_identity::PeerId::random())),
        "bad" => addr(real).with(Protocol::Tcp(1)),
        _ => addr(real),
    }
}

fn sfx_of(op: &Value) -> &'static str {
    match op["sfx"].as_str() {
        Some("p2p") => "p2p",
        Some("bad") => "bad",
        _ => "",
    }
}

fn step(w: &mut World, op: &Value) -> Value {
    let a = op["a"].as_str().unwrap_or("");
    let slot = op["t"].as_u64().unwrap_or(0) as usize % 3;
    let det = w.det.clone();
    match a {
        "listen" | "listenl" | "listend" => {
            let p: Option<i64> = match a {
                "listen" => Some(op["p"].as_i64().unwrap_or(0).clamp(0, NPRIV as i64)),
                "listenl" => {
                    if w.lids.is_empty() {
                        None
                    } else {
                        w.lids[op["l"].as_u64().unwrap_or(0) as usize % w.lids.len()].1
                    }
                }
                _ => {
                    if w.dials.is_empty() {
                        None
                    } else {
                        w.dials[op["d"].as_u64().unwrap_or(0) as usize % w.dials.len()].dport
                    }
                }
            };
            let Some(p) = p else { return json!({"e": "skip"}) };
            let Some(real) = w.real(p) else { return json!({"e": "skip"}) };
            let id = ListenerId::next();
            let tid = w.trans[slot].0;
            let sfx = sfx_of(op);
            let res = w.trans[slot].1.as_mut().unwrap().listen_on(id, addr_sfx(real, sfx));
            match res {
                Ok(()) => {
                    w.lids.push((id, if p == 0 { None } else { Some(p) }));
                    json!({"e": "listen", "t": tid, "p": p, "res": "ok", "lid": w.lids.len(), "sfx": sfx})
                }
                Err(libp2p_core::transport::TransportError::MultiaddrNotSupported(_)) => json!({"e": "listen", "t": tid, "p": p, "res": "unsupported", "lid": 0, "sfx": sfx}),
                Err(_) => json!({"e": "listen", "t": tid, "p": p, "res": "err", "lid": 0, "sfx": sfx}),
            }
        }
        "remove" => {
            if w.lids.is_empty() {
                return json!({"e": "skip"});
            }
            let i = op["l"].as_u64().unwrap_or(0) as usize % w.lids.len();
            let tid = w.trans[slot].0;
            let res = w.trans[slot].1.as_mut().unwrap().remove_listener(w.lids[i].0);
            json!({"e": "remove", "t": tid, "lid": i + 1, "res": res})
        }
        "dial" | "diall" | "diald" => {
            let p: Option<i64> = match a {
                "dial" => Some(op["p"].as_i64().unwrap_or(0).clamp(0, NPRIV as i64)),
                "diall" => {
                    if w.lids.is_empty() {
                        None
                    } else {
                        w.lids[op["l"].as_u64().unwrap_or(0) as usize % w.lids.len()].1
                    }
                }
                _ => {
                    if w.dials.is_empty() {
                        None
                    } else {
                        w.dials[op["d"].as_u64().unwrap_or(0) as usize % w.dials.len()].dport
                    }
                }
            };
            let Some(p) = p else { return json!({"e": "skip"}) };
            let Some(real) = w.real(p) else { return json!({"e": "skip"}) };
            let tid = w.trans[slot].0;
            let sfx = sfx_of(op);
            let res = w.trans[slot].1.as_mut().unwrap().dial(addr_sfx(real, sfx), DialOpts { role: Endpoint::Dialer, port_use: PortUse::New });
            match res {
                Ok(f) => {
                    w.dials.push(Dial { fut: Some(Box::pin(f)), dend: None, lend: None, dport: None });
                    json!({"e": "dial", "t": tid, "p": p, "res": "ok", "d": w.dials.len(), "sfx": sfx})
                }
                Err(libp2p_core::transport::TransportError::MultiaddrNotSupported(_)) => json!({"e": "dial", "t": tid, "p": p, "res": "unsupported", "d": 0, "sfx": sfx}),
                Err(_) => json!({"e": "dial", "t": tid, "p": p, "res": "err", "d": 0, "sfx": sfx}),
            }
        }
        "dialpoll" | "dropd" => {
            let live: Vec<usize> = (0..w.dials.len()).filter(|i| w.dials[*i].fut.is_some()).collect();
            if live.is_empty() {
                return json!({"e": "skip"});
            }
            let i = live[op["d"].as_u64().unwrap_or(0) as usize % live.len()];
            if a == "dropd" {
                w.dials[i].fut = None;
                return json!({"e": "dropd", "d": i + 1});
            }
            let mut f = w.dials[i].fut.take().unwrap();
            match det.poll(f.as_mut()) {
                Poll::Pending => {
                    w.dials[i].fut = Some(f);
                    json!({"e": "dialpoll", "d": i + 1, "res": "pending", "tag": ""})
                }
                Poll::Ready(Err(_)) => json!({"e": "dialpoll", "d": i + 1, "res": "err", "tag": ""}),
                Poll::Ready(Ok(ch)) => {
                    let mut ch = Box::pin(ch);
                    let mut cx = det.cx();
                    let tag = match ch.as_mut().poll_write(&mut cx, &[(i + 1) as u8]) {
                        Poll::Ready(Ok(1)) => "ok",
                        Poll::Ready(Ok(_)) => "short",
                        Poll::Ready(Err(_)) => "err",
                        Poll::Pending => "pending",
                    };
                    w.dials[i].dend = Some(ch);
                    json!({"e": "dialpoll", "d": i + 1, "res": "ok", "tag": tag})
                }
            }
        }
        "poll" => {
            let tid = w.trans[slot].0;
            let mut cx = det.cx();
            let r = Pin::new(w.trans[slot].1.as_mut().unwrap()).poll(&mut cx);
            match r {
                Poll::Pending => json!({"e": "poll", "t": tid, "res": "pending"}),
                Poll::Ready(TransportEvent::NewAddress { listener_id, listen_addr }) => {
                    let p = w.port_of(&listen_addr);
                    let li = w.lid_index(listener_id);
                    if li > 0 {
                        w.lids[(li - 1) as usize].1 = Some(p);
                    }
                    json!({"e": "poll", "t": tid, "res": "newaddr", "lid": li, "p": p, "n": listen_addr.iter().count()})
                }
                Poll::Ready(TransportEvent::Incoming { listener_id, upgrade, local_addr, send_back_addr }) => {
                    let li = w.lid_index(listener_id);
                    let local = w.port_of(&local_addr);
                    let from = w.port_of(&send_back_addr);
                    let mut up = Box::pin(upgrade);
                    let mut d = -1i64;
                    let mut ups = "pending";
                    if let Poll::Ready(x) = det.poll(up.as_mut()) {
                        match x {
                            Err(_) => ups = "err",
                            Ok(ch) => {
                                ups = "ok";
                                let mut ch = Box::pin(ch);
                                let mut b = [0u8; 1];
                                let mut cx = det.cx();
                                if let Poll::Ready(Ok(1)) = ch.as_mut().poll_read(&mut cx, &mut b) {
                                    d = b[0] as i64;
                                    if d >= 1 && (d as usize) <= w.dials.len() && w.dials[d as usize - 1].lend.is_none() {
                                        w.dials[d as usize - 1].lend = Some(ch);
                                        w.dials[d as usize - 1].dport = Some(from);
                                    }
                                }
                            }
                        }
                    }
                    json!({"e": "poll", "t": tid, "res": "incoming", "lid": li, "local": local, "from": from, "d": d, "up": ups})
                }
                Poll::Ready(TransportEvent::ListenerClosed { listener_id, reason }) => {
                    json!({"e": "poll", "t": tid, "res": "closed", "lid": w.lid_index(listener_id), "ok": reason.is_ok()})
                }
                Poll::Ready(TransportEvent::AddressExpired { listener_id, listen_addr }) => {
                    let p = w.port_of(&listen_addr);
                    json!({"e": "poll", "t": tid, "res": "expired", "lid": w.lid_index(listener_id), "p": p})
                }
                Poll::Ready(TransportEvent::ListenerError { listener_id, .. }) => json!({"e": "poll", "t": tid, "res": "error", "lid": w.lid_index(listener_id)}),
            }
        }
        "dropt" => {
            let tid = w.trans[slot].0;
            w.trans[slot].1 = None;
            let nt = w.next_tid;
            w.next_tid += 1;
            w.trans[slot] = (nt, Some(MemoryTransport::new()));
            json!({"e": "dropt", "t": tid, "nt": nt})
        }
        "write" | "read" | "close" => {
            let side = if op["side"].as_str() == Some("l") { "l" } else { "d" };
            // "d" counts among the connections whose `side` end exists
            let have: Vec<usize> = (0..w.dials.len()).filter(|i| if side == "l" { w.dials[*i].lend.is_some() } else { w.dials[*i].dend.is_some() }).collect();
            if have.is_empty() {
                return json!({"e": "skip"});
            }
            let i = have[op["d"].as_u64().unwrap_or(0) as usize % have.len()];
            let n = (op["n"].as_u64().unwrap_or(1) as usize).clamp(1, 6);
            let end = if side == "l" { &mut w.dials[i].lend } else { &mut w.dials[i].dend };
            let Some(ch) = end.as_mut() else { return json!({"e": "skip"}) };
            let mut cx = det.cx();
            match a {
                "write" => {
                    let bytes: Vec<u8> = (0..n).map(|k| w.wr.wrapping_add(k as u8) % 200 + 1).collect();
                    w.wr = w.wr.wrapping_add(n as u8);
                    match ch.as_mut().poll_write(&mut cx, &bytes) {
                        Poll::Pending => json!({"e": "write", "d": i + 1, "side": side, "res": "pending", "bytes": bytes, "n": 0}),
                        Poll::Ready(Err(_)) => json!({"e": "write", "d": i + 1, "side": side, "res": "err", "bytes": bytes, "n": 0}),
                        Poll::Ready(Ok(k)) => json!({"e": "write", "d": i + 1, "side": side, "res": "ok", "bytes": bytes, "n": k}),
                    }
                }
                "read" => {
                    let mut buf = vec![0u8; n];
                    match ch.as_mut().poll_read(&mut cx, &mut buf) {
                        Poll::Pending => json!({"e": "read", "d": i + 1, "side": side, "max": n, "res": "pending", "bytes": []}),
                        Poll::Ready(Err(_)) => json!({"e": "read", "d": i + 1, "side": side, "max": n, "res": "err", "bytes": []}),
                        Poll::Ready(Ok(0)) => json!({"e": "read", "d": i + 1, "side": side, "max": n, "res": "eof", "bytes": []}),
                        Poll::Ready(Ok(k)) => json!({"e": "read", "d": i + 1, "side": side, "max": n, "res": "ok", "bytes": (buf[..k.min(n)].to_vec())}),
                    }
                }
                _ => {
                    *end = None;
                    json!({"e": "close", "d": i + 1, "side": side})
                }
            }
        }
        _ => json!({"e": "skip"}),
    }
}

fn run(runno: u64, sched: &Value) -> Vec<Value> {
    let mut w = World::new(runno);
    let mut evs = vec![];
    for op in sched["ops"].as_array().cloned().unwrap_or_default() {
        match guard(|| step(&mut w, &op)) {
            Ok(v) => evs.push(v),
            Err(msg) => {
                evs.push(json!({"e": "panic", "msg": msg}));
                break;
            }
        }
    }
    // clean up (ports are process-global); a panic while dropping is data too
    if let Err(msg) = guard(move || drop(w)) {
        evs.push(json!({"e": "panic", "msg": msg}));
    }
    evs
}

/// Seeded random run generated ONLINE: steps are chosen among those that make sense in the current state and executed
/// at once; the concrete ops are the recorded schedule (the transport is deterministic, so it replays identically).
fn run_online(runno: u64, rng: &mut impl Rng, len: usize) -> (Value, Vec<Value>) {
    let mut w = World::new(runno);
    let mut evs = vec![];
    let mut ops: Vec<Value> = vec![];
    let mut tail: Vec<Value> = vec![];
    for _ in 0..4 {
        for t in 0..3 {
            tail.push(json!({"a": "poll", "t": t}));
        }
    }
    for p in 1..4 {
        tail.push(json!({"a": "listen", "t": 2, "p": p}));
    }
    let total_len = len + tail.len();
    for k in 0..total_len {
        let chosen = if k >= len {
            tail[k - len].clone()
        } else {
            let t = rng.gen_range(0..3);
            let mut cand: Vec<(u32, Value)> = vec![
                (9, json!({"a": "listen", "t": t, "p": rng.gen_range(0..4), "sfx": (["", "", "", "p2p", "bad"][rng.gen_range(0..5)])})),
                (7, json!({"a": "dial", "t": t, "p": rng.gen_range(0..4), "sfx": (["", "", "", "p2p", "bad"][rng.gen_range(0..5)])})),
                (16, json!({"a": "poll", "t": t})),
                (2, json!({"a": "dropt", "t": t})),
            ];
            if !w.lids.is_empty() {
                let l = rng.gen_range(0..w.lids.len());
                cand.push((7, json!({"a": "remove", "t": t, "l": l})));
                cand.push((6, json!({"a": "diall", "t": t, "l": l})));
                cand.push((2, json!({"a": "listenl", "t": t, "l": l})));
            }
            if w.dials.iter().any(|d| d.dport.is_some()) {
                cand.push((2, json!({"a": "listend", "t": t, "d": rng.gen_range(0..4)})));
                cand.push((1, json!({"a": "diald", "t": t, "d": rng.gen_range(0..4)})));
            }
            if w.dials.iter().any(|d| d.fut.is_some()) {
                cand.push((10, json!({"a": "dialpoll", "d": rng.gen_range(0..4)})));
                cand.push((1, json!({"a": "dropd", "d": rng.gen_range(0..4)})));
            }
            for side in ["d", "l"] {
                let have = w.dials.iter().any(|d| if side == "l" { d.lend.is_some() } else { d.dend.is_some() });
                if have {
                    cand.push((5, json!({"a": "write", "d": rng.gen_range(0..4), "side": side, "n": rng.gen_range(1..5)})));
                    cand.push((7, json!({"a": "read", "d": rng.gen_range(0..4), "side": side, "n": rng.gen_range(1..6)})));
                    cand.push((1, json!({"a": "close", "d": rng.gen_range(0..4), "side": side})));
                }
            }
            let total: u32 = cand.iter().map(|c| c.0).sum();
            let mut x = rng.gen_range(0..total);
            let mut chosen = cand[0].1.clone();
            for (wgt, op) in cand {
                if x < wgt {
                    chosen = op;
                    break;
                }
                x -= wgt;
            }
            chosen
        };
        ops.push(chosen.clone());
        match guard(|| step(&mut w, &chosen)) {
            Ok(v) => evs.push(v),
            Err(msg) => {
                evs.push(json!({"e": "panic", "msg": msg}));
                break;
            }
        }
    }
    if let Err(msg) = guard(move || drop(w)) {
        evs.push(json!({"e": "panic", "msg": msg}));
    }
    (json!({"ops": ops}), evs)
}

fn emit(out: &mut Out, sched: &Value, evs: Vec<Value>) {
    out.reset(sched);
    for e in evs {
        out.ev(e);
    }
}

fn letters() -> Vec<Value> {
    vec![
        json!({"a": "listen", "t": 0, "p": 1}),
        json!({"a": "listen", "t": 1, "p": 1}),
        json!({"a": "listen", "t": 0, "p": 0}),
        json!({"a": "remove", "t": 0, "l": 0}),
        json!({"a": "remove", "t": 1, "l": 0}),
        json!({"a": "dial", "t": 1, "p": 1}),
        json!({"a": "diall", "t": 1, "l": 0}),
        json!({"a": "dialpoll", "d": 0}),
        json!({"a": "poll", "t": 0}),
        json!({"a": "poll", "t": 1}),
        json!({"a": "dropt", "t": 0}),
        json!({"a": "close", "d": 0, "side": "d"}),
        json!({"a": "listend", "t": 1, "d": 0}),
    ]
}

/// drain: poll every transport until Pending (bounded), so that every due event is observed
fn drain_ops() -> Vec<Value> {
    let mut v = vec![];
    for _ in 0..3 {
        v.push(json!({"a": "poll", "t": 0}));
        v.push(json!({"a": "poll", "t": 1}));
    }
    v
}

fn random_op(rng: &mut impl Rng) -> Value {
    let t = rng.gen_range(0..3);
    match rng.gen_range(0..100) {
        0..=11 => json!({"a": "listen", "t": t, "p": rng.gen_range(0..4)}),
        12..=14 => json!({"a": "listenl", "t": t, "l": rng.gen_range(0..6)}),
        15..=17 => json!({"a": "listend", "t": t, "d": rng.gen_range(0..6)}),
        18..=27 => json!({"a": "remove", "t": t, "l": rng.gen_range(0..6)}),
        28..=35 => json!({"a": "dial", "t": t, "p": rng.gen_range(0..4)}),
        36..=41 => json!({"a": "diall", "t": t, "l": rng.gen_range(0..6)}),
        42..=43 => json!({"a": "diald", "t": t, "d": rng.gen_range(0..6)}),
        44..=53 => json!({"a": "dialpoll", "d": rng.gen_range(0..4)}),
        54..=55 => json!({"a": "dropd", "d": rng.gen_range(0..4)}),
        56..=75 => json!({"a": "poll", "t": t}),
        76..=79 => json!({"a": "dropt", "t": t}),
        80..=86 => json!({"a": "write", "d": rng.gen_range(0..4), "side": (["d", "l"][rng.gen_range(0..2)]), "n": rng.gen_range(1..5)}),
        87..=95 => json!({"a": "read", "d": rng.gen_range(0..4), "side": (["d", "l"][rng.gen_range(0..2)]), "n": rng.gen_range(1..6)}),
        _ => json!({"a": "close", "d": rng.gen_range(0..4), "side": (["d", "l"][rng.gen_range(0..2)])}),
    }
}

fn main() {
    vcommon::quiet_panics();
    let a = Args::parse();
    // run numbers (= private port blocks) are unique within the process
    let mut runno = 0u64;
    match a.mode.as_str() {
        "exhaustive" => {
            let len = a.num(0) as usize;
            let mut out = Out::create(a.get(1));
            let abc = letters();
            let mut n = 0u64;
            for l in 1..=len {
                let mut idx = vec![0usize; l];
                'seqs: loop {
                    let mut ops: Vec<Value> = idx.iter().map(|i| abc[*i].clone()).collect();
                    ops.extend(drain_ops());
                    ops.push(json!({"a": "listen", "t": 2, "p": 1}));
                    let sched = json!({"ops": ops});
                    runno += 1;
                    let evs = run(runno, &sched);
                    let nskip = evs.iter().take(l).filter(|e| e["e"] == "skip").count();
                    if nskip == 0 {
                        emit(&mut out, &sched, evs);
                        n += 1;
                    }
                    let mut k = l;
                    loop {
                        if k == 0 {
                            break 'seqs;
                        }
                        k -= 1;
                        idx[k] += 1;
                        if idx[k] < abc.len() {
                            break;
                        }
                        idx[k] = 0;
                    }
                }
            }
            println!("runs={n} events={}", out.events);
            out.finish();
        }
        "random" => {
            let seed = a.num(0);
            let runs = a.num(1);
            let mut out = Out::create(a.get(2));
            let mut rng = vcommon::rng(seed ^ 0x3e3042);
            for k in 0..runs {
                let len = rng.gen_range(6..50);
                runno += 1;
                if k % 4 == 3 {
                    // blind schedules too (impossible steps are skipped)
                    let mut ops: Vec<Value> = (0..len).map(|_| random_op(&mut rng)).collect();
                    for _ in 0..4 {
                        for t in 0..3 {
                            ops.push(json!({"a": "poll", "t": t}));
                        }
                    }
                    for p in 1..4 {
                        ops.push(json!({"a": "listen", "t": 2, "p": p}));
                    }
                    let sched = json!({"ops": ops});
                    let evs = run(runno, &sched);
                    emit(&mut out, &sched, evs);
                } else {
                    let (sched, evs) = run_online(runno, &mut rng, len);
                    emit(&mut out, &sched, evs);
                }
            }
            println!("runs={runs} events={}", out.events);
            out.finish();
        }
        "replay" => {
            let scheds = vcommon::read_schedules(a.get(0));
            let mut out = Out::create(a.get(1));
            for s in &scheds {
                runno += 1;
                let evs = run(runno, s);
                emit(&mut out, s, evs);
            }
            println!("runs={} events={}", scheds.len(), out.events);
            out.finish();
        }
        m => {
            eprintln!("unknown mode {m}");
            std::process::exit(2)
        }
    }
}

#[allow(dead_code)]
fn _assert_future<F: Future>(_: &F) {}
