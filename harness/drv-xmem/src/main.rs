fn main() {}
