//! PuppetTransport / PuppetMuxer.
use std::{
    collections::VecDeque,
    future::Future,
    io,
    pin::Pin,
    sync::{Arc, Mutex},
    task::{Context, Poll, Waker},
};

use libp2p_core::{
    muxing::{StreamMuxer, StreamMuxerBox, StreamMuxerEvent},
    transport::{DialOpts, ListenerId, Transport, TransportError, TransportEvent},
    Multiaddr,
};
use libp2p_identity::PeerId;

#[derive(Clone, Debug)]
pub enum Outcome {
    Ok(PeerId),
    Err,
}

pub struct Slot {
    pub addr: Multiaddr,
    /// polled at least once (= the attempt is in flight)
    pub started: bool,
    /// the future returned Ready
    pub done: bool,
    /// the future was dropped before completing (abort / dial finished otherwise)
    pub dropped: bool,
    pub outcome: Option<Outcome>,
    pub muxer: Option<usize>,
    waker: Option<Waker>,
}

#[derive(Default)]
pub struct Mux {
    /// substreams handed out by poll_outbound / poll_inbound on request of the driver
    pub outbound_ready: VecDeque<vcommon::pipe::PipeEnd>,
    pub inbound_ready: VecDeque<vcommon::pipe::PipeEnd>,
    pub fail: bool,
    /// poll_close returns Pending until it was polled this many times (0/1 = immediately)
    pub close_needed: usize,
    pub close_polls: usize,
    /// poll_close returned Ready(Ok): the connection was really closed
    pub close_done: bool,
    pub close_called: bool,
    pub dropped: bool,
    pub addr_change: Option<Multiaddr>,
    waker: Option<Waker>,
}

pub enum Ev {
    NewAddress(ListenerId, Multiaddr),
    AddressExpired(ListenerId, Multiaddr),
    Incoming { listener: ListenerId, local: Multiaddr, send_back: Multiaddr },
    ListenerClosed(ListenerId, bool),
    ListenerError(ListenerId),
}

#[derive(Default)]
pub struct W {
    pub dials: Vec<Slot>,
    pub upgrades: Vec<Slot>,
    pub muxers: Vec<Mux>,
    pub events: VecDeque<Ev>,
    pub listen_calls: Vec<(ListenerId, Multiaddr)>,
    pub removed: Vec<ListenerId>,
    /// dial() returns Err(MultiaddrNotSupported) for these
    pub unsupported: Vec<Multiaddr>,
    /// listen_on() returns Err for these
    pub unlistenable: Vec<Multiaddr>,
    /// close_needed of newly created muxers
    pub close_needed: usize,
    waker: Option<Waker>,
}

#[derive(Clone, Default)]
pub struct World(pub Arc<Mutex<W>>);

impl World {
    pub fn new() -> Self {
        Self::default()
    }
    pub fn with<R>(&self, f: impl FnOnce(&mut W) -> R) -> R {
        f(&mut self.0.lock().unwrap())
    }
    pub fn push_event(&self, ev: Ev) {
        let mut g = self.0.lock().unwrap();
        g.events.push_back(ev);
        if let Some(w) = g.waker.take() {
            w.wake();
        }
    }
    /// resolve dial attempt `i` (index in order of `Transport::dial` calls)
    pub fn complete_dial(&self, i: usize, o: Outcome) -> bool {
        let mut g = self.0.lock().unwrap();
        let Some(s) = g.dials.get_mut(i) else { return false };
        if s.done || s.dropped || s.outcome.is_some() {
            return false;
        }
        s.outcome = Some(o);
        if let Some(w) = s.waker.take() {
            w.wake();
        }
        true
    }
    pub fn complete_upgrade(&self, i: usize, o: Outcome) -> bool {
        let mut g = self.0.lock().unwrap();
        let Some(s) = g.upgrades.get_mut(i) else { return false };
        if s.done || s.dropped || s.outcome.is_some() {
            return false;
        }
        s.outcome = Some(o);
        if let Some(w) = s.waker.take() {
            w.wake();
        }
        true
    }
    pub fn fail_muxer(&self, m: usize) -> bool {
        let mut g = self.0.lock().unwrap();
        let Some(x) = g.muxers.get_mut(m) else { return false };
        if x.fail || x.dropped {
            return false;
        }
        x.fail = true;
        if let Some(w) = x.waker.take() {
            w.wake();
        }
        true
    }
    /// make a substream available to the muxer's poll_outbound (out = true) or poll_inbound
    pub fn offer_substream(&self, m: usize, out: bool, end: vcommon::pipe::PipeEnd) -> bool {
        let mut g = self.0.lock().unwrap();
        let Some(x) = g.muxers.get_mut(m) else { return false };
        if x.dropped || x.fail {
            return false;
        }
        if out {
            x.outbound_ready.push_back(end);
        } else {
            x.inbound_ready.push_back(end);
        }
        if let Some(w) = x.waker.take() {
            w.wake();
        }
        true
    }
    pub fn muxer_addr_change(&self, m: usize, a: Multiaddr) -> bool {
        let mut g = self.0.lock().unwrap();
        let Some(x) = g.muxers.get_mut(m) else { return false };
        if x.dropped {
            return false;
        }
        x.addr_change = Some(a);
        if let Some(w) = x.waker.take() {
            w.wake();
        }
        true
    }
    /// number of dial futures polled at least once and neither completed nor dropped
    pub fn dials_in_flight(&self) -> usize {
        let g = self.0.lock().unwrap();
        g.dials.iter().filter(|s| s.started && !s.done && !s.dropped).count()
    }
}

pub struct PuppetTransport {
    pub world: World,
}

#[derive(Clone, Copy)]
enum Kind {
    Dial,
    Upgrade,
}

pub struct PuppetFut {
    world: World,
    kind: Kind,
    idx: usize,
}

impl Future for PuppetFut {
    type Output = Result<(PeerId, StreamMuxerBox), io::Error>;
    fn poll(self: Pin<&mut Self>, cx: &mut Context<'_>) -> Poll<Self::Output> {
        let mut g = self.world.0.lock().unwrap();
        let nmux = g.muxers.len();
        let s = match self.kind {
            Kind::Dial => &mut g.dials[self.idx],
            Kind::Upgrade => &mut g.upgrades[self.idx],
        };
        s.started = true;
        match s.outcome.clone() {
            None => {
                s.waker = Some(cx.waker().clone());
                Poll::Pending
            }
            Some(Outcome::Err) => {
                s.done = true;
                Poll::Ready(Err(io::Error::new(io::ErrorKind::ConnectionRefused, "puppet: scripted failure")))
            }
            Some(Outcome::Ok(p)) => {
                s.done = true;
                s.muxer = Some(nmux);
                let cn = g.close_needed;
                g.muxers.push(Mux { close_needed: cn, ..Mux::default() });
                let m = PuppetMuxer { world: self.world.clone(), idx: nmux };
                Poll::Ready(Ok((p, StreamMuxerBox::new(m))))
            }
        }
    }
}

impl Drop for PuppetFut {
    fn drop(&mut self) {
        if let Ok(mut g) = self.world.0.lock() {
            let s = match self.kind {
                Kind::Dial => &mut g.dials[self.idx],
                Kind::Upgrade => &mut g.upgrades[self.idx],
            };
            if !s.done {
                s.dropped = true;
            }
        }
    }
}

impl Transport for PuppetTransport {
    type Output = (PeerId, StreamMuxerBox);
    type Error = io::Error;
    type ListenerUpgrade = PuppetFut;
    type Dial = PuppetFut;

    fn listen_on(&mut self, id: ListenerId, addr: Multiaddr) -> Result<(), TransportError<Self::Error>> {
        let mut g = self.world.0.lock().unwrap();
        if g.unlistenable.contains(&addr) {
            return Err(TransportError::MultiaddrNotSupported(addr));
        }
        g.listen_calls.push((id, addr));
        Ok(())
    }

    fn remove_listener(&mut self, id: ListenerId) -> bool {
        let mut g = self.world.0.lock().unwrap();
        let known = g.listen_calls.iter().any(|(l, _)| *l == id) && !g.removed.contains(&id);
        if known {
            g.removed.push(id);
            g.events.push_back(Ev::ListenerClosed(id, true));
            if let Some(w) = g.waker.take() {
                w.wake();
            }
        }
        known
    }

    fn dial(&mut self, addr: Multiaddr, _opts: DialOpts) -> Result<Self::Dial, TransportError<Self::Error>> {
        let mut g = self.world.0.lock().unwrap();
        if g.unsupported.contains(&addr) {
            return Err(TransportError::MultiaddrNotSupported(addr));
        }
        let idx = g.dials.len();
        g.dials.push(Slot { addr, started: false, done: false, dropped: false, outcome: None, muxer: None, waker: None });
        Ok(PuppetFut { world: self.world.clone(), kind: Kind::Dial, idx })
    }

    fn poll(self: Pin<&mut Self>, cx: &mut Context<'_>) -> Poll<TransportEvent<Self::ListenerUpgrade, Self::Error>> {
        let mut g = self.world.0.lock().unwrap();
        match g.events.pop_front() {
            None => {
                g.waker = Some(cx.waker().clone());
                Poll::Pending
            }
            Some(Ev::NewAddress(listener_id, listen_addr)) => Poll::Ready(TransportEvent::NewAddress { listener_id, listen_addr }),
            Some(Ev::AddressExpired(listener_id, listen_addr)) => Poll::Ready(TransportEvent::AddressExpired { listener_id, listen_addr }),
            Some(Ev::ListenerClosed(listener_id, ok)) => {
                if !g.removed.contains(&listener_id) {
                    g.removed.push(listener_id);
                }
                Poll::Ready(TransportEvent::ListenerClosed {
                    listener_id,
                    reason: if ok { Ok(()) } else { Err(io::Error::other("puppet: listener failed")) },
                })
            }
            Some(Ev::ListenerError(listener_id)) => {
                Poll::Ready(TransportEvent::ListenerError { listener_id, error: io::Error::other("puppet: listener error") })
            }
            Some(Ev::Incoming { listener, local, send_back }) => {
                let idx = g.upgrades.len();
                g.upgrades.push(Slot { addr: send_back.clone(), started: false, done: false, dropped: false, outcome: None, muxer: None, waker: None });
                Poll::Ready(TransportEvent::Incoming {
                    listener_id: listener,
                    upgrade: PuppetFut { world: self.world.clone(), kind: Kind::Upgrade, idx },
                    local_addr: local,
                    send_back_addr: send_back,
                })
            }
        }
    }
}

pub struct PuppetMuxer {
    world: World,
    idx: usize,
}

/// PuppetMuxer never yields substreams; the type is uninhabited in practice.
pub struct NoStream(std::convert::Infallible);

impl futures::io::AsyncRead for NoStream {
    fn poll_read(self: Pin<&mut Self>, _: &mut Context<'_>, _: &mut [u8]) -> Poll<io::Result<usize>> {
        match self.0 {}
    }
}
impl futures::io::AsyncWrite for NoStream {
    fn poll_write(self: Pin<&mut Self>, _: &mut Context<'_>, _: &[u8]) -> Poll<io::Result<usize>> {
        match self.0 {}
    }
    fn poll_flush(self: Pin<&mut Self>, _: &mut Context<'_>) -> Poll<io::Result<()>> {
        match self.0 {}
    }
    fn poll_close(self: Pin<&mut Self>, _: &mut Context<'_>) -> Poll<io::Result<()>> {
        match self.0 {}
    }
}

impl StreamMuxer for PuppetMuxer {
    type Substream = vcommon::pipe::PipeEnd;
    type Error = io::Error;

    fn poll_inbound(self: Pin<&mut Self>, cx: &mut Context<'_>) -> Poll<Result<Self::Substream, Self::Error>> {
        let mut g = self.world.0.lock().unwrap();
        let m = &mut g.muxers[self.idx];
        if let Some(s) = m.inbound_ready.pop_front() {
            return Poll::Ready(Ok(s));
        }
        m.waker = Some(cx.waker().clone());
        Poll::Pending
    }
    fn poll_outbound(self: Pin<&mut Self>, cx: &mut Context<'_>) -> Poll<Result<Self::Substream, Self::Error>> {
        let mut g = self.world.0.lock().unwrap();
        let m = &mut g.muxers[self.idx];
        if let Some(s) = m.outbound_ready.pop_front() {
            return Poll::Ready(Ok(s));
        }
        m.waker = Some(cx.waker().clone());
        Poll::Pending
    }
    fn poll_close(self: Pin<&mut Self>, cx: &mut Context<'_>) -> Poll<Result<(), Self::Error>> {
        let mut g = self.world.0.lock().unwrap();
        let m = &mut g.muxers[self.idx];
        m.close_called = true;
        m.close_polls += 1;
        if m.close_polls >= m.close_needed {
            m.close_done = true;
            Poll::Ready(Ok(()))
        } else {
            cx.waker().wake_by_ref();
            Poll::Pending
        }
    }
    fn poll(self: Pin<&mut Self>, cx: &mut Context<'_>) -> Poll<Result<StreamMuxerEvent, Self::Error>> {
        let mut g = self.world.0.lock().unwrap();
        let m = &mut g.muxers[self.idx];
        if m.fail {
            return Poll::Ready(Err(io::Error::new(io::ErrorKind::ConnectionReset, "puppet: muxer failed")));
        }
        if let Some(a) = m.addr_change.take() {
            return Poll::Ready(Ok(StreamMuxerEvent::AddressChange(a)));
        }
        m.waker = Some(cx.waker().clone());
        Poll::Pending
    }
}

impl Drop for PuppetMuxer {
    fn drop(&mut self) {
        if let Ok(mut g) = self.world.0.lock() {
            g.muxers[self.idx].dropped = true;
        }
    }
}
