//! ProbeBehaviour / ProbeHandler: record every callback, answer from a script.
use std::{
    collections::{HashMap, HashSet, VecDeque},
    convert::Infallible,
    sync::{Arc, Mutex},
    task::{Context, Poll, Waker},
};

use futures::future::{ready, Ready};
use libp2p_core::{
    transport::PortUse,
    upgrade::{InboundUpgrade, OutboundUpgrade, UpgradeInfo},
    ConnectedPoint, Endpoint, Multiaddr,
};
use libp2p_identity::PeerId;
use libp2p_swarm::{
    behaviour::{FromSwarm, ToSwarm},
    handler::{ConnectionEvent, ProtocolSupport, ProtocolsChange},
    ConnectionDenied, ConnectionHandler, ConnectionHandlerEvent, ConnectionId, DialError, ListenError,
    NetworkBehaviour, StreamProtocol, SubstreamProtocol, THandler, THandlerInEvent, THandlerOutEvent,
};
use vcommon::{json, Value};

use crate::ids::{Ids, Log};

/// What the behaviour answers for one connection.
#[derive(Clone, Default, Debug)]
pub struct Plan {
    pub deny_pending: bool,
    pub deny_established: bool,
    pub extra_addrs: Vec<Multiaddr>,
}

/// Per-connection handler control, shared between driver and handler.
#[derive(Default)]
pub struct HCtl {
    pub keep_alive: bool,
    pub protocols: Vec<String>,
    /// events the handler emits to the behaviour on its next poll
    pub to_behaviour: VecDeque<Value>,
    /// remote protocol reports the handler emits on its next poll: (added?, names)
    pub report_remote: VecDeque<(bool, Vec<String>)>,
    pub waker: Option<Waker>,
    /// if set, poll_close yields these events before finishing
    pub close_events: VecDeque<Value>,
    /// number of outbound substream requests the handler emits on its next polls
    pub request_outbound: usize,
    /// negotiated streams held by the handler (None = dropped)
    pub streams: Vec<Option<libp2p_swarm::Stream>>,
}

pub type HShared = Arc<Mutex<HCtl>>;

#[derive(Default)]
pub struct Ctl {
    pub plans: HashMap<ConnectionId, Plan>,
    pub incoming_plans: VecDeque<Plan>,
    pub default_plan: Plan,
    pub commands: VecDeque<ToSwarm<Value, Value>>,
    pub waker: Option<Waker>,
    pub handlers: HashMap<ConnectionId, HShared>,
    /// initial settings for new handlers
    pub handler_keep_alive: bool,
    pub handler_protocols: Vec<String>,
}

#[derive(Clone, Default)]
pub struct Shared(pub Arc<Mutex<Ctl>>);

impl Shared {
    pub fn with<R>(&self, f: impl FnOnce(&mut Ctl) -> R) -> R {
        f(&mut self.0.lock().unwrap())
    }
    pub fn emit(&self, cmd: ToSwarm<Value, Value>) {
        let mut g = self.0.lock().unwrap();
        g.commands.push_back(cmd);
        if let Some(w) = g.waker.take() {
            w.wake();
        }
    }
    pub fn handler(&self, c: ConnectionId) -> Option<HShared> {
        self.0.lock().unwrap().handlers.get(&c).cloned()
    }
    pub fn wake_handler(&self, c: ConnectionId) {
        if let Some(h) = self.handler(c) {
            if let Some(w) = h.lock().unwrap().waker.take() {
                w.wake();
            }
        }
    }
}

pub struct ProbeBehaviour {
    pub name: String,
    pub ids: Ids,
    pub log: Log,
    pub ctl: Shared,
}

#[derive(Debug)]
pub struct Denied(pub String);
impl std::fmt::Display for Denied {
    fn fmt(&self, f: &mut std::fmt::Formatter<'_>) -> std::fmt::Result {
        write!(f, "denied by {}", self.0)
    }
}
impl std::error::Error for Denied {}

pub fn dial_error_kind(e: &DialError) -> &'static str {
    match e {
        DialError::LocalPeerId { .. } => "LocalPeerId",
        DialError::NoAddresses => "NoAddresses",
        DialError::DialPeerConditionFalse(_) => "ConditionFalse",
        DialError::Aborted => "Aborted",
        DialError::WrongPeerId { .. } => "WrongPeerId",
        DialError::Denied { .. } => "Denied",
        DialError::Transport(_) => "Transport",
    }
}

pub fn listen_error_kind(e: &ListenError) -> &'static str {
    match e {
        ListenError::Aborted => "Aborted",
        ListenError::WrongPeerId { .. } => "WrongPeerId",
        ListenError::LocalPeerId { .. } => "LocalPeerId",
        ListenError::Denied { .. } => "Denied",
        ListenError::Transport(_) => "Transport",
    }
}

pub fn dir_of(ep: &ConnectedPoint) -> &'static str {
    if ep.is_dialer() {
        "out"
    } else {
        "in"
    }
}

impl ProbeBehaviour {
    pub fn new(name: &str, ids: Ids, log: Log) -> Self {
        ProbeBehaviour { name: name.to_string(), ids, log, ctl: Shared::default() }
    }

    fn plan_for(&self, c: ConnectionId, incoming_first: bool) -> Plan {
        let mut g = self.ctl.0.lock().unwrap();
        if let Some(p) = g.plans.get(&c) {
            return p.clone();
        }
        let p = if incoming_first { g.incoming_plans.pop_front().unwrap_or_else(|| g.default_plan.clone()) } else { g.default_plan.clone() };
        g.plans.insert(c, p.clone());
        p
    }

    fn new_handler(&self, c: ConnectionId, peer: PeerId) -> ProbeHandler {
        let mut g = self.ctl.0.lock().unwrap();
        let h = Arc::new(Mutex::new(HCtl { keep_alive: g.handler_keep_alive, protocols: g.handler_protocols.clone(), ..Default::default() }));
        g.handlers.insert(c, h.clone());
        ProbeHandler { beh: self.name.clone(), conn: self.ids.conn(c), peer: self.ids.peer(&peer), log: self.log.clone(), ctl: h }
    }
}

impl NetworkBehaviour for ProbeBehaviour {
    type ConnectionHandler = ProbeHandler;
    type ToSwarm = Value;

    fn handle_pending_inbound_connection(&mut self, c: ConnectionId, local: &Multiaddr, remote: &Multiaddr) -> Result<(), ConnectionDenied> {
        let p = self.plan_for(c, true);
        self.log.push(json!({"e": "cbPendingIn", "b": self.name, "id": self.ids.conn(c), "local": local.to_string(), "remote": remote.to_string(), "deny": p.deny_pending}));
        if p.deny_pending {
            Err(ConnectionDenied::new(Denied(self.name.clone())))
        } else {
            Ok(())
        }
    }

    fn handle_established_inbound_connection(&mut self, c: ConnectionId, peer: PeerId, _local: &Multiaddr, _remote: &Multiaddr) -> Result<THandler<Self>, ConnectionDenied> {
        let p = self.plan_for(c, true);
        self.log.push(json!({"e": "cbEstIn", "b": self.name, "id": self.ids.conn(c), "peer": self.ids.peer(&peer), "deny": p.deny_established}));
        if p.deny_established {
            Err(ConnectionDenied::new(Denied(self.name.clone())))
        } else {
            Ok(self.new_handler(c, peer))
        }
    }

    fn handle_pending_outbound_connection(&mut self, c: ConnectionId, peer: Option<PeerId>, addrs: &[Multiaddr], _role: Endpoint) -> Result<Vec<Multiaddr>, ConnectionDenied> {
        let p = self.plan_for(c, false);
        self.log.push(json!({"e": "cbPendingOut", "b": self.name, "id": self.ids.conn(c), "peer": self.ids.opt_peer(peer.as_ref()),
            "addrs": addrs.iter().map(|a| a.to_string()).collect::<Vec<_>>(), "deny": p.deny_pending}));
        if p.deny_pending {
            Err(ConnectionDenied::new(Denied(self.name.clone())))
        } else {
            Ok(p.extra_addrs.clone())
        }
    }

    fn handle_established_outbound_connection(&mut self, c: ConnectionId, peer: PeerId, addr: &Multiaddr, _role: Endpoint, _pu: PortUse) -> Result<THandler<Self>, ConnectionDenied> {
        let p = self.plan_for(c, false);
        self.log.push(json!({"e": "cbEstOut", "b": self.name, "id": self.ids.conn(c), "peer": self.ids.peer(&peer), "addr": addr.to_string(), "deny": p.deny_established}));
        if p.deny_established {
            Err(ConnectionDenied::new(Denied(self.name.clone())))
        } else {
            Ok(self.new_handler(c, peer))
        }
    }

    fn on_swarm_event(&mut self, event: FromSwarm) {
        let b = &self.name;
        let v = match event {
            FromSwarm::ConnectionEstablished(e) => json!({"e": "cbConnEstablished", "b": b, "id": self.ids.conn(e.connection_id), "peer": self.ids.peer(&e.peer_id),
                "dir": dir_of(e.endpoint), "other_established": e.other_established,
                "failed_addresses": e.failed_addresses.iter().map(|a| a.to_string()).collect::<Vec<_>>()}),
            FromSwarm::ConnectionClosed(e) => json!({"e": "cbConnClosed", "b": b, "id": self.ids.conn(e.connection_id), "peer": self.ids.peer(&e.peer_id),
                "dir": dir_of(e.endpoint), "remaining_established": e.remaining_established,
                "cause": match e.cause { None => "none", Some(libp2p_swarm::ConnectionError::IO(_)) => "io", Some(libp2p_swarm::ConnectionError::KeepAliveTimeout) => "keepalive" }}),
            FromSwarm::AddressChange(e) => json!({"e": "cbAddressChange", "b": b, "id": self.ids.conn(e.connection_id), "peer": self.ids.peer(&e.peer_id),
                "old": e.old.get_remote_address().to_string(), "new": e.new.get_remote_address().to_string()}),
            FromSwarm::DialFailure(e) => json!({"e": "cbDialFailure", "b": b, "id": self.ids.conn(e.connection_id), "peer": self.ids.opt_peer(e.peer_id.as_ref()),
                "kind": dial_error_kind(e.error)}),
            FromSwarm::ListenFailure(e) => json!({"e": "cbListenFailure", "b": b, "id": self.ids.conn(e.connection_id), "peer": self.ids.opt_peer(e.peer_id.as_ref()),
                "kind": listen_error_kind(e.error)}),
            FromSwarm::NewListener(e) => json!({"e": "cbNewListener", "b": b, "l": self.ids.listener(e.listener_id)}),
            FromSwarm::NewListenAddr(e) => json!({"e": "cbNewListenAddr", "b": b, "l": self.ids.listener(e.listener_id), "addr": e.addr.to_string()}),
            FromSwarm::ExpiredListenAddr(e) => json!({"e": "cbExpiredListenAddr", "b": b, "l": self.ids.listener(e.listener_id), "addr": e.addr.to_string()}),
            FromSwarm::ListenerError(e) => json!({"e": "cbListenerError", "b": b, "l": self.ids.listener(e.listener_id)}),
            FromSwarm::ListenerClosed(e) => json!({"e": "cbListenerClosed", "b": b, "l": self.ids.listener(e.listener_id), "ok": e.reason.is_ok()}),
            FromSwarm::NewExternalAddrCandidate(e) => json!({"e": "cbNewExternalAddrCandidate", "b": b, "addr": e.addr.to_string()}),
            FromSwarm::ExternalAddrConfirmed(e) => json!({"e": "cbExternalAddrConfirmed", "b": b, "addr": e.addr.to_string()}),
            FromSwarm::ExternalAddrExpired(e) => json!({"e": "cbExternalAddrExpired", "b": b, "addr": e.addr.to_string()}),
            FromSwarm::NewExternalAddrOfPeer(e) => json!({"e": "cbNewExternalAddrOfPeer", "b": b, "peer": self.ids.peer(&e.peer_id), "addr": e.addr.to_string()}),
            _ => json!({"e": "cbOther", "b": b}),
        };
        self.log.push(v);
    }

    fn on_connection_handler_event(&mut self, peer: PeerId, c: ConnectionId, event: THandlerOutEvent<Self>) {
        self.log.push(json!({"e": "cbHandlerEvent", "b": self.name, "id": self.ids.conn(c), "peer": self.ids.peer(&peer), "ev": event}));
    }

    fn poll(&mut self, cx: &mut Context<'_>) -> Poll<ToSwarm<Self::ToSwarm, THandlerInEvent<Self>>> {
        let mut g = self.ctl.0.lock().unwrap();
        if let Some(c) = g.commands.pop_front() {
            if let ToSwarm::NotifyHandler { peer_id, handler, event } = &c {
                let (target, id) = match handler {
                    libp2p_swarm::NotifyHandler::One(cid) => ("one", self.ids.conn(*cid)),
                    libp2p_swarm::NotifyHandler::Any => ("any", 0),
                };
                self.log.push(json!({"e": "bEmit", "b": self.name, "peer": self.ids.peer(peer_id), "target": target, "id": id, "ev": event}));
            }
            return Poll::Ready(c);
        }
        g.waker = Some(cx.waker().clone());
        Poll::Pending
    }
}

/// Upgrade advertising a scripted list of protocol names (names may be invalid on purpose).
#[derive(Clone, Debug)]
pub struct ProbeUpgrade {
    pub protocols: Vec<String>,
}

impl UpgradeInfo for ProbeUpgrade {
    type Info = String;
    type InfoIter = std::vec::IntoIter<String>;
    fn protocol_info(&self) -> Self::InfoIter {
        self.protocols.clone().into_iter()
    }
}

impl<C> InboundUpgrade<C> for ProbeUpgrade {
    type Output = (C, String);
    type Error = Infallible;
    type Future = Ready<Result<Self::Output, Self::Error>>;
    fn upgrade_inbound(self, socket: C, info: Self::Info) -> Self::Future {
        ready(Ok((socket, info)))
    }
}

impl<C> OutboundUpgrade<C> for ProbeUpgrade {
    type Output = (C, String);
    type Error = Infallible;
    type Future = Ready<Result<Self::Output, Self::Error>>;
    fn upgrade_outbound(self, socket: C, info: Self::Info) -> Self::Future {
        ready(Ok((socket, info)))
    }
}

pub struct ProbeHandler {
    pub beh: String,
    pub conn: i64,
    pub peer: i64,
    pub log: Log,
    pub ctl: HShared,
}

fn names(ps: impl Iterator<Item = impl AsRef<str>>) -> Vec<String> {
    let mut v: Vec<String> = ps.map(|p| p.as_ref().to_string()).collect();
    v.sort();
    v
}

impl ConnectionHandler for ProbeHandler {
    type FromBehaviour = Value;
    type ToBehaviour = Value;
    type InboundProtocol = ProbeUpgrade;
    type OutboundProtocol = ProbeUpgrade;
    type InboundOpenInfo = ();
    type OutboundOpenInfo = ();

    fn listen_protocol(&self) -> SubstreamProtocol<Self::InboundProtocol, ()> {
        let g = self.ctl.lock().unwrap();
        SubstreamProtocol::new(ProbeUpgrade { protocols: g.protocols.clone() }, ())
    }

    fn connection_keep_alive(&self) -> bool {
        self.ctl.lock().unwrap().keep_alive
    }

    fn poll(&mut self, cx: &mut Context<'_>) -> Poll<ConnectionHandlerEvent<Self::OutboundProtocol, (), Self::ToBehaviour>> {
        let mut g = self.ctl.lock().unwrap();
        if let Some((added, ps)) = g.report_remote.pop_front() {
            let set: HashSet<StreamProtocol> = ps.into_iter().filter_map(|p| StreamProtocol::try_from_owned(p).ok()).collect();
            return Poll::Ready(ConnectionHandlerEvent::ReportRemoteProtocols(if added { ProtocolSupport::Added(set) } else { ProtocolSupport::Removed(set) }));
        }
        if let Some(v) = g.to_behaviour.pop_front() {
            return Poll::Ready(ConnectionHandlerEvent::NotifyBehaviour(v));
        }
        if g.request_outbound > 0 {
            g.request_outbound -= 1;
            self.log.push(json!({"e": "hRequestOut", "b": self.beh, "id": self.conn}));
            return Poll::Ready(ConnectionHandlerEvent::OutboundSubstreamRequest {
                protocol: SubstreamProtocol::new(ProbeUpgrade { protocols: vec!["/probe".to_string()] }, ()),
            });
        }
        g.waker = Some(cx.waker().clone());
        Poll::Pending
    }

    fn poll_close(&mut self, _: &mut Context<'_>) -> Poll<Option<Self::ToBehaviour>> {
        let mut g = self.ctl.lock().unwrap();
        Poll::Ready(g.close_events.pop_front())
    }

    fn on_behaviour_event(&mut self, ev: Self::FromBehaviour) {
        self.log.push(json!({"e": "hEvent", "b": self.beh, "id": self.conn, "peer": self.peer, "ev": ev}));
    }

    fn on_connection_event(&mut self, event: ConnectionEvent<Self::InboundProtocol, Self::OutboundProtocol>) {
        match event {
            ConnectionEvent::LocalProtocolsChange(ProtocolsChange::Added(a)) => {
                self.log.push(json!({"e": "hLocalProto", "b": self.beh, "id": self.conn, "kind": "added", "protos": names(a)}))
            }
            ConnectionEvent::LocalProtocolsChange(ProtocolsChange::Removed(a)) => {
                self.log.push(json!({"e": "hLocalProto", "b": self.beh, "id": self.conn, "kind": "removed", "protos": names(a)}))
            }
            ConnectionEvent::RemoteProtocolsChange(ProtocolsChange::Added(a)) => {
                self.log.push(json!({"e": "hRemoteProto", "b": self.beh, "id": self.conn, "kind": "added", "protos": names(a)}))
            }
            ConnectionEvent::RemoteProtocolsChange(ProtocolsChange::Removed(a)) => {
                self.log.push(json!({"e": "hRemoteProto", "b": self.beh, "id": self.conn, "kind": "removed", "protos": names(a)}))
            }
            ConnectionEvent::FullyNegotiatedOutbound(o) => {
                let mut g = self.ctl.lock().unwrap();
                g.streams.push(Some(o.protocol.0));
                self.log.push(json!({"e": "hStream", "b": self.beh, "id": self.conn, "dir": "out", "k": g.streams.len() - 1}));
            }
            ConnectionEvent::FullyNegotiatedInbound(i) => {
                let mut g = self.ctl.lock().unwrap();
                g.streams.push(Some(i.protocol.0));
                self.log.push(json!({"e": "hStream", "b": self.beh, "id": self.conn, "dir": "in", "k": g.streams.len() - 1}));
            }
            ConnectionEvent::DialUpgradeError(_) => self.log.push(json!({"e": "hDialUpgradeError", "b": self.beh, "id": self.conn})),
            ConnectionEvent::ListenUpgradeError(_) => self.log.push(json!({"e": "hListenUpgradeError", "b": self.beh, "id": self.conn})),
            ConnectionEvent::AddressChange(a) => self.log.push(json!({"e": "hAddressChange", "b": self.beh, "id": self.conn, "new": a.new_address.to_string()})),
            _ => {}
        }
    }
}
