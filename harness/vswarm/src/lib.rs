//! Test doubles that give a driver the knobs the Swarm properties quantify over:
//! * `puppet`: a `Transport` whose dial / upgrade futures complete when, and as whoever, the driver
//!   says; a muxer that fails or closes on command; listener events on command.
//! * `probe`: a `NetworkBehaviour` + `ConnectionHandler` that record every callback into a shared
//!   log with abstract names and answer the connection-management callbacks from a script.
pub mod ids;
pub mod probe;
pub mod puppet;

pub use ids::{Ids, Log};
pub mod rig;
