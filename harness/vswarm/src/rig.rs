//! Rig: one real `Swarm` over a PuppetTransport, polled by hand, with a shared ordered log.
use std::{num::NonZeroU8, pin::Pin, task::Poll, time::Duration};

use futures::Stream;
use libp2p_core::{transport::Transport as _, Multiaddr};
use libp2p_identity::PeerId;
use libp2p_swarm::{Config, NetworkBehaviour, Swarm, SwarmEvent};
use vcommon::{exec::Det, json, Value};

use crate::{
    ids::{Ids, Log},
    probe::{dial_error_kind, dir_of, listen_error_kind},
    puppet::{PuppetTransport, World},
};

type Task = Pin<Box<dyn std::future::Future<Output = ()> + Send>>;

/// Executor that only stores the spawned tasks (pending-connection tasks, connection tasks, close tasks);
/// the driver decides when each of them runs. Gives control over back-pressure and over the windows
/// between "a task has produced its result" and "the pool has processed it".
#[derive(Clone, Default)]
pub struct ManualExec {
    pub tasks: std::sync::Arc<std::sync::Mutex<Vec<Option<Task>>>>,
}

impl libp2p_swarm::Executor for ManualExec {
    fn exec(&self, f: Task) {
        self.tasks.lock().unwrap().push(Some(f));
    }
}

pub struct RigCfg {
    /// connection tasks run only when the driver says so
    pub manual_exec: bool,
    pub npeers: usize,
    pub dial_concurrency: u8,
    pub idle_timeout_ms: u64,
    pub notify_buffer: usize,
    pub per_conn_event_buffer: usize,
    pub smart_dial: bool,
}

impl Default for RigCfg {
    fn default() -> Self {
        RigCfg { manual_exec: false, npeers: 4, dial_concurrency: 8, idle_timeout_ms: 0, notify_buffer: 8, per_conn_event_buffer: 7, smart_dial: false }
    }
}

pub struct Rig<B: NetworkBehaviour> {
    pub swarm: Swarm<B>,
    pub world: World,
    pub ids: Ids,
    pub log: Log,
    pub det: Det,
    pub exec: Option<ManualExec>,
}

pub fn make_ids(npeers: usize) -> Ids {
    Ids::new((0..npeers).map(|_| PeerId::random()).collect())
}

impl<B: NetworkBehaviour> Rig<B>
where
    B::ToSwarm: std::fmt::Debug,
{
    pub fn new(cfg: &RigCfg, ids: Ids, log: Log, behaviour: B) -> Self {
        let world = World::new();
        let t = PuppetTransport { world: world.clone() }.boxed();
        Self::with_transport(t, world, cfg, ids, log, behaviour)
    }

    /// A Swarm over any boxed transport (e.g. memory + plaintext + yamux for real pairs).
    pub fn with_transport(
        t: libp2p_core::transport::Boxed<(PeerId, libp2p_core::muxing::StreamMuxerBox)>,
        world: World,
        cfg: &RigCfg,
        ids: Ids,
        log: Log,
        behaviour: B,
    ) -> Self {
        let exec = if cfg.manual_exec { Some(ManualExec::default()) } else { None };
        let base = match &exec {
            Some(e) => Config::with_executor(e.clone()),
            None => Config::without_executor(),
        };
        let mut c = base
            .with_dial_concurrency_factor(NonZeroU8::new(cfg.dial_concurrency.max(1)).unwrap())
            .with_idle_connection_timeout(Duration::from_millis(cfg.idle_timeout_ms))
            .with_notify_handler_buffer_size(std::num::NonZeroUsize::new(cfg.notify_buffer.max(1)).unwrap())
            .with_per_connection_event_buffer_size(cfg.per_conn_event_buffer);
        if cfg.smart_dial {
            c = c.with_smart_dial();
        }
        let swarm = Swarm::new(t, behaviour, ids.peer_id(0), c);
        Rig { swarm, world, ids, log, det: Det::new(), exec }
    }

    /// Poll until one SwarmEvent is returned (logged) or the swarm is stalled. Returns whether an
    /// event was returned.
    pub fn poll_one(&mut self) -> bool {
        for _ in 0..1000 {
            let before = self.det.wakes();
            let mut cx = self.det.cx();
            match Pin::new(&mut self.swarm).poll_next(&mut cx) {
                Poll::Ready(Some(ev)) => {
                    let v = self.swarm_event(&ev);
                    self.log.push(v);
                    return true;
                }
                Poll::Ready(None) => return false,
                Poll::Pending => {
                    if self.det.wakes() == before && !self.run_tasks_round() {
                        return false;
                    }
                }
            }
        }
        panic!("rig: swarm did not quiesce within 1000 polls");
    }

    /// number of live (spawned, unfinished) tasks under the manual executor
    pub fn live_tasks(&self) -> Vec<usize> {
        match &self.exec {
            Some(e) => e.tasks.lock().unwrap().iter().enumerate().filter(|(_, t)| t.is_some()).map(|(i, _)| i).collect(),
            None => vec![],
        }
    }

    /// poll task k once; returns (existed, finished)
    pub fn run_task(&mut self, k: usize) -> (bool, bool) {
        let Some(e) = &self.exec else { return (false, false) };
        let t = {
            let mut g = e.tasks.lock().unwrap();
            match g.get_mut(k) {
                Some(slot) => slot.take(),
                None => None,
            }
        };
        let Some(mut t) = t else { return (false, false) };
        let mut cx = self.det.cx();
        match t.as_mut().poll(&mut cx) {
            Poll::Ready(()) => (true, true),
            Poll::Pending => {
                e.tasks.lock().unwrap()[k] = Some(t);
                (true, false)
            }
        }
    }

    /// poll every live task once; returns whether anything happened (a task finished or a waker fired)
    pub fn run_tasks_round(&mut self) -> bool {
        if self.exec.is_none() {
            return false;
        }
        let before = self.det.wakes();
        let mut fin = false;
        for k in self.live_tasks() {
            let (_, f) = self.run_task(k);
            fin |= f;
        }
        fin || self.det.wakes() != before
    }

    /// poll only the Swarm (tasks stay frozen) until it stalls; returns the number of SwarmEvents
    pub fn poll_swarm_only(&mut self) -> usize {
        let mut n = 0;
        for _ in 0..1000 {
            let before = self.det.wakes();
            let mut cx = self.det.cx();
            match Pin::new(&mut self.swarm).poll_next(&mut cx) {
                Poll::Ready(Some(ev)) => {
                    let v = self.swarm_event(&ev);
                    self.log.push(v);
                    n += 1;
                }
                Poll::Ready(None) => break,
                Poll::Pending => {
                    if self.det.wakes() == before {
                        break;
                    }
                }
            }
        }
        n
    }

    /// Exactly one call of `Swarm::poll_next` (no re-poll on wake-up): exposes intermediate states such as
    /// "a connection task has queued its result but the pool has not processed it yet". Returns whether an event came out.
    pub fn poll_raw(&mut self) -> bool {
        let mut cx = self.det.cx();
        match Pin::new(&mut self.swarm).poll_next(&mut cx) {
            Poll::Ready(Some(ev)) => {
                let v = self.swarm_event(&ev);
                self.log.push(v);
                true
            }
            _ => false,
        }
    }

    /// Poll to quiescence; returns the number of SwarmEvents returned.
    pub fn poll_quiescent(&mut self) -> usize {
        let mut n = 0;
        while self.poll_one() {
            n += 1;
            if n > 10_000 {
                panic!("rig: more than 10000 swarm events in one poll");
            }
        }
        n
    }

    pub fn addr_s(a: &Multiaddr) -> String {
        a.to_string()
    }

    pub fn swarm_event(&self, ev: &SwarmEvent<B::ToSwarm>) -> Value {
        let ids = &self.ids;
        match ev {
            SwarmEvent::Behaviour(b) => json!({"e": "swarmEvent", "kind": "behaviour", "ev": format!("{b:?}")}),
            SwarmEvent::ConnectionEstablished { peer_id, connection_id, endpoint, num_established, concurrent_dial_errors, .. } => json!({
                "e": "swarmEvent", "kind": "est", "id": ids.conn(*connection_id), "peer": ids.peer(peer_id), "dir": dir_of(endpoint),
                "num_established": num_established.get(), "addr": endpoint.get_remote_address().to_string(),
                "dial_errors": concurrent_dial_errors.as_ref().map(|v| v.iter().map(|(a, _)| a.to_string()).collect::<Vec<_>>()).unwrap_or_default(),
                "has_dial_errors": concurrent_dial_errors.is_some()}),
            SwarmEvent::ConnectionClosed { peer_id, connection_id, endpoint, num_established, cause } => json!({
                "e": "swarmEvent", "kind": "closed", "id": ids.conn(*connection_id), "peer": ids.peer(peer_id), "dir": dir_of(endpoint),
                "num_established": num_established,
                "cause": match cause { None => "none", Some(libp2p_swarm::ConnectionError::IO(_)) => "io", Some(libp2p_swarm::ConnectionError::KeepAliveTimeout) => "keepalive" }}),
            SwarmEvent::IncomingConnection { connection_id, local_addr, send_back_addr } => json!({
                "e": "swarmEvent", "kind": "incoming", "id": ids.conn(*connection_id), "local": local_addr.to_string(), "remote": send_back_addr.to_string()}),
            SwarmEvent::IncomingConnectionError { connection_id, error, peer_id, .. } => json!({
                "e": "swarmEvent", "kind": "inErr", "id": ids.conn(*connection_id), "peer": ids.opt_peer(peer_id.as_ref()), "err": listen_error_kind(error)}),
            SwarmEvent::OutgoingConnectionError { connection_id, peer_id, error } => json!({
                "e": "swarmEvent", "kind": "outErr", "id": ids.conn(*connection_id), "peer": ids.opt_peer(peer_id.as_ref()), "err": dial_error_kind(error),
                "addrs": match error { libp2p_swarm::DialError::Transport(v) => v.iter().map(|(a, _)| a.to_string()).collect::<Vec<_>>(), _ => vec![] }}),
            SwarmEvent::NewListenAddr { listener_id, address } => json!({"e": "swarmEvent", "kind": "newListenAddr", "l": ids.listener(*listener_id), "addr": address.to_string()}),
            SwarmEvent::ExpiredListenAddr { listener_id, address } => json!({"e": "swarmEvent", "kind": "expiredListenAddr", "l": ids.listener(*listener_id), "addr": address.to_string()}),
            SwarmEvent::ListenerClosed { listener_id, addresses, reason } => json!({"e": "swarmEvent", "kind": "listenerClosed", "l": ids.listener(*listener_id),
                "addrs": addresses.iter().map(|a| a.to_string()).collect::<Vec<_>>(), "ok": reason.is_ok()}),
            SwarmEvent::ListenerError { listener_id, .. } => json!({"e": "swarmEvent", "kind": "listenerError", "l": ids.listener(*listener_id)}),
            SwarmEvent::Dialing { peer_id, connection_id } => json!({"e": "swarmEvent", "kind": "dialing", "id": ids.conn(*connection_id), "peer": ids.opt_peer(peer_id.as_ref())}),
            SwarmEvent::NewExternalAddrCandidate { address } => json!({"e": "swarmEvent", "kind": "newExternalAddrCandidate", "addr": address.to_string()}),
            SwarmEvent::ExternalAddrConfirmed { address } => json!({"e": "swarmEvent", "kind": "externalAddrConfirmed", "addr": address.to_string()}),
            SwarmEvent::ExternalAddrExpired { address } => json!({"e": "swarmEvent", "kind": "externalAddrExpired", "addr": address.to_string()}),
            SwarmEvent::NewExternalAddrOfPeer { peer_id, address } => json!({"e": "swarmEvent", "kind": "newExternalAddrOfPeer", "peer": ids.peer(peer_id), "addr": address.to_string()}),
            _ => json!({"e": "swarmEvent", "kind": "other"}),
        }
    }

    /// Observable state of the swarm: counters, peer views, address views.
    pub fn snap(&self) -> Value {
        let ni = self.swarm.network_info();
        let c = ni.connection_counters();
        let mut connected: Vec<i64> = self.swarm.connected_peers().map(|p| self.ids.peer(p)).collect();
        connected.sort();
        let isc: Vec<bool> = (0..self.ids.npeers()).map(|i| self.swarm.is_connected(&self.ids.peer_id(i))).collect();
        let listeners: Vec<String> = self.swarm.listeners().map(|a| a.to_string()).collect();
        let external: Vec<String> = self.swarm.external_addresses().map(|a| a.to_string()).collect();
        json!({"e": "snap", "pi": c.num_pending_incoming(), "po": c.num_pending_outgoing(), "ei": c.num_established_incoming(),
            "eo": c.num_established_outgoing(), "pending": c.num_pending(), "established": c.num_established(), "total": c.num_connections(),
            "num_peers": ni.num_peers(), "connected": connected, "is_connected": isc, "listeners": listeners, "external": external,
            "inflight": self.world.dials_in_flight()})
    }
}
