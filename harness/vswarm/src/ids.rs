//! Abstract names: connection ids -> order of first appearance (1, 2, ..), peers -> index in a
//! fixed table (0 = local), listener ids -> order of first appearance.
use std::{
    collections::HashMap,
    sync::{Arc, Mutex},
};

use libp2p_core::transport::ListenerId;
use libp2p_identity::PeerId;
use libp2p_swarm::ConnectionId;
use vcommon::Value;

#[derive(Default)]
struct Inner {
    conns: HashMap<ConnectionId, i64>,
    listeners: HashMap<ListenerId, i64>,
    peers: Vec<PeerId>,
}

#[derive(Clone, Default)]
pub struct Ids(Arc<Mutex<Inner>>);

impl Ids {
    pub fn new(peers: Vec<PeerId>) -> Self {
        let i = Ids::default();
        i.0.lock().unwrap().peers = peers;
        i
    }
    pub fn conn(&self, c: ConnectionId) -> i64 {
        let mut g = self.0.lock().unwrap();
        let n = g.conns.len() as i64 + 1;
        *g.conns.entry(c).or_insert(n)
    }
    pub fn conn_of(&self, abs: i64) -> Option<ConnectionId> {
        let g = self.0.lock().unwrap();
        g.conns.iter().find(|(_, v)| **v == abs).map(|(k, _)| *k)
    }
    pub fn listener(&self, l: ListenerId) -> i64 {
        let mut g = self.0.lock().unwrap();
        let n = g.listeners.len() as i64 + 1;
        *g.listeners.entry(l).or_insert(n)
    }
    pub fn listener_of(&self, abs: i64) -> Option<ListenerId> {
        let g = self.0.lock().unwrap();
        g.listeners.iter().find(|(_, v)| **v == abs).map(|(k, _)| *k)
    }
    /// index of the peer in the table (0 = local), -1 if unknown
    pub fn peer(&self, p: &PeerId) -> i64 {
        let g = self.0.lock().unwrap();
        g.peers.iter().position(|x| x == p).map(|i| i as i64).unwrap_or(-1)
    }
    pub fn opt_peer(&self, p: Option<&PeerId>) -> i64 {
        p.map(|p| self.peer(p)).unwrap_or(-1)
    }
    pub fn peer_id(&self, i: usize) -> PeerId {
        self.0.lock().unwrap().peers[i]
    }
    pub fn npeers(&self) -> usize {
        self.0.lock().unwrap().peers.len()
    }
}

/// Shared, ordered event log (behaviour callbacks, handler callbacks, swarm events, driver
/// commands all go here, in the order they happen).
#[derive(Clone, Default)]
pub struct Log(Arc<Mutex<Vec<Value>>>);

impl Log {
    pub fn push(&self, v: Value) {
        self.0.lock().unwrap().push(v);
    }
    pub fn drain(&self) -> Vec<Value> {
        std::mem::take(&mut *self.0.lock().unwrap())
    }
    pub fn len(&self) -> usize {
        self.0.lock().unwrap().len()
    }
    pub fn is_empty(&self) -> bool {
        self.len() == 0
    }
}
