//! C54: drive the real `libp2p_peer_store::memory_store::MemoryStore` through its public API and constructed
//! `FromSwarm` events; after every operation drain the store's events and snapshot its content.
//!
//! Schedule: {"pc":peer_capacity,"rc":record_capacity,"rm":remove_addr_on_dial_error,"ops":[op..]}
//!   op: {"op":"add"|"remove"|"ext","p":P,"a":A}
//!       {"op":"conn","p":P,"a":A,"f":[A..]}        ConnectionEstablished as dialer (failed addresses f, remote address a)
//!       {"op":"conn_in","p":P,"a":A,"f":[A..]}     ... as listener (must be ignored)
//!       {"op":"dft","p":P,"f":[A..]}               DialFailure(Transport)         {"op":"dft_nopeer","f":[..]}
//!       {"op":"dfw","p":P,"q":Q,"a":A}             DialFailure(WrongPeerId{obtained: Q, address: A})
//!       {"op":"dfo","p":P,"k":0..3}                DialFailure(Aborted | NoAddresses | LocalPeerId | DialPeerConditionFalse)
//! Trace: {"e":"op", <op fields>, "ret":bool (add/remove only), "evs":[[kind,p,a,perm]..], "snap":[[p,[a..]]..]}
use std::{io, num::NonZeroUsize, task::Poll};

use libp2p_core::{transport::TransportError, ConnectedPoint, Endpoint, Multiaddr};
use libp2p_identity::PeerId;
use libp2p_peer_store::{
    memory_store::{Config, Event, MemoryStore},
    Store,
};
use libp2p_swarm::{
    behaviour::{ConnectionEstablished, DialFailure, FromSwarm, NewExternalAddrOfPeer},
    dial_opts::PeerCondition,
    ConnectionId, DialError,
};
use rand::Rng;
use vcommon::{exec::Det, json, Out, Value};

struct World {
    peers: Vec<PeerId>,
    addrs: Vec<Multiaddr>,
}

impl World {
    fn new() -> Self {
        World {
            peers: (0..8).map(|_| PeerId::random()).collect(),
            addrs: (0..16).map(|i| format!("/ip4/10.0.0.{i}/tcp/1000").parse().unwrap()).collect(),
        }
    }
    fn p(&self, v: &Value, k: &str) -> PeerId {
        self.peers[vcommon::n(v, k) as usize]
    }
    fn a(&self, v: &Value, k: &str) -> Multiaddr {
        self.addrs[vcommon::n(v, k) as usize].clone()
    }
    fn list(&self, v: &Value, k: &str) -> Vec<Multiaddr> {
        v[k].as_array().map(|l| l.iter().map(|x| self.addrs[x.as_i64().unwrap() as usize].clone()).collect()).unwrap_or_default()
    }
    fn pi(&self, p: &PeerId) -> i64 {
        self.peers.iter().position(|x| x == p).map(|i| i as i64).unwrap_or(-1)
    }
    fn ai(&self, a: &Multiaddr) -> i64 {
        self.addrs.iter().position(|x| x == a).map(|i| i as i64).unwrap_or(-1)
    }
}

fn run(out: &mut Out, sched: &Value, w: &World) {
    let pc = vcommon::n(sched, "pc") as usize;
    let rc = vcommon::n(sched, "rc") as usize;
    let rm = vcommon::b(sched, "rm");
    let cust = sched["ops"].as_array().map(|o| o.iter().any(|x| x["op"] == "custom" || x["op"] == "take")).unwrap_or(false);
    out.reset_with(json!({"pc": pc, "rc": rc, "rm": rm, "cust": cust}), sched);
    let cfg = Config::default()
        .set_peer_capacity(NonZeroUsize::new(pc).unwrap())
        .set_record_capacity(NonZeroUsize::new(rc).unwrap())
        .set_remove_addr_on_dial_error(rm);
    let mut store: MemoryStore<()> = MemoryStore::new(cfg);
    let det = Det::new();
    for (i, op) in sched["ops"].as_array().unwrap().iter().enumerate() {
        let kind = vcommon::s(op, "op");
        let cid = ConnectionId::new_unchecked(i);
        let r = vcommon::guard(|| -> Value {
            match kind.as_str() {
                "add" => json!(store.add_address(&w.p(op, "p"), &w.a(op, "a"))),
                "remove" => json!(store.remove_address(&w.p(op, "p"), &w.a(op, "a"))),
                "ext" => {
                    let a = w.a(op, "a");
                    store.on_swarm_event(&FromSwarm::NewExternalAddrOfPeer(NewExternalAddrOfPeer { peer_id: w.p(op, "p"), addr: &a }));
                    Value::Null
                }
                "conn" | "conn_in" => {
                    let a = w.a(op, "a");
                    let failed = w.list(op, "f");
                    let ep = if kind == "conn" {
                        ConnectedPoint::Dialer { address: a, role_override: Endpoint::Dialer, port_use: libp2p_core::transport::PortUse::Reuse }
                    } else {
                        ConnectedPoint::Listener { local_addr: "/ip4/10.9.9.9/tcp/1".parse().unwrap(), send_back_addr: a }
                    };
                    store.on_swarm_event(&FromSwarm::ConnectionEstablished(ConnectionEstablished {
                        peer_id: w.p(op, "p"),
                        connection_id: cid,
                        endpoint: &ep,
                        failed_addresses: &failed,
                        other_established: 0,
                    }));
                    Value::Null
                }
                "dft" | "dft_nopeer" => {
                    let errs: Vec<(Multiaddr, TransportError<io::Error>)> =
                        w.list(op, "f").into_iter().map(|a| (a, TransportError::Other(io::Error::other("scripted")))).collect();
                    let e = DialError::Transport(errs);
                    let peer = if kind == "dft" { Some(w.p(op, "p")) } else { None };
                    store.on_swarm_event(&FromSwarm::DialFailure(DialFailure { peer_id: peer, error: &e, connection_id: cid }));
                    Value::Null
                }
                "dfw" => {
                    let e = DialError::WrongPeerId { obtained: w.p(op, "q"), address: w.a(op, "a") };
                    store.on_swarm_event(&FromSwarm::DialFailure(DialFailure { peer_id: Some(w.p(op, "p")), error: &e, connection_id: cid }));
                    Value::Null
                }
                // custom data: may create a record without addresses (and, at capacity, push another peer out)
                "custom" => {
                    store.insert_custom_data(&w.p(op, "p"), ());
                    Value::Null
                }
                "take" => {
                    let _ = store.take_custom_data(&w.p(op, "p"));
                    Value::Null
                }
                "dfo" => {
                    let e = match vcommon::n(op, "k") {
                        0 => DialError::Aborted,
                        1 => DialError::NoAddresses,
                        2 => DialError::LocalPeerId { address: w.addrs[0].clone() },
                        _ => DialError::DialPeerConditionFalse(PeerCondition::Disconnected),
                    };
                    store.on_swarm_event(&FromSwarm::DialFailure(DialFailure { peer_id: Some(w.p(op, "p")), error: &e, connection_id: cid }));
                    Value::Null
                }
                x => panic!("driver: unknown op {x}"),
            }
        });
        let ret = match r {
            Ok(v) => v,
            Err(m) => {
                out.ev(json!({"e": "panic", "msg": m, "op": kind}));
                return;
            }
        };
        // drain events
        let mut evs = vec![];
        loop {
            let mut cx = det.cx();
            match store.poll(&mut cx) {
                Poll::Ready(Event::PeerAddressAdded { peer_id, address, is_permanent }) => {
                    evs.push(json!(["added", w.pi(&peer_id), w.ai(&address), is_permanent]))
                }
                Poll::Ready(Event::PeerAddressRemoved { peer_id, address }) => evs.push(json!(["removed", w.pi(&peer_id), w.ai(&address), false])),
                Poll::Pending => break,
            }
        }
        // snapshot via the public iterators; cross-check with Store::addresses_of_peer
        let mut snap = vec![];
        let mut consistent = true;
        for (p, rec) in store.record_iter() {
            let l: Vec<i64> = rec.addresses().map(|a| w.ai(a)).collect();
            let l2: Option<Vec<i64>> = store.addresses_of_peer(p).map(|it| it.map(|a| w.ai(a)).collect());
            if l2.as_ref() != Some(&l) {
                consistent = false;
            }
            snap.push(json!([w.pi(p), l]));
        }
        let mut ev = op.clone();
        ev["e"] = json!("op");
        if !ret.is_null() {
            ev["ret"] = ret;
        }
        ev["evs"] = json!(evs);
        ev["snap"] = json!(snap);
        ev["consistent"] = json!(consistent);
        ev["nrec"] = json!(store.record_iter().count());
        out.ev(ev);
    }
}

fn gen_op(rng: &mut impl Rng, np: i64, na: i64) -> Value {
    let p = rng.gen_range(0..np);
    let a = rng.gen_range(0..na);
    let fl = |rng: &mut dyn rand::RngCore| -> Vec<i64> {
        let n = rng.gen_range(0..=3);
        let mut v: Vec<i64> = vec![];
        for _ in 0..n {
            let x = rng.gen_range(0..na);
            if !v.contains(&x) {
                v.push(x);
            }
        }
        v
    };
    match rng.gen_range(0..100) {
        0..=24 => json!({"op": "add", "p": p, "a": a}),
        25..=36 => json!({"op": "remove", "p": p, "a": a}),
        37..=54 => json!({"op": "ext", "p": p, "a": a}),
        55..=68 => json!({"op": "conn", "p": p, "a": a, "f": fl(rng)}),
        69..=71 => json!({"op": "conn_in", "p": p, "a": a, "f": fl(rng)}),
        72..=86 => json!({"op": "dft", "p": p, "f": fl(rng)}),
        87..=88 => json!({"op": "dft_nopeer", "f": fl(rng)}),
        89..=96 => {
            let mut q = rng.gen_range(0..np);
            if q == p {
                q = (q + 1) % np;
            }
            json!({"op": "dfw", "p": p, "q": q, "a": a})
        }
        _ => json!({"op": "dfo", "p": p, "k": rng.gen_range(0..4)}),
    }
}

fn main() {
    let a = vcommon::Args::parse();
    vcommon::quiet_panics();
    let w = World::new();
    match a.mode.as_str() {
        "replay" => {
            let scheds = vcommon::read_schedules(a.get(0));
            let mut out = Out::create(a.get(1));
            for s in &scheds {
                run(&mut out, s, &w);
            }
            println!("runs={} events={}", out.run, out.events);
            out.finish();
        }
        // every op sequence of length n over 2 peers x 2 addresses (+ a third peer for wrong-peer), capacities 1..2
        "exhaustive" => {
            let n = a.num(0) as usize;
            let mut out = Out::create(a.get(1));
            let mut al: Vec<Value> = vec![];
            for p in 0..2 {
                for x in 0..2 {
                    al.push(json!({"op": "add", "p": p, "a": x}));
                    al.push(json!({"op": "remove", "p": p, "a": x}));
                    al.push(json!({"op": "ext", "p": p, "a": x}));
                    al.push(json!({"op": "conn", "p": p, "a": x, "f": [1 - x]}));
                    al.push(json!({"op": "dft", "p": p, "f": [x]}));
                    al.push(json!({"op": "dfw", "p": p, "q": 2, "a": x}));
                }
                al.push(json!({"op": "dft", "p": p, "f": [0, 1]}));
            }
            let k = al.len();
            for (pc, rc, rm) in [(1, 1, true), (2, 1, true), (1, 2, true), (2, 2, true), (2, 2, false)] {
                let mut idx = vec![0usize; n];
                loop {
                    let ops: Vec<Value> = idx.iter().map(|&i| al[i].clone()).collect();
                    run(&mut out, &json!({"pc": pc, "rc": rc, "rm": rm, "ops": ops}), &w);
                    let mut j = 0;
                    while j < n {
                        idx[j] += 1;
                        if idx[j] < k {
                            break;
                        }
                        idx[j] = 0;
                        j += 1;
                    }
                    if j == n {
                        break;
                    }
                }
            }
            println!("runs={} events={}", out.run, out.events);
            out.finish();
        }
        // every op sequence of length n over ONE peer x 2 addresses (13 letters): deeper than `exhaustive`
        "exhaustive1" => {
            let n = a.num(0) as usize;
            let mut out = Out::create(a.get(1));
            let mut al: Vec<Value> = vec![];
            for x in 0..2 {
                al.push(json!({"op": "add", "p": 0, "a": x}));
                al.push(json!({"op": "remove", "p": 0, "a": x}));
                al.push(json!({"op": "ext", "p": 0, "a": x}));
                al.push(json!({"op": "conn", "p": 0, "a": x, "f": [1 - x]}));
                al.push(json!({"op": "dft", "p": 0, "f": [x]}));
                al.push(json!({"op": "dfw", "p": 0, "q": 2, "a": x}));
            }
            al.push(json!({"op": "dft", "p": 0, "f": [0, 1]}));
            let k = al.len();
            for (pc, rc, rm) in [(2, 2, true), (1, 1, true)] {
                let mut idx = vec![0usize; n];
                loop {
                    let ops: Vec<Value> = idx.iter().map(|&i| al[i].clone()).collect();
                    run(&mut out, &json!({"pc": pc, "rc": rc, "rm": rm, "ops": ops}), &w);
                    let mut j = 0;
                    while j < n {
                        idx[j] += 1;
                        if idx[j] < k {
                            break;
                        }
                        idx[j] = 0;
                        j += 1;
                    }
                    if j == n {
                        break;
                    }
                }
            }
            println!("runs={} events={}", out.run, out.events);
            out.finish();
        }
        "random" => {
            let seed = a.num(0);
            let runs = a.num(1);
            let mut out = Out::create(a.get(2));
            let mut rng = vcommon::rng(seed);
            for _ in 0..runs {
                let pc = rng.gen_range(1..=4);
                let rc = rng.gen_range(1..=4);
                let rm = rng.gen_bool(0.85);
                let np = rng.gen_range(2..=6);
                let na = rng.gen_range(2..=7);
                let len = rng.gen_range(5..=40);
                let cust = rng.gen_bool(0.25);
                let ops: Vec<Value> = (0..len)
                    .map(|_| {
                        if cust && rng.gen_bool(0.12) {
                            json!({"op": if rng.gen_bool(0.7) { "custom" } else { "take" }, "p": rng.gen_range(0..np)})
                        } else {
                            gen_op(&mut rng, np, na)
                        }
                    })
                    .collect();
                run(&mut out, &json!({"pc": pc, "rc": rc, "rm": rm, "ops": ops}), &w);
            }
            println!("runs={} events={}", out.run, out.events);
            out.finish();
        }
        m => {
            eprintln!("unknown mode {m}");
            std::process::exit(2)
        }
    }
}
