//! Driver for the floodsub extension component:
//!   net  (X07)  a network of 2-5 REAL `floodsub::Behaviour`s wired by the driver (no Swarm)
mod net;

fn main() {
    let a = vcommon::Args::parse();
    match a.mode.as_str() {
        "net" => net::main(&a),
        m => {
            eprintln!("unknown mode {m}");
            std::process::exit(2)
        }
    }
}
