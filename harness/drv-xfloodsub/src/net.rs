//! X07: a network of 2-5 REAL `floodsub::Behaviour`s. The driver is the network: after every operation it
//! drains every node's `poll()`; each `ToSwarm::NotifyHandler { peer_id, event: FloodsubRpc }` is appended to the
//! directed link (node -> peer), and the schedule decides which RPC of which link is delivered next. A delivery
//! runs the RPC through the REAL wire codec (`FloodsubRpc::upgrade_outbound` -> scripted pipe ->
//! `FloodsubProtocol::upgrade_inbound`) and hands the decoded RPC to the receiver's
//! `on_connection_handler_event` exactly as its `OneShotHandler` would. Every RPC floodsub sends is a separate
//! substream, so the network may reorder RPCs of one link (`fifo = false`).
//!
//! Schedule: {"n":N,"t":T,"slm":[bool;N],"fifo":bool,"ops":[op..]}; op = {"a":name, ..}:
//!   conn x y | disc x y | view x y | unview x y | sub x t | unsub x t | pub x ts any | dlv x y i | inj x y ts like | injraw x y t
//!   flush  (deliver head-of-line RPCs round-robin until every link is empty)
//! Events (one per op, `e` = op name) carry what the op caused at ANY node:
//!   snd   [{"f":from,"t":to,"s":[[topic,1|0]..],"m":[k..]}..]   RPCs queued, in queue order
//!   evs   [[node,0,k,0] | [node,1,peer,topic] | [node,2,peer,topic] ..]   Message / Subscribed / Unsubscribed
//!   dials [[node,peer]..]     ToSwarm::Dial requests
//!   stray n                   anything else (RPC for a peer without connection, CloseConnection, ..)
//! Messages are numbered k = 0,1,.. by the driver (payload "m<k>"); the 20 random seqno bytes stay opaque.
use std::{
    collections::{BTreeMap, HashMap, VecDeque},
    task::Poll,
};

use libp2p_core::{transport::PortUse, ConnectedPoint, Endpoint, InboundUpgrade, Multiaddr, OutboundUpgrade, UpgradeInfo};
use libp2p_floodsub::{
    protocol::{FloodsubProtocol, FloodsubSubscription, FloodsubSubscriptionAction},
    Behaviour, Config, Event, FloodsubMessage, FloodsubRpc, Topic,
};
use libp2p_identity::PeerId;
use libp2p_swarm::{
    behaviour::{ConnectionClosed, ConnectionEstablished, FromSwarm},
    ConnectionId, NetworkBehaviour, ToSwarm,
};
use rand::{seq::SliceRandom, Rng};
use vcommon::{exec::Det, json, pipe::pipe, Out, Value};

fn peer(i: usize) -> PeerId {
    PeerId::from_bytes(&[0x00, 0x04, b'f', b's', 0, i as u8]).expect("identity multihash peer id")
}

struct Node {
    fs: Behaviour,
    id: PeerId,
    /// peer -> established connection ids
    conns: BTreeMap<usize, Vec<usize>>,
    next_conn: usize,
}

struct Net {
    nodes: Vec<Node>,
    links: BTreeMap<(usize, usize), VecDeque<FloodsubRpc>>,
    topics: Vec<Topic>,
    nextk: i64,
    /// first instance of every message the driver has seen (for forged look-alikes)
    msgs: HashMap<i64, FloodsubMessage>,
    fifo: bool,
}

fn payload_k(data: &[u8]) -> i64 {
    std::str::from_utf8(data).ok().and_then(|s| s.strip_prefix('m')).and_then(|s| s.parse().ok()).unwrap_or(-1)
}

#[derive(Default)]
struct Fx {
    snd: Vec<Value>,
    evs: Vec<Value>,
    dials: Vec<Value>,
    stray: u64,
}

impl Fx {
    fn put(self, ev: &mut Value) {
        ev["snd"] = json!(self.snd);
        ev["evs"] = json!(self.evs);
        ev["dials"] = json!(self.dials);
        ev["stray"] = json!(self.stray);
    }
}

/// One RPC over the real wire codec.
fn wire(rpc: FloodsubRpc) -> Result<FloodsubRpc, String> {
    let (a, b, _ctl) = pipe(true);
    let info = rpc.protocol_info().next().expect("one protocol name");
    let mut out = rpc.upgrade_outbound(a, info.clone());
    let mut inp = FloodsubProtocol::new().upgrade_inbound(b, info);
    let det = Det::new();
    let mut out_done = false;
    for _ in 0..10_000 {
        if !out_done {
            if let Poll::Ready(r) = det.poll(out.as_mut()) {
                r.map_err(|e| format!("encode: {e}"))?;
                out_done = true;
            }
        }
        if let Poll::Ready(r) = det.poll(inp.as_mut()) {
            return r.map_err(|e| format!("decode: {e}"));
        }
    }
    Err("codec stalled".into())
}

/// Raw bytes through the real inbound upgrade.
fn decode_raw(bytes: &[u8]) -> Result<FloodsubRpc, String> {
    use futures::AsyncWriteExt;
    let (mut a, b, _ctl) = pipe(true);
    let det = Det::new();
    let info = FloodsubProtocol::new().protocol_info().next().expect("one protocol name");
    {
        let mut w = Box::pin(async {
            a.write_all(bytes).await?;
            a.close().await
        });
        det.run_until_stalled(w.as_mut(), 1000).ok_or("write stalled")?.map_err(|e| e.to_string())?;
    }
    let mut inp = FloodsubProtocol::new().upgrade_inbound(b, info);
    match det.run_until_stalled(inp.as_mut(), 1000) {
        Some(r) => r.map_err(|e| format!("decode: {e}")),
        None => Err("decode stalled".into()),
    }
}

impl Net {
    fn new(n: usize, t: usize, slm: &[bool], fifo: bool) -> Net {
        let nodes = (0..n)
            .map(|i| {
                let mut cfg = Config::new(peer(i));
                cfg.subscribe_local_messages = slm.get(i).copied().unwrap_or(false);
                Node { fs: Behaviour::from_config(cfg), id: peer(i), conns: BTreeMap::new(), next_conn: 1 }
            })
            .collect();
        Net { nodes, links: BTreeMap::new(), topics: (0..t).map(|i| Topic::new(format!("t{i}"))).collect(), nextk: 0, msgs: HashMap::new(), fifo }
    }

    fn node_of(&self, p: &PeerId) -> i64 {
        self.nodes.iter().position(|n| &n.id == p).map(|i| i as i64).unwrap_or(-1)
    }
    fn topic_of(&self, t: &Topic) -> i64 {
        self.topics.iter().position(|x| x == t).map(|i| i as i64).unwrap_or(-1)
    }
    fn connected(&self, a: usize, b: usize) -> bool {
        self.nodes[a].conns.get(&b).is_some_and(|v| !v.is_empty())
    }
    fn rpc_json(&mut self, f: usize, t: usize, rpc: &FloodsubRpc) -> Value {
        let s: Vec<Value> = rpc
            .subscriptions
            .iter()
            .map(|s| json!([self.topic_of(&s.topic), if s.action == FloodsubSubscriptionAction::Subscribe { 1 } else { 0 }]))
            .collect();
        let mut m = vec![];
        for msg in &rpc.messages {
            let k = payload_k(&msg.data);
            self.msgs.entry(k).or_insert_with(|| msg.clone());
            m.push(k);
        }
        json!({"f": f, "t": t, "s": s, "m": m})
    }

    /// Drain every node's behaviour; RPCs go onto the links.
    fn drain(&mut self) -> Fx {
        let det = Det::new();
        let mut fx = Fx::default();
        for n in 0..self.nodes.len() {
            for _ in 0..100_000 {
                let mut cx = det.cx();
                match self.nodes[n].fs.poll(&mut cx) {
                    Poll::Pending => break,
                    Poll::Ready(ToSwarm::GenerateEvent(Event::Message(m))) => fx.evs.push(json!([n, 0, payload_k(&m.data), 0])),
                    Poll::Ready(ToSwarm::GenerateEvent(Event::Subscribed { peer_id, topic })) => {
                        fx.evs.push(json!([n, 1, self.node_of(&peer_id), self.topic_of(&topic)]))
                    }
                    Poll::Ready(ToSwarm::GenerateEvent(Event::Unsubscribed { peer_id, topic })) => {
                        fx.evs.push(json!([n, 2, self.node_of(&peer_id), self.topic_of(&topic)]))
                    }
                    Poll::Ready(ToSwarm::NotifyHandler { peer_id, event, .. }) => {
                        let to = self.node_of(&peer_id);
                        if to >= 0 && self.connected(n, to as usize) {
                            let j = self.rpc_json(n, to as usize, &event);
                            fx.snd.push(j);
                            self.links.entry((n, to as usize)).or_default().push_back(event);
                        } else {
                            fx.stray += 1;
                        }
                    }
                    Poll::Ready(ToSwarm::Dial { opts }) => fx.dials.push(json!([n, opts.get_peer_id().map(|p| self.node_of(&p)).unwrap_or(-1)])),
                    Poll::Ready(_) => fx.stray += 1,
                }
            }
        }
        fx
    }

    fn connect(&mut self, a: usize, b: usize) {
        for (x, y, out) in [(a, b, true), (b, a, false)] {
            let peer = self.nodes[y].id;
            let node = &mut self.nodes[x];
            let c = node.next_conn;
            node.next_conn += 1;
            let cid = ConnectionId::new_unchecked(c);
            let addr: Multiaddr = format!("/memory/{}", 1000 + y).parse().unwrap();
            let local: Multiaddr = "/memory/1".parse().unwrap();
            let ep = if out {
                ConnectedPoint::Dialer { address: addr.clone(), role_override: Endpoint::Dialer, port_use: PortUse::Reuse }
            } else {
                ConnectedPoint::Listener { local_addr: local.clone(), send_back_addr: addr.clone() }
            };
            let _handler = if out {
                node.fs.handle_established_outbound_connection(cid, peer, &addr, Endpoint::Dialer, PortUse::Reuse)
            } else {
                node.fs.handle_established_inbound_connection(cid, peer, &local, &addr)
            }
            .expect("floodsub accepts every connection");
            let other = node.conns.get(&y).map_or(0, |v| v.len());
            node.fs.on_swarm_event(FromSwarm::ConnectionEstablished(ConnectionEstablished {
                peer_id: peer,
                connection_id: cid,
                endpoint: &ep,
                failed_addresses: &[],
                other_established: other,
            }));
            node.conns.entry(y).or_default().push(c);
        }
    }

    fn disconnect(&mut self, a: usize, b: usize) -> bool {
        if !self.connected(a, b) {
            return false;
        }
        for (x, y) in [(a, b), (b, a)] {
            let peer = self.nodes[y].id;
            let node = &mut self.nodes[x];
            let c = node.conns.get_mut(&y).and_then(|v| v.pop()).expect("connected");
            let remaining = node.conns[&y].len();
            let addr: Multiaddr = format!("/memory/{}", 1000 + y).parse().unwrap();
            let ep = ConnectedPoint::Dialer { address: addr, role_override: Endpoint::Dialer, port_use: PortUse::Reuse };
            node.fs.on_swarm_event(FromSwarm::ConnectionClosed(ConnectionClosed {
                peer_id: peer,
                connection_id: ConnectionId::new_unchecked(c),
                endpoint: &ep,
                cause: None,
                remaining_established: remaining,
            }));
        }
        if !self.connected(a, b) {
            self.links.remove(&(a, b));
            self.links.remove(&(b, a));
        }
        true
    }

    /// Deliver the i-th RPC in flight on x -> y.
    fn deliver(&mut self, x: usize, y: usize, i: usize) -> Value {
        let Some(rpc) = self.links.get_mut(&(x, y)).and_then(|q| q.remove(i)) else {
            return json!({"e": "skip", "why": "no such rpc"});
        };
        let mut ev = json!({"e": "dlv", "x": x, "y": y, "i": i});
        match wire(rpc) {
            Ok(dec) => {
                ev["rpc"] = self.rpc_json(x, y, &dec);
                let from = self.nodes[x].id;
                let cid = ConnectionId::new_unchecked(*self.nodes[y].conns[&x].last().expect("connected"));
                self.nodes[y].fs.on_connection_handler_event(from, cid, Ok(dec.into()));
            }
            Err(e) => ev["codec"] = json!(e),
        }
        self.drain().put(&mut ev);
        ev
    }

    fn step(&mut self, op: &Value) -> Vec<Value> {
        let a = vcommon::s(op, "a");
        let x = op.get("x").and_then(|v| v.as_u64()).unwrap_or(0) as usize;
        let y = op.get("y").and_then(|v| v.as_u64()).unwrap_or(0) as usize;
        let t = op.get("t").and_then(|v| v.as_u64()).unwrap_or(0) as usize;
        let n = self.nodes.len();
        if x >= n || y >= n || t >= self.topics.len() {
            return vec![json!({"e": "skip", "why": "index out of range"})];
        }
        let mut ev = match a.as_str() {
            "conn" => {
                if x == y || self.nodes[x].conns.get(&y).map_or(0, |v| v.len()) >= 2 {
                    return vec![json!({"e": "skip", "why": "conn"})];
                }
                self.connect(x, y);
                json!({"e": "conn", "x": x, "y": y})
            }
            "disc" => {
                if !self.disconnect(x, y) {
                    return vec![json!({"e": "skip", "why": "disc"})];
                }
                json!({"e": "disc", "x": x, "y": y})
            }
            "view" => {
                let p = self.nodes[y].id;
                self.nodes[x].fs.add_node_to_partial_view(p);
                json!({"e": "view", "x": x, "y": y})
            }
            "unview" => {
                let p = self.nodes[y].id;
                self.nodes[x].fs.remove_node_from_partial_view(&p);
                json!({"e": "unview", "x": x, "y": y})
            }
            "sub" => {
                let r = self.nodes[x].fs.subscribe(self.topics[t].clone());
                json!({"e": "sub", "x": x, "t": t, "res": r})
            }
            "unsub" => {
                let r = self.nodes[x].fs.unsubscribe(self.topics[t].clone());
                json!({"e": "unsub", "x": x, "t": t, "res": r})
            }
            "pub" => {
                let ts: Vec<usize> = op["ts"].as_array().map(|v| v.iter().filter_map(|z| z.as_u64()).map(|z| z as usize).filter(|z| *z < self.topics.len()).collect()).unwrap_or_default();
                let any = op.get("any").and_then(|v| v.as_bool()).unwrap_or(false);
                let k = self.nextk;
                self.nextk += 1;
                let tops: Vec<Topic> = ts.iter().map(|i| self.topics[*i].clone()).collect();
                let data = format!("m{k}").into_bytes();
                if any {
                    self.nodes[x].fs.publish_many_any(tops, data);
                } else {
                    self.nodes[x].fs.publish_many(tops, data);
                }
                json!({"e": "pub", "x": x, "k": k, "ts": ts, "any": any})
            }
            "dlv" => {
                let i = op.get("i").and_then(|v| v.as_u64()).unwrap_or(0) as usize;
                return vec![self.deliver(x, y, if self.fifo { 0 } else { i })];
            }
            // a forged RPC appears on the link x -> y: one fresh message (optionally with the source and sequence
            // number of message `like`, but different data)
            "inj" => {
                if !self.connected(x, y) {
                    return vec![json!({"e": "skip", "why": "inj"})];
                }
                let ts: Vec<usize> = op["ts"].as_array().map(|v| v.iter().filter_map(|z| z.as_u64()).map(|z| z as usize).filter(|z| *z < self.topics.len()).collect()).unwrap_or_default();
                let like = op.get("like").and_then(|v| v.as_i64()).unwrap_or(-1);
                let cnt = op.get("cnt").and_then(|v| v.as_i64()).unwrap_or(1).clamp(1, 3);
                let mut ks = vec![];
                let mut messages = vec![];
                let mut src = -1;
                for c in 0..cnt {
                    let k = self.nextk;
                    self.nextk += 1;
                    // only the first message of the RPC is the look-alike
                    let (source, seq) = match self.msgs.get(&like).filter(|_| c == 0) {
                        Some(m) => (m.source, m.sequence_number.clone()),
                        None => (peer(200), vec![k as u8; 20]),
                    };
                    let msg = FloodsubMessage { source, data: format!("m{k}").into_bytes().into(), sequence_number: seq, topics: ts.iter().map(|i| self.topics[*i].clone()).collect() };
                    self.msgs.insert(k, msg.clone());
                    if c == 0 {
                        src = self.node_of(&source);
                    }
                    ks.push(k);
                    messages.push(msg);
                }
                self.links.entry((x, y)).or_default().push_back(FloodsubRpc { messages, subscriptions: Vec::<FloodsubSubscription>::new() });
                json!({"e": "inj", "x": x, "y": y, "ks": ks, "ts": ts, "src": src, "like": like})
            }
            // a foreign implementation's announcement that omits the optional `subscribe` flag (protobuf default:
            // false = unsubscribe) arrives on x -> y: hand-made wire bytes through the real decoder
            "injraw" => {
                if !self.connected(x, y) {
                    return vec![json!({"e": "skip", "why": "injraw"})];
                }
                let name = format!("t{t}").into_bytes();
                let mut sub = vec![0x12, name.len() as u8];
                sub.extend(&name);
                let mut rpc = vec![0x0a, sub.len() as u8];
                rpc.extend(&sub);
                let mut frame = vec![rpc.len() as u8];
                frame.extend(&rpc);
                let mut ev = json!({"e": "injraw", "x": x, "y": y, "t": t});
                match decode_raw(&frame) {
                    Ok(dec) => {
                        let j = self.rpc_json(x, y, &dec);
                        ev["dec"] = j["s"].clone();
                        ev["nm"] = json!(dec.messages.len());
                        self.links.entry((x, y)).or_default().push_back(dec);
                    }
                    Err(e) => ev["codec"] = json!(e),
                }
                ev
            }
            "flush" => {
                let mut out = vec![];
                for _ in 0..20_000 {
                    let Some((&(a, b), _)) = self.links.iter().find(|(_, q)| !q.is_empty()) else { break };
                    out.push(self.deliver(a, b, 0));
                }
                let quiet = self.links.values().all(|q| q.is_empty());
                out.push(json!({"e": "end", "quiet": quiet}));
                return out;
            }
            _ => return vec![json!({"e": "skip", "why": "unknown op"})],
        };
        self.drain().put(&mut ev);
        vec![ev]
    }
}

fn cfg_of(s: &Value) -> (usize, usize, Vec<bool>, bool) {
    let n = (vcommon::n(s, "n") as usize).clamp(2, 5);
    let t = (vcommon::n(s, "t") as usize).clamp(1, 3);
    let slm: Vec<bool> = s["slm"].as_array().map(|v| v.iter().map(|b| b.as_bool().unwrap_or(false)).collect()).unwrap_or_default();
    let fifo = s.get("fifo").and_then(|v| v.as_bool()).unwrap_or(true);
    (n, t, slm, fifo)
}

/// Run a fixed schedule.
fn run_fixed(out: &mut Out, sched: &Value) {
    let (n, t, slm, fifo) = cfg_of(sched);
    out.reset_with(json!({"n": n, "t": t, "slm": slm, "fifo": fifo}), sched);
    let r = vcommon::guard(|| {
        let mut net = Net::new(n, t, &slm, fifo);
        let mut evs = vec![];
        for op in sched["ops"].as_array().cloned().unwrap_or_default() {
            match vcommon::guard(|| net.step(&op)) {
                Ok(v) => evs.extend(v),
                Err(m) => {
                    evs.push(json!({"e": "panic", "msg": m, "op": op}));
                    break;
                }
            }
        }
        evs
    });
    match r {
        Ok(evs) => evs.into_iter().for_each(|e| out.ev(e)),
        Err(m) => out.ev(json!({"e": "panic", "msg": m})),
    }
}

/// Generate a schedule online (ops chosen from the current network state), then run it as a fixed schedule
/// would: the generator itself executes on a scratch network only to know which links are busy.
fn gen_random(rng: &mut rand::rngs::StdRng) -> Value {
    let n = rng.gen_range(2..=5usize);
    let t = rng.gen_range(1..=3usize);
    let slm: Vec<bool> = (0..n).map(|_| rng.gen_bool(0.4)).collect();
    let fifo = rng.gen_bool(0.6);
    let mut net = Net::new(n, t, &slm, fifo);
    let mut ops: Vec<Value> = vec![];
    let len = rng.gen_range(8..=60);
    let dense = rng.gen_bool(0.6);
    // topology prefix: connections and (mostly symmetric) partial views
    if dense {
        for a in 0..n {
            for b in a + 1..n {
                if rng.gen_bool(0.7) {
                    let mut pre = vec![json!({"a": "conn", "x": a, "y": b})];
                    if rng.gen_bool(0.85) {
                        pre.push(json!({"a": "view", "x": a, "y": b}));
                    }
                    if rng.gen_bool(0.85) {
                        pre.push(json!({"a": "view", "x": b, "y": a}));
                    }
                    pre.shuffle(rng);
                    ops.extend(pre);
                }
            }
        }
    }
    for op in &ops {
        if vcommon::guard(|| net.step(op)).is_err() {
            return json!({"n": n, "t": t, "slm": slm, "fifo": fifo, "ops": ops});
        }
    }
    let mut guard = 0;
    while ops.len() < len + 12 && guard < 1000 {
        guard += 1;
        let x = rng.gen_range(0..n);
        let mut y = rng.gen_range(0..n);
        if y == x {
            y = (x + 1) % n;
        }
        let tt = rng.gen_range(0..t);
        let busy: Vec<(usize, usize, usize)> = net.links.iter().filter(|(_, q)| !q.is_empty()).map(|(&(a, b), q)| (a, b, q.len())).collect();
        let ts_of = |rng: &mut rand::rngs::StdRng| -> Vec<usize> {
            let mut v: Vec<usize> = (0..t).filter(|_| rng.gen_bool(0.5)).collect();
            if v.is_empty() && rng.gen_bool(0.9) {
                v.push(rng.gen_range(0..t));
            }
            v
        };
        let op = match rng.gen_range(0..100) {
            0..=7 => json!({"a": "conn", "x": x, "y": y}),
            8..=15 => json!({"a": "view", "x": x, "y": y}),
            16..=27 => json!({"a": "sub", "x": x, "t": tt}),
            28..=32 => json!({"a": "unsub", "x": x, "t": tt}),
            33..=49 => json!({"a": "pub", "x": x, "ts": ts_of(rng), "any": rng.gen_bool(0.35)}),
            50..=52 => json!({"a": "disc", "x": x, "y": y}),
            53..=54 => json!({"a": "unview", "x": x, "y": y}),
            55 => json!({"a": "injraw", "x": x, "y": y, "t": tt}),
            56..=57 => json!({"a": "inj", "x": x, "y": y, "ts": ts_of(rng), "cnt": rng.gen_range(1..=3), "like": if rng.gen_bool(0.5) && net.nextk > 0 { rng.gen_range(0..net.nextk) } else { -1 }}),
            _ => {
                if let Some(&(a, b, l)) = busy.choose(rng) {
                    json!({"a": "dlv", "x": a, "y": b, "i": if fifo || rng.gen_bool(0.5) { 0 } else { rng.gen_range(0..l) }})
                } else {
                    continue;
                }
            }
        };
        // a panic of the code under test while generating: keep the op, the real run records the panic as data
        let evs = match vcommon::guard(|| net.step(&op)) {
            Ok(e) => e,
            Err(_) => {
                ops.push(op);
                break;
            }
        };
        if evs.iter().any(|e| e["e"] == "skip") {
            continue;
        }
        ops.push(op);
    }
    ops.push(json!({"a": "flush"}));
    json!({"n": n, "t": t, "slm": slm, "fifo": fifo, "ops": ops})
}

/// Hand-written scenarios around the statements (each also appears with the flags flipped).
fn directed() -> Vec<Value> {
    let mut v = vec![];
    let tri = |extra: Vec<Value>, slm: bool, fifo: bool| -> Value {
        let mut ops = vec![];
        for (a, b) in [(0, 1), (1, 2), (0, 2)] {
            ops.push(json!({"a": "conn", "x": a, "y": b}));
            ops.push(json!({"a": "view", "x": a, "y": b}));
            ops.push(json!({"a": "view", "x": b, "y": a}));
        }
        ops.extend(extra);
        ops.push(json!({"a": "flush"}));
        json!({"n": 3, "t": 2, "slm": [slm, slm, slm], "fifo": fifo, "ops": ops})
    };
    for slm in [false, true] {
        // everybody subscribed, one message floods a triangle (duplicates meet on every link)
        v.push(tri(vec![json!({"a":"sub","x":0,"t":0}), json!({"a":"sub","x":1,"t":0}), json!({"a":"sub","x":2,"t":0}), json!({"a":"flush"}), json!({"a":"pub","x":0,"ts":[0],"any":false})], slm, true));
        // subscribe twice / unsubscribe twice
        v.push(tri(vec![json!({"a":"sub","x":0,"t":0}), json!({"a":"sub","x":0,"t":0}), json!({"a":"unsub","x":0,"t":0}), json!({"a":"unsub","x":0,"t":0}), json!({"a":"unsub","x":1,"t":1})], slm, true));
        // publish without being subscribed: publish() is a no-op, publish_any() floods
        v.push(tri(vec![json!({"a":"sub","x":1,"t":0}), json!({"a":"sub","x":2,"t":0}), json!({"a":"flush"}), json!({"a":"pub","x":0,"ts":[0],"any":false}), json!({"a":"pub","x":0,"ts":[0],"any":true})], slm, true));
        // multi-topic message, receivers subscribed to different topics
        v.push(tri(vec![json!({"a":"sub","x":0,"t":0}), json!({"a":"sub","x":1,"t":1}), json!({"a":"sub","x":2,"t":0}), json!({"a":"sub","x":2,"t":1}), json!({"a":"flush"}), json!({"a":"pub","x":0,"ts":[0,1],"any":false}), json!({"a":"pub","x":1,"ts":[0],"any":true})], slm, true));
        // the publisher was not subscribed when it published, subscribes while the message is in flight, and a
        // neighbour that learns of the subscription first sends the message back (RPC reordering on 0 -> 2)
        v.push(tri(vec![json!({"a":"sub","x":1,"t":0}), json!({"a":"sub","x":2,"t":0}), json!({"a":"flush"}),
                        json!({"a":"pub","x":0,"ts":[0],"any":true}), json!({"a":"sub","x":0,"t":0}),
                        json!({"a":"dlv","x":0,"y":2,"i":1}), json!({"a":"dlv","x":0,"y":1,"i":0}), json!({"a":"dlv","x":1,"y":2,"i":0})], slm, false));
        // same idea without reordering: node 2 is connected to the publisher but not in its partial view
        v.push(json!({"n": 3, "t": 1, "slm": [slm, slm, slm], "fifo": true, "ops": [
            {"a":"conn","x":0,"y":1},{"a":"view","x":0,"y":1},{"a":"view","x":1,"y":0},
            {"a":"conn","x":1,"y":2},{"a":"view","x":1,"y":2},{"a":"view","x":2,"y":1},
            {"a":"conn","x":0,"y":2},{"a":"view","x":2,"y":0},
            {"a":"sub","x":1,"t":0},{"a":"sub","x":2,"t":0},{"a":"flush"},
            {"a":"pub","x":0,"ts":[0],"any":true},{"a":"sub","x":0,"t":0},
            {"a":"dlv","x":0,"y":2,"i":0},{"a":"flush"}]}));
        // late partial view: subscriptions announced when the node is added, twice
        v.push(json!({"n": 2, "t": 2, "slm": [slm, slm], "fifo": true, "ops": [
            {"a":"conn","x":0,"y":1},{"a":"sub","x":0,"t":0},{"a":"view","x":0,"y":1},{"a":"view","x":0,"y":1},{"a":"sub","x":0,"t":1},{"a":"flush"},
            {"a":"sub","x":1,"t":0},{"a":"view","x":1,"y":0},{"a":"flush"},{"a":"pub","x":1,"ts":[0],"any":false},{"a":"pub","x":0,"ts":[0,1],"any":false}]}));
        // reconnect: a second connection, closing one keeps the peer, closing both forgets its topics
        v.push(json!({"n": 2, "t": 1, "slm": [slm, slm], "fifo": true, "ops": [
            {"a":"view","x":0,"y":1},{"a":"view","x":1,"y":0},{"a":"sub","x":0,"t":0},{"a":"sub","x":1,"t":0},
            {"a":"conn","x":0,"y":1},{"a":"conn","x":1,"y":0},{"a":"flush"},{"a":"disc","x":0,"y":1},{"a":"pub","x":0,"ts":[0],"any":false},{"a":"flush"},
            {"a":"disc","x":0,"y":1},{"a":"pub","x":0,"ts":[0],"any":false},{"a":"conn","x":0,"y":1},{"a":"pub","x":0,"ts":[0],"any":false},{"a":"flush"},{"a":"pub","x":1,"ts":[0],"any":false}]}));
        // an announcement without the optional subscribe flag means unsubscribe
        v.push(json!({"n": 2, "t": 2, "slm": [slm, slm], "fifo": true, "ops": [
            {"a":"conn","x":0,"y":1},{"a":"view","x":0,"y":1},{"a":"view","x":1,"y":0},{"a":"sub","x":0,"t":0},{"a":"sub","x":1,"t":0},{"a":"sub","x":1,"t":1},{"a":"flush"},
            {"a":"injraw","x":1,"y":0,"t":0},{"a":"flush"},{"a":"pub","x":0,"ts":[0],"any":false},{"a":"pub","x":0,"ts":[0,1],"any":true},{"a":"flush"}]}));
        // forged look-alike (same source and sequence number, other data) and a message from an unknown source
        v.push(tri(vec![json!({"a":"sub","x":0,"t":0}), json!({"a":"sub","x":1,"t":0}), json!({"a":"sub","x":2,"t":0}), json!({"a":"flush"}),
                        json!({"a":"pub","x":0,"ts":[0],"any":false}), json!({"a":"flush"}), json!({"a":"inj","x":1,"y":2,"ts":[0],"like":0}), json!({"a":"inj","x":1,"y":0,"ts":[0],"like":0}), json!({"a":"inj","x":2,"y":0,"ts":[0,1],"like":-1}), json!({"a":"flush"}), json!({"a":"inj","x":0,"y":1,"ts":[0],"like":-1,"cnt":3}), json!({"a":"inj","x":2,"y":1,"ts":[0],"like":0,"cnt":2})], slm, true));
    }
    v
}

/// Bounded-exhaustive: every op sequence of length `depth` that is enabled in the state it reaches, on a triangle
/// of three nodes (one topic). `variant` bit 0: nodes 1 and 2 are subscribed and announced beforehand;
/// bit 1: node 2 is missing from node 0's partial view; bit 2: links may reorder (deliver the 2nd RPC first).
fn exhaustive(out: &mut Out, depth: usize, variant: u64, slm: bool) {
    let mut prefix: Vec<Value> = vec![];
    for (a, b) in [(0, 1), (1, 2), (0, 2)] {
        prefix.push(json!({"a": "conn", "x": a, "y": b}));
        if !(variant & 2 != 0 && (a, b) == (0, 2)) {
            prefix.push(json!({"a": "view", "x": a, "y": b}));
        }
        prefix.push(json!({"a": "view", "x": b, "y": a}));
    }
    if variant & 1 != 0 {
        prefix.push(json!({"a": "sub", "x": 1, "t": 0}));
        prefix.push(json!({"a": "sub", "x": 2, "t": 0}));
        prefix.push(json!({"a": "flush"}));
    }
    let fifo = variant & 4 == 0;
    // the enabled ops after `ops` (the scratch network is rebuilt each time: the behaviours cannot be cloned)
    fn enabled(prefix: &[Value], ops: &[Value], fifo: bool, slm: bool) -> Vec<Value> {
        let mut net = Net::new(3, 1, &[slm, slm, slm], fifo);
        let mut subd = [false; 3];
        for op in prefix.iter().chain(ops.iter()) {
            if vcommon::guard(|| net.step(op)).is_err() {
                return vec![]; // the run of this prefix records the panic
            }
            if op["a"] == "sub" {
                subd[op["x"].as_u64().unwrap() as usize] = true;
            }
            if op["a"] == "unsub" {
                subd[op["x"].as_u64().unwrap() as usize] = false;
            }
        }
        let mut v = vec![];
        for n in 0..3 {
            v.push(if subd[n] { json!({"a": "unsub", "x": n, "t": 0}) } else { json!({"a": "sub", "x": n, "t": 0}) });
            // publish() of an unsubscribed node is a no-op: use publish_any there
            v.push(json!({"a": "pub", "x": n, "ts": [0], "any": !subd[n]}));
        }
        for (&(a, b), q) in net.links.iter() {
            if !q.is_empty() {
                v.push(json!({"a": "dlv", "x": a, "y": b, "i": 0}));
                if !fifo && q.len() > 1 {
                    v.push(json!({"a": "dlv", "x": a, "y": b, "i": 1}));
                }
            }
        }
        v
    }
    let mut stack: Vec<Vec<Value>> = vec![vec![]];
    while let Some(ops) = stack.pop() {
        let en = if ops.len() < depth { enabled(&prefix, &ops, fifo, slm) } else { vec![] };
        if ops.len() == depth || en.is_empty() {
            let mut all = prefix.clone();
            all.extend(ops);
            all.push(json!({"a": "flush"}));
            run_fixed(out, &json!({"n": 3, "t": 1, "slm": [slm, slm, slm], "fifo": fifo, "ops": all}));
            continue;
        }
        for e in en {
            let mut o = ops.clone();
            o.push(e);
            stack.push(o);
        }
    }
}

pub fn main(a: &vcommon::Args) {
    vcommon::quiet_panics();
    match a.get(0) {
        "replay" => {
            let scheds = vcommon::read_schedules(a.get(1));
            let mut out = Out::create(a.get(2));
            for s in &scheds {
                run_fixed(&mut out, s);
            }
            println!("runs={} events={}", out.run, out.events);
            out.finish();
        }
        // exhaustive <depth> <variants-bitmask-list e.g. 1,3,5> <out>
        "exhaustive" => {
            let depth = a.num(1) as usize;
            let mut out = Out::create(a.get(3));
            for v in a.get(2).split(',') {
                let v: u64 = v.parse().expect("variant");
                exhaustive(&mut out, depth, v & 7, v & 8 != 0);
            }
            println!("runs={} events={}", out.run, out.events);
            out.finish();
        }
        // directed <out>
        "directed" => {
            let mut out = Out::create(a.get(1));
            for s in directed() {
                run_fixed(&mut out, &s);
            }
            println!("runs={} events={}", out.run, out.events);
            out.finish();
        }
        // random <seed> <runs> <out>
        "random" => {
            let mut rng = vcommon::rng(a.num(1) ^ 0xf100d);
            let runs = a.num(2);
            let mut out = Out::create(a.get(3));
            for _ in 0..runs {
                let s = gen_random(&mut rng);
                run_fixed(&mut out, &s);
            }
            println!("runs={} events={}", out.run, out.events);
            out.finish();
        }
        m => panic!("net mode {m}"),
    }
}
