//! ChunkPipe: an in-memory duplex byte pipe whose chunking, readiness and faults are scripted by
//! the driver. Each direction has a `staged` queue (written, not yet visible to the reader) and a
//! `ready` queue (visible). In `auto` mode bytes become visible immediately, at most `read_chunk`
//! per read call; in manual mode the driver calls `deliver(dir, n)`.
use std::{
    collections::VecDeque,
    io,
    pin::Pin,
    sync::{Arc, Mutex},
    task::{Context, Poll, Waker},
};

use futures::io::{AsyncRead, AsyncWrite};

#[derive(Default)]
pub struct Dir {
    pub staged: VecDeque<u8>,
    pub ready: VecDeque<u8>,
    pub auto: bool,
    /// max bytes returned by one poll_read (0 = unlimited)
    pub read_chunk: usize,
    /// max bytes accepted by one poll_write (0 = unlimited)
    pub write_chunk: usize,
    /// remaining bytes poll_write may accept before returning Pending (None = unlimited)
    pub write_budget: Option<usize>,
    /// writer called poll_close
    pub closed: bool,
    /// EOF is visible to the reader only when `closed` and (auto or eof_delivered)
    pub eof_delivered: bool,
    /// reader gets an io error
    pub fail_read: bool,
    /// writer gets an io error
    pub fail_write: bool,
    /// flip bit 0 of the byte at this absolute offset of the direction's stream
    pub corrupt_at: Option<u64>,
    /// if set, every second poll_read returns Pending first (spurious not-ready)
    pub flaky_read: bool,
    flaky_state: bool,
    pub total_written: u64,
    pub total_read: u64,
    pub flushes: u64,
    pub write_calls: u64,
    pub read_calls: u64,
    /// all bytes ever written in this direction (for wire observers)
    pub log: Vec<u8>,
    pub keep_log: bool,
    rwaker: Option<Waker>,
    wwaker: Option<Waker>,
}

#[derive(Default)]
pub struct Shared {
    pub d: [Dir; 2],
}

/// One end of the pipe. End 0 writes into direction 0 and reads direction 1; end 1 the reverse.
pub struct PipeEnd {
    sh: Arc<Mutex<Shared>>,
    side: usize,
}

#[derive(Clone)]
pub struct PipeCtl {
    sh: Arc<Mutex<Shared>>,
}

pub fn pipe(auto: bool) -> (PipeEnd, PipeEnd, PipeCtl) {
    let sh = Arc::new(Mutex::new(Shared::default()));
    {
        let mut g = sh.lock().unwrap();
        g.d[0].auto = auto;
        g.d[1].auto = auto;
    }
    (PipeEnd { sh: sh.clone(), side: 0 }, PipeEnd { sh: sh.clone(), side: 1 }, PipeCtl { sh })
}

impl PipeCtl {
    pub fn with<R>(&self, dir: usize, f: impl FnOnce(&mut Dir) -> R) -> R {
        let mut g = self.sh.lock().unwrap();
        f(&mut g.d[dir])
    }
    /// make `n` staged bytes visible to the reader of direction `dir`; returns how many moved
    pub fn deliver(&self, dir: usize, n: usize) -> usize {
        let mut g = self.sh.lock().unwrap();
        let d = &mut g.d[dir];
        let k = n.min(d.staged.len());
        for _ in 0..k {
            let b = d.staged.pop_front().unwrap();
            d.ready.push_back(b);
        }
        if k > 0 {
            if let Some(w) = d.rwaker.take() {
                w.wake();
            }
        }
        k
    }
    pub fn deliver_all(&self, dir: usize) -> usize {
        self.deliver(dir, usize::MAX)
    }
    pub fn deliver_eof(&self, dir: usize) {
        let mut g = self.sh.lock().unwrap();
        let d = &mut g.d[dir];
        d.eof_delivered = true;
        if let Some(w) = d.rwaker.take() {
            w.wake();
        }
    }
    pub fn staged(&self, dir: usize) -> usize {
        self.sh.lock().unwrap().d[dir].staged.len()
    }
    pub fn ready(&self, dir: usize) -> usize {
        self.sh.lock().unwrap().d[dir].ready.len()
    }
    pub fn add_write_budget(&self, dir: usize, n: usize) {
        let mut g = self.sh.lock().unwrap();
        let d = &mut g.d[dir];
        d.write_budget = Some(d.write_budget.unwrap_or(0) + n);
        if let Some(w) = d.wwaker.take() {
            w.wake();
        }
    }
    pub fn set_write_budget(&self, dir: usize, n: Option<usize>) {
        let mut g = self.sh.lock().unwrap();
        let d = &mut g.d[dir];
        d.write_budget = n;
        if let Some(w) = d.wwaker.take() {
            w.wake();
        }
    }
    /// inject raw bytes into direction `dir` as if the peer had written them
    pub fn inject(&self, dir: usize, bytes: &[u8]) {
        let mut g = self.sh.lock().unwrap();
        let d = &mut g.d[dir];
        push_bytes(d, bytes);
    }
    pub fn fail_read(&self, dir: usize) {
        let mut g = self.sh.lock().unwrap();
        let d = &mut g.d[dir];
        d.fail_read = true;
        if let Some(w) = d.rwaker.take() {
            w.wake();
        }
    }
    pub fn close_dir(&self, dir: usize) {
        let mut g = self.sh.lock().unwrap();
        let d = &mut g.d[dir];
        d.closed = true;
        if d.auto {
            d.eof_delivered = true;
        }
        if let Some(w) = d.rwaker.take() {
            w.wake();
        }
    }
    pub fn take_log(&self, dir: usize) -> Vec<u8> {
        std::mem::take(&mut self.sh.lock().unwrap().d[dir].log)
    }
}

fn push_bytes(d: &mut Dir, bytes: &[u8]) {
    for &b in bytes {
        let mut b = b;
        if d.corrupt_at == Some(d.total_written) {
            b ^= 1;
        }
        d.total_written += 1;
        if d.keep_log {
            d.log.push(b);
        }
        if d.auto {
            d.ready.push_back(b);
        } else {
            d.staged.push_back(b);
        }
    }
    if d.auto && !bytes.is_empty() {
        if let Some(w) = d.rwaker.take() {
            w.wake();
        }
    }
}

impl AsyncRead for PipeEnd {
    fn poll_read(self: Pin<&mut Self>, cx: &mut Context<'_>, buf: &mut [u8]) -> Poll<io::Result<usize>> {
        let mut g = self.sh.lock().unwrap();
        let d = &mut g.d[1 - self.side];
        d.read_calls += 1;
        if d.fail_read {
            return Poll::Ready(Err(io::Error::new(io::ErrorKind::ConnectionReset, "scripted read failure")));
        }
        if buf.is_empty() {
            return Poll::Ready(Ok(0));
        }
        if d.flaky_read {
            d.flaky_state = !d.flaky_state;
            if d.flaky_state {
                cx.waker().wake_by_ref();
                return Poll::Pending;
            }
        }
        if d.ready.is_empty() {
            if d.closed && (d.auto || d.eof_delivered) && d.staged.is_empty() {
                return Poll::Ready(Ok(0));
            }
            d.rwaker = Some(cx.waker().clone());
            return Poll::Pending;
        }
        let mut n = buf.len().min(d.ready.len());
        if d.read_chunk > 0 {
            n = n.min(d.read_chunk);
        }
        for slot in buf.iter_mut().take(n) {
            *slot = d.ready.pop_front().unwrap();
        }
        d.total_read += n as u64;
        Poll::Ready(Ok(n))
    }
}

impl AsyncWrite for PipeEnd {
    fn poll_write(self: Pin<&mut Self>, cx: &mut Context<'_>, buf: &[u8]) -> Poll<io::Result<usize>> {
        let mut g = self.sh.lock().unwrap();
        let d = &mut g.d[self.side];
        d.write_calls += 1;
        if d.fail_write {
            return Poll::Ready(Err(io::Error::new(io::ErrorKind::BrokenPipe, "scripted write failure")));
        }
        if d.closed {
            return Poll::Ready(Err(io::Error::new(io::ErrorKind::BrokenPipe, "write after close")));
        }
        if buf.is_empty() {
            return Poll::Ready(Ok(0));
        }
        let mut n = buf.len();
        if d.write_chunk > 0 {
            n = n.min(d.write_chunk);
        }
        if let Some(bu) = d.write_budget {
            if bu == 0 {
                d.wwaker = Some(cx.waker().clone());
                return Poll::Pending;
            }
            n = n.min(bu);
            d.write_budget = Some(bu - n);
        }
        push_bytes(d, &buf[..n]);
        Poll::Ready(Ok(n))
    }

    fn poll_flush(self: Pin<&mut Self>, _cx: &mut Context<'_>) -> Poll<io::Result<()>> {
        let mut g = self.sh.lock().unwrap();
        let d = &mut g.d[self.side];
        d.flushes += 1;
        if d.fail_write {
            return Poll::Ready(Err(io::Error::new(io::ErrorKind::BrokenPipe, "scripted write failure")));
        }
        Poll::Ready(Ok(()))
    }

    fn poll_close(self: Pin<&mut Self>, _cx: &mut Context<'_>) -> Poll<io::Result<()>> {
        let mut g = self.sh.lock().unwrap();
        let d = &mut g.d[self.side];
        d.closed = true;
        if d.auto {
            d.eof_delivered = true;
        }
        if let Some(w) = d.rwaker.take() {
            w.wake();
        }
        Poll::Ready(Ok(()))
    }
}

impl Drop for PipeEnd {
    fn drop(&mut self) {
        if let Ok(mut g) = self.sh.lock() {
            let d = &mut g.d[self.side];
            d.closed = true;
            d.eof_delivered = true;
            if let Some(w) = d.rwaker.take() {
                w.wake();
            }
        }
    }
}
