//! Deterministic hand-polling: a waker that only counts wake-ups.
use std::{
    future::Future,
    pin::Pin,
    sync::{
        atomic::{AtomicUsize, Ordering},
        Arc,
    },
    task::{Context, Poll, Wake, Waker},
};

pub struct CountWaker(AtomicUsize);

impl Wake for CountWaker {
    fn wake(self: Arc<Self>) {
        self.0.fetch_add(1, Ordering::SeqCst);
    }
    fn wake_by_ref(self: &Arc<Self>) {
        self.0.fetch_add(1, Ordering::SeqCst);
    }
}

#[derive(Clone)]
pub struct Det {
    counter: Arc<CountWaker>,
    waker: Waker,
}

impl Default for Det {
    fn default() -> Self {
        Self::new()
    }
}

impl Det {
    pub fn new() -> Self {
        let counter = Arc::new(CountWaker(AtomicUsize::new(0)));
        let waker = Waker::from(counter.clone());
        Det { counter, waker }
    }
    pub fn wakes(&self) -> usize {
        self.counter.0.load(Ordering::SeqCst)
    }
    pub fn waker(&self) -> &Waker {
        &self.waker
    }
    pub fn cx(&self) -> Context<'_> {
        Context::from_waker(&self.waker)
    }
    /// Poll once.
    pub fn poll<F: Future + ?Sized>(&self, f: Pin<&mut F>) -> Poll<F::Output> {
        let mut cx = Context::from_waker(&self.waker);
        f.poll(&mut cx)
    }
    /// Poll until Ready, or until a poll returns Pending without having been woken during it
    /// (stalled: only an external stimulus can make progress). `max` bounds the polls.
    pub fn run_until_stalled<F: Future + ?Sized>(&self, mut f: Pin<&mut F>, max: usize) -> Option<F::Output> {
        for _ in 0..max {
            let before = self.wakes();
            match self.poll(f.as_mut()) {
                Poll::Ready(v) => return Some(v),
                Poll::Pending => {
                    if self.wakes() == before {
                        return None;
                    }
                }
            }
        }
        None
    }
}

/// Poll a closure-style poll function to quiescence: returns all Ready items produced until the
/// function returns Pending without a wake-up during that poll.
pub fn drain<T>(det: &Det, max: usize, mut f: impl FnMut(&mut Context<'_>) -> Poll<T>) -> Vec<T> {
    let mut out = Vec::new();
    for _ in 0..max {
        let before = det.wakes();
        let mut cx = det.cx();
        match f(&mut cx) {
            Poll::Ready(v) => out.push(v),
            Poll::Pending => {
                if det.wakes() == before {
                    break;
                }
            }
        }
    }
    out
}
