//! Shared pieces of the verification drivers: ndjson trace writer, schedule reader, deterministic
//! polling (counting waker), scripted byte pipes, panic capture.
pub mod exec;
pub mod pipe;

use std::{
    fs::File,
    io::{BufRead, BufReader, BufWriter, Write},
    panic::{catch_unwind, AssertUnwindSafe},
    path::Path,
};

pub use serde_json::{json, Value};

/// ndjson trace writer. One JSON object per line; `seq` is added per run by `ev`.
pub struct Out {
    w: BufWriter<File>,
    pub run: u64,
    pub events: u64,
}

impl Out {
    pub fn create(path: impl AsRef<Path>) -> Self {
        let f = File::create(path).expect("create trace file");
        Out { w: BufWriter::new(f), run: 0, events: 0 }
    }

    /// Start a new run: `{"e":"reset","run":k,"sched":<schedule>}`. The schedule is embedded so that
    /// any run can be replayed on its own.
    pub fn reset(&mut self, sched: &Value) {
        self.run += 1;
        let v = json!({"e": "reset", "run": self.run, "sched": sched});
        self.line(&v);
    }

    pub fn reset_with(&mut self, mut extra: Value, sched: &Value) {
        self.run += 1;
        extra["e"] = json!("reset");
        extra["run"] = json!(self.run);
        extra["sched"] = sched.clone();
        self.line(&extra);
    }

    pub fn ev(&mut self, v: Value) {
        self.line(&v);
    }

    fn line(&mut self, v: &Value) {
        self.events += 1;
        serde_json::to_writer(&mut self.w, v).expect("write trace");
        self.w.write_all(b"\n").expect("write trace");
    }

    pub fn finish(mut self) {
        self.w.flush().expect("flush trace");
    }
}

/// Read an ndjson file of schedules (one JSON value per line).
pub fn read_ndjson(path: impl AsRef<Path>) -> Vec<Value> {
    let f = File::open(path.as_ref()).unwrap_or_else(|e| panic!("open {:?}: {e}", path.as_ref()));
    BufReader::new(f)
        .lines()
        .map(|l| l.expect("read line"))
        .filter(|l| !l.trim().is_empty())
        .map(|l| serde_json::from_str(&l).unwrap_or_else(|e| panic!("bad json {l:?}: {e}")))
        .collect()
}

/// If the file's lines are trace `reset` events, take their embedded schedules (replay of a
/// recorded run); otherwise each line is a schedule.
pub fn read_schedules(path: impl AsRef<Path>) -> Vec<Value> {
    read_ndjson(path)
        .into_iter()
        .filter_map(|v| {
            if v.get("e").and_then(|e| e.as_str()) == Some("reset") {
                v.get("sched").cloned()
            } else if v.get("e").is_some() {
                None
            } else {
                Some(v)
            }
        })
        .collect()
}

/// Run `f`, turning a panic of the code under test into data (the trace gets a `panic` event,
/// for which no specification has an action).
pub fn guard<T>(f: impl FnOnce() -> T) -> Result<T, String> {
    match catch_unwind(AssertUnwindSafe(f)) {
        Ok(v) => Ok(v),
        Err(e) => Err(if let Some(s) = e.downcast_ref::<&str>() {
            s.to_string()
        } else if let Some(s) = e.downcast_ref::<String>() {
            s.clone()
        } else {
            "panic".to_string()
        }),
    }
}

/// Silence the default panic message (panics are recorded as events instead).
pub fn quiet_panics() {
    if std::env::var_os("VERIF_LOUD").is_some() {
        return;
    }
    std::panic::set_hook(Box::new(|_| {}));
}

pub struct Args {
    pub mode: String,
    pub rest: Vec<String>,
}

impl Args {
    pub fn parse() -> Self {
        let mut a: Vec<String> = std::env::args().skip(1).collect();
        if a.is_empty() {
            eprintln!("usage: <drv> replay <schedules.ndjson> <out.ndjson> | random <seed> <runs> <out.ndjson> [k=v..]");
            std::process::exit(2);
        }
        let mode = a.remove(0);
        Args { mode, rest: a }
    }
    pub fn get(&self, i: usize) -> &str {
        self.rest.get(i).map(|s| s.as_str()).unwrap_or_else(|| {
            eprintln!("missing argument {i}");
            std::process::exit(2)
        })
    }
    pub fn num(&self, i: usize) -> u64 {
        self.get(i).parse().expect("numeric argument")
    }
    /// optional `key=value` arguments
    pub fn kv(&self, key: &str) -> Option<String> {
        let p = format!("{key}=");
        self.rest.iter().find_map(|s| s.strip_prefix(&p).map(|x| x.to_string()))
    }
    pub fn kv_num(&self, key: &str, default: u64) -> u64 {
        self.kv(key).map(|s| s.parse().expect("numeric kv")).unwrap_or(default)
    }
}

pub fn rng(seed: u64) -> rand::rngs::StdRng {
    use rand::SeedableRng;
    rand::rngs::StdRng::seed_from_u64(seed)
}

pub fn s(v: &Value, k: &str) -> String {
    v.get(k).and_then(|x| x.as_str()).unwrap_or_else(|| panic!("field {k} missing in {v}")).to_string()
}
pub fn n(v: &Value, k: &str) -> i64 {
    v.get(k).and_then(|x| x.as_i64()).unwrap_or_else(|| panic!("int field {k} missing in {v}"))
}
pub fn b(v: &Value, k: &str) -> bool {
    v.get(k).and_then(|x| x.as_bool()).unwrap_or_else(|| panic!("bool field {k} missing in {v}"))
}
