//! Driver for the stream muxers: mplex frame codec (C25), mplex limits against a raw frame
//! injector (C26), two-endpoint substream delivery for mplex and yamux (C24).
mod codec;
mod limits;
mod streams;

fn main() {
    let a = vcommon::Args::parse();
    match a.mode.as_str() {
        "codec" => codec::main(&a),
        "limits" => limits::main(&a),
        "streams" => streams::main(&a),
        m => {
            eprintln!("unknown mode {m}");
            std::process::exit(2)
        }
    }
}
