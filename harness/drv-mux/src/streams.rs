//! C24: two REAL muxer endpoints (mplex or yamux, same code path through `StreamMuxer`) joined by a
//! scripted pipe whose chunking the schedule controls (manual `deliver`).
//!
//! Handles: every substream an endpoint obtains (opened or accepted) gets the next handle number
//! of that endpoint; global key g = endpoint * 8 + handle.  Byte j written on g has the value
//! g * 16 + j mod 16, so every byte says which handle wrote it and where it belongs.
//! Which accepted handle is the peer of which opened handle is NOT assumed: the trace spec infers
//! it from the tags and insists that it is a consistent one-to-one pairing.
//!
//! Schedule: {"mux":"mplex"|"yamux","split":n,"max_buf":n,"ops":[..]}
//! ops: open{e} accept{e} write{e,h,len} flush{e,h} close{e,h} read{e,h,max} dl{d,n} (n<0: all)
use std::{fmt::Display, pin::Pin, task::Poll};

use futures::{AsyncRead, AsyncWrite, FutureExt};
use libp2p_core::{
    muxing::{StreamMuxer, StreamMuxerExt},
    upgrade::{InboundConnectionUpgrade, OutboundConnectionUpgrade},
};
use rand::Rng;
use vcommon::{exec::Det, json, pipe::{PipeCtl, PipeEnd}, Out, Value};

const POLLS: usize = 400;

struct Side<M: StreamMuxer> {
    m: M,
    subs: Vec<Option<M::Substream>>,
    off: Vec<u64>,
    eof: Vec<bool>,
}

struct World<M: StreamMuxer> {
    s: [Side<M>; 2],
    ctl: PipeCtl,
    det: Det,
    dead: bool,
}

fn tag(e: usize, h: usize, off: u64, len: usize) -> Vec<u8> {
    let g = (e * 8 + h) as u64;
    (0..len as u64).map(|j| ((g * 16 + (off + j) % 16) % 256) as u8).collect()
}

/// poll `f` until Ready, or Pending without a wake-up during the poll
fn settle<T>(det: &Det, mut f: impl FnMut(&mut std::task::Context<'_>) -> Poll<T>) -> Option<T> {
    for _ in 0..POLLS {
        let before = det.wakes();
        match f(&mut det.cx()) {
            Poll::Ready(v) => return Some(v),
            Poll::Pending => {
                if det.wakes() == before {
                    return None;
                }
            }
        }
    }
    None
}

impl<M> World<M>
where
    M: StreamMuxer + Unpin,
    M::Substream: AsyncRead + AsyncWrite + Unpin,
    M::Error: Display,
{
    /// the connection task: both muxers are polled like a swarm would
    fn poll_muxers(&mut self, out: &mut Out) {
        for e in 0..2 {
            let det = self.det.clone();
            let m = &mut self.s[e].m;
            match vcommon::guard(|| settle(&det, |cx| m.poll_unpin(cx))) {
                Ok(Some(Err(err))) => {
                    if !self.dead {
                        out.ev(json!({"e": "conn_err", "ep": e, "op": "poll", "msg": err.to_string()}));
                    }
                    self.dead = true;
                }
                Ok(_) => {}
                Err(m) => {
                    out.ev(json!({"e": "panic", "msg": m}));
                    self.dead = true;
                }
            }
        }
    }
    fn open_or_accept(&mut self, e: usize, open: bool, out: &mut Out) -> bool {
        let det = self.det.clone();
        let name = if open { "open" } else { "accept" };
        let m = &mut self.s[e].m;
        let r = vcommon::guard(|| settle(&det, |cx| if open { m.poll_outbound_unpin(cx) } else { m.poll_inbound_unpin(cx) }));
        match r {
            Ok(Some(Ok(s))) => {
                let h = self.s[e].subs.len();
                if h >= 8 {
                    out.ev(json!({"e": "skip", "why": "handle space exhausted"}));
                    return false;
                }
                self.s[e].subs.push(Some(s));
                self.s[e].off.push(0);
                self.s[e].eof.push(false);
                out.ev(json!({"e": name, "ep": e, "h": h, "g": e * 8 + h}));
                true
            }
            Ok(Some(Err(err))) => {
                out.ev(json!({"e": "conn_err", "ep": e, "op": name, "msg": err.to_string()}));
                self.dead = true;
                false
            }
            Ok(None) => {
                out.ev(json!({"e": format!("{name}_pending"), "ep": e}));
                false
            }
            Err(m) => {
                out.ev(json!({"e": "panic", "msg": m}));
                self.dead = true;
                false
            }
        }
    }
    /// 0 = nothing, 1 = bytes, 2 = eof
    fn read(&mut self, e: usize, h: usize, max: usize, out: &mut Out) -> u8 {
        let det = self.det.clone();
        let Some(Some(s)) = self.s[e].subs.get_mut(h) else {
            out.ev(json!({"e": "skip", "why": "no handle", "ep": e, "h": h}));
            return 0;
        };
        let mut buf = vec![0u8; max.max(1)];
        let r = vcommon::guard(|| settle(&det, |cx| Pin::new(&mut *s).poll_read(cx, &mut buf)));
        let g = e * 8 + h;
        match r {
            Ok(Some(Ok(0))) => {
                out.ev(json!({"e": "eof", "g": g}));
                self.s[e].eof[h] = true;
                2
            }
            Ok(Some(Ok(n))) => {
                out.ev(json!({"e": "read", "g": g, "bytes": buf[..n].to_vec()}));
                1
            }
            Ok(Some(Err(err))) => {
                out.ev(json!({"e": "read_err", "g": g, "kind": format!("{:?}", err.kind()), "msg": err.to_string()}));
                0
            }
            Ok(None) => {
                out.ev(json!({"e": "read_pending", "g": g}));
                0
            }
            Err(m) => {
                out.ev(json!({"e": "panic", "msg": m}));
                self.dead = true;
                0
            }
        }
    }
    fn wop(&mut self, op: &str, e: usize, h: usize, len: usize, out: &mut Out) -> bool {
        let det = self.det.clone();
        let off = self.s[e].off.get(h).cloned().unwrap_or(0);
        let Some(Some(s)) = self.s[e].subs.get_mut(h) else {
            out.ev(json!({"e": "skip", "why": "no handle", "ep": e, "h": h}));
            return false;
        };
        let data = tag(e, h, off, len);
        let r = vcommon::guard(|| {
            settle(&det, |cx| match op {
                "write" => Pin::new(&mut *s).poll_write(cx, &data),
                "flush" => Pin::new(&mut *s).poll_flush(cx).map_ok(|_| 0),
                _ => Pin::new(&mut *s).poll_close(cx).map_ok(|_| 0),
            })
        });
        let g = e * 8 + h;
        match r {
            Ok(Some(Ok(n))) => {
                if op == "write" {
                    self.s[e].off[h] += n as u64;
                    out.ev(json!({"e": "write", "g": g, "bytes": data[..n].to_vec()}));
                } else {
                    out.ev(json!({"e": op, "g": g}));
                }
                true
            }
            Ok(Some(Err(err))) => {
                out.ev(json!({"e": "w_err", "op": op, "g": g, "kind": format!("{:?}", err.kind())}));
                false
            }
            Ok(None) => {
                out.ev(json!({"e": "w_pending", "op": op, "g": g}));
                false
            }
            Err(m) => {
                out.ev(json!({"e": "panic", "msg": m}));
                self.dead = true;
                false
            }
        }
    }
    fn deliver(&mut self, d: usize, n: i64, out: &mut Out) -> usize {
        let k = if n < 0 { self.ctl.deliver_all(d) } else { self.ctl.deliver(d, n as usize) };
        out.ev(json!({"e": "dl", "d": d, "n": k}));
        k
    }

    fn run_ops(&mut self, ops: &[Value], out: &mut Out) {
        for op in ops {
            if self.dead {
                break;
            }
            let a = vcommon::s(op, "a");
            let e = op.get("e").and_then(|x| x.as_u64()).unwrap_or(0) as usize;
            let h = op.get("h").and_then(|x| x.as_u64()).unwrap_or(0) as usize;
            match a.as_str() {
                "open" => {
                    self.open_or_accept(e, true, out);
                }
                "accept" => {
                    self.open_or_accept(e, false, out);
                }
                "read" => {
                    let max = op.get("max").and_then(|x| x.as_u64()).unwrap_or(64) as usize;
                    self.read(e, h, max, out);
                }
                "write" | "flush" | "close" => {
                    let len = op.get("len").and_then(|x| x.as_u64()).unwrap_or(0) as usize;
                    self.wop(&a, e, h, len, out);
                }
                "dl" => {
                    self.deliver(vcommon::n(op, "d") as usize, vcommon::n(op, "n"), out);
                }
                x => panic!("op {x}"),
            }
            self.poll_muxers(out);
        }
    }

    /// both applications finish their work: flush everything, the wire delivers everything, every
    /// inbound substream is accepted and every substream is read to the end or until it stalls
    fn drain(&mut self, out: &mut Out) {
        out.ev(json!({"e": "drain"}));
        for _round in 0..2000 {
            if self.dead {
                break;
            }
            let mut progress = false;
            for e in 0..2 {
                for h in 0..self.s[e].subs.len() {
                    self.wop("flush", e, h, 0, out);
                }
            }
            self.poll_muxers(out);
            for d in 0..2 {
                if self.ctl.staged(d) > 0 {
                    progress |= self.deliver(d, -1, out) > 0;
                }
            }
            self.poll_muxers(out);
            for e in 0..2 {
                while !self.dead && self.s[e].subs.len() < 8 && self.open_or_accept(e, false, out) {
                    progress = true;
                    self.poll_muxers(out);
                }
                for h in 0..self.s[e].subs.len() {
                    while !self.dead && !self.s[e].eof[h] {
                        let p = self.read(e, h, 64, out);
                        self.poll_muxers(out);
                        if p == 0 {
                            break;
                        }
                        progress = true;
                    }
                }
            }
            if self.ctl.staged(0) + self.ctl.staged(1) > 0 {
                progress = true;
            }
            if !progress {
                break;
            }
        }
        out.ev(json!({"e": "end"}));
    }
}

fn make_mplex(sched: &Value) -> World<libp2p_mplex::Multiplex<PipeEnd>> {
    let (a, b, ctl) = vcommon::pipe::pipe(false);
    let mut cfg = libp2p_mplex::Config::new();
    cfg.set_split_send_size(sched.get("split").and_then(|x| x.as_u64()).unwrap_or(8192) as usize)
        .set_max_buffer_size(sched.get("max_buf").and_then(|x| x.as_u64()).unwrap_or(32) as usize);
    let ma = cfg.clone().upgrade_outbound(a, "/mplex/6.7.0").now_or_never().unwrap().unwrap();
    let mb = cfg.upgrade_inbound(b, "/mplex/6.7.0").now_or_never().unwrap().unwrap();
    World { s: [side(ma), side(mb)], ctl, det: Det::new(), dead: false }
}

fn make_yamux(_sched: &Value) -> World<libp2p_yamux::Muxer<PipeEnd>> {
    let (a, b, ctl) = vcommon::pipe::pipe(false);
    let cfg = libp2p_yamux::Config::default();
    let ma = cfg.clone().upgrade_outbound(a, "/yamux/1.0.0").now_or_never().unwrap().unwrap();
    let mb = cfg.upgrade_inbound(b, "/yamux/1.0.0").now_or_never().unwrap().unwrap();
    World { s: [side(ma), side(mb)], ctl, det: Det::new(), dead: false }
}

fn side<M: StreamMuxer>(m: M) -> Side<M> {
    Side { m, subs: vec![], off: vec![], eof: vec![] }
}

fn run(out: &mut Out, sched: &Value) {
    let mux = vcommon::s(sched, "mux");
    out.reset_with(json!({"mux": mux}), sched);
    let ops = sched["ops"].as_array().unwrap().clone();
    if let Some(c) = sched.get("chunk").and_then(|x| x.as_u64()) {
        // applied below through ctl
        let _ = c;
    }
    match mux.as_str() {
        "mplex" => {
            let mut w = make_mplex(sched);
            set_chunk(&w.ctl, sched);
            w.run_ops(&ops, out);
            w.drain(out);
        }
        "yamux" => {
            let mut w = make_yamux(sched);
            set_chunk(&w.ctl, sched);
            w.run_ops(&ops, out);
            w.drain(out);
        }
        m => panic!("mux {m}"),
    }
}

fn set_chunk(ctl: &PipeCtl, sched: &Value) {
    let c = sched.get("chunk").and_then(|x| x.as_u64()).unwrap_or(0) as usize;
    ctl.with(0, |d| d.read_chunk = c);
    ctl.with(1, |d| d.read_chunk = c);
    let wc = sched.get("wchunk").and_then(|x| x.as_u64()).unwrap_or(0) as usize;
    ctl.with(0, |d| d.write_chunk = wc);
    ctl.with(1, |d| d.write_chunk = wc);
}

// ------------------------------------------------------------------ generators

fn o(a: &str, e: usize, h: usize) -> Value {
    json!({"a": a, "e": e, "h": h})
}
fn wr(e: usize, h: usize, len: usize) -> Value {
    json!({"a": "write", "e": e, "h": h, "len": len})
}
fn dl(d: usize, n: i64) -> Value {
    json!({"a": "dl", "d": d, "n": n})
}

/// how many bytes `ops` leave staged in direction d (dry run on a scratch trace)
fn staged_after(mux: &str, ops: &[Value], d: usize) -> usize {
    let mut scratch = Out::create("/dev/null");
    let sched = json!({"mux": mux, "ops": []});
    match mux {
        "mplex" => {
            let mut w = make_mplex(&sched);
            w.run_ops(ops, &mut scratch);
            w.ctl.staged(d)
        }
        _ => {
            let mut w = make_yamux(&sched);
            w.run_ops(ops, &mut scratch);
            w.ctl.staged(d)
        }
    }
}

/// short exchanges with the wire split at every byte position (and every pair for level >= 2)
fn splits(out: &mut Out, level: u64) {
    for mux in ["mplex", "yamux"] {
        // two substreams opened by A, interleaved writes, half-closes; B answers on one of them
        let a_ops = vec![
            o("open", 0, 0), o("open", 0, 1), wr(0, 0, 3), wr(0, 1, 2), o("flush", 0, 0), wr(0, 0, 2), o("close", 0, 0),
            wr(0, 1, 3), o("flush", 0, 1),
        ];
        let b_ops = vec![
            o("accept", 1, 0), o("accept", 1, 1), json!({"a": "read", "e": 1, "h": 0, "max": 2}), json!({"a": "read", "e": 1, "h": 1, "max": 64}),
            wr(1, 0, 2), o("flush", 1, 0), json!({"a": "read", "e": 1, "h": 0, "max": 64}), o("close", 1, 1), json!({"a": "read", "e": 1, "h": 0, "max": 64}),
        ];
        let total = staged_after(mux, &a_ops, 0);
        let mut cutsets: Vec<Vec<usize>> = vec![vec![]];
        for c in 1..total {
            cutsets.push(vec![c]);
        }
        if level >= 2 {
            for a in 1..total {
                for b in (a + 1)..total {
                    cutsets.push(vec![a, b]);
                }
            }
        }
        cutsets.push((1..total).collect()); // byte by byte
        for cuts in cutsets {
            let mut ops = a_ops.clone();
            let mut prev = 0;
            for c in cuts {
                ops.push(dl(0, (c - prev) as i64));
                prev = c;
                ops.extend(b_ops.iter().cloned());
            }
            ops.push(dl(0, -1));
            ops.extend(b_ops.iter().cloned());
            ops.push(dl(1, 1));
            ops.push(json!({"a": "read", "e": 0, "h": 0, "max": 64}));
            ops.push(dl(1, 3));
            ops.push(json!({"a": "read", "e": 0, "h": 1, "max": 64}));
            ops.push(json!({"a": "read", "e": 0, "h": 0, "max": 64}));
            run(out, &json!({"mux": mux, "ops": ops}));
        }
        // both sides open at the same time (ids from both roles), every split of B's direction too
        let both = vec![o("open", 0, 0), o("open", 1, 0), wr(0, 0, 2), wr(1, 0, 3), o("close", 0, 0), o("flush", 1, 0)];
        let t0 = staged_after(mux, &both, 0);
        let t1 = staged_after(mux, &both, 1);
        for c0 in 0..=t0 {
            for c1 in (0..=t1).step_by(if level >= 2 { 1 } else { 3 }) {
                let mut ops = both.clone();
                ops.push(dl(0, c0 as i64));
                ops.push(dl(1, c1 as i64));
                ops.extend([o("accept", 0, 0), o("accept", 1, 0), json!({"a": "read", "e": 0, "h": 1, "max": 64}), json!({"a": "read", "e": 1, "h": 1, "max": 64})]);
                ops.push(wr(1, 1, 2));
                ops.push(o("close", 1, 1));
                run(out, &json!({"mux": mux, "ops": ops}));
            }
        }
    }
}

fn random(out: &mut Out, seed: u64, runs: u64) {
    let mut rng = vcommon::rng(seed ^ 0x24_5712);
    for i in 0..runs {
        let mux = if i % 2 == 0 { "mplex" } else { "yamux" };
        let n = rng.gen_range(10..=70);
        let mut ops = vec![];
        // the generator guesses handle numbers (an op on a missing handle is recorded as `skip`)
        let mut nh = [0usize; 2];
        let mut closed = [[false; 8]; 2];
        let eager = rng.gen_bool(0.5);
        for _ in 0..n {
            let e = rng.gen_range(0..2);
            let h = if nh[e] == 0 { 0 } else { rng.gen_range(0..nh[e]) };
            match rng.gen_range(0..100) {
                0..=9 => {
                    if nh[e] < 4 {
                        ops.push(o("open", e, 0));
                        nh[e] += 1;
                    }
                }
                10..=19 => {
                    ops.push(o("accept", e, 0));
                    if nh[e] < 7 && rng.gen_bool(0.6) {
                        nh[e] += 1;
                    }
                }
                20..=44 => {
                    if !closed[e][h] || rng.gen_range(0..20) == 0 {
                        ops.push(wr(e, h, rng.gen_range(1..=9)));
                    }
                }
                45..=54 => ops.push(o("flush", e, h)),
                55..=59 => {
                    ops.push(o("close", e, h));
                    closed[e][h] = true;
                }
                60..=79 => {
                    let mx = [1, 2, 5, 64][rng.gen_range(0..4)];
                    ops.push(json!({"a": "read", "e": e, "h": h, "max": mx}));
                }
                _ => {
                    let k: i64 = if eager { [-1, 40, 13][rng.gen_range(0..3)] } else { [1, 2, 3, 5, 12, 30, -1][rng.gen_range(0..7)] };
                    ops.push(dl(rng.gen_range(0..2), k));
                }
            }
        }
        let split = [8192, 1, 2, 3, 5][rng.gen_range(0..5)];
        let max_buf = [32, 1, 2][rng.gen_range(0..3)];
        let chunk = [0, 0, 1, 3][rng.gen_range(0..4)];
        let wchunk = [0, 0, 1, 4][rng.gen_range(0..4)];
        run(out, &json!({"mux": mux, "split": split, "max_buf": max_buf, "chunk": chunk, "wchunk": wchunk, "ops": ops}));
    }
}

pub fn main(a: &vcommon::Args) {
    vcommon::quiet_panics();
    match a.get(0) {
        "replay" => {
            let scheds = vcommon::read_schedules(a.get(1));
            let mut out = Out::create(a.get(2));
            for s in &scheds {
                run(&mut out, s);
            }
            println!("runs={} events={}", out.run, out.events);
            out.finish();
        }
        "splits" => {
            let mut out = Out::create(a.get(2));
            splits(&mut out, a.num(1));
            println!("runs={} events={}", out.run, out.events);
            out.finish();
        }
        "random" => {
            let mut out = Out::create(a.get(3));
            random(&mut out, a.num(1), a.num(2));
            println!("runs={} events={}", out.run, out.events);
            out.finish();
        }
        m => panic!("streams mode {m}"),
    }
}
