//! C26: a REAL `Multiplex` endpoint against a raw frame injector.
//!
//! The endpoint owns pipe end 0. The driver plays the remote: it encodes mplex frames with the
//! crate's codec (verif hook) and injects them into direction 1 - as fast and as many as the
//! schedule says, without any flow control. Local application actions (accept/read/drop/open/
//! write/close) are scripted; after every op the endpoint's substream table is snapshotted
//! (verif hook) and the frames the endpoint wrote to the wire are decoded (`tx` events).
//!
//! Stream keys (`sid`): remote-initiated substream num n -> n; locally opened num n -> 100 + n.
//! Payload byte j of stream sid = (sid * 16 + j mod 16) mod 256: misdelivery is self-evident.
//!
//! Schedule: {"max_sub":..,"max_buf":..,"block":bool,"split":n,"chunk":n,"ops":[..]}
//! ops: inj{f:open|data|close|reset,sid,len} accept read{sid,max} drop{sid} open write{sid,len}
//!      flush{sid} close{sid} budget{n|-1}
use std::{collections::BTreeMap, pin::Pin, task::Poll};

use bytes::{Bytes, BytesMut};
use futures::{AsyncRead, AsyncWrite, FutureExt};
use libp2p_core::{muxing::StreamMuxerExt, upgrade::OutboundConnectionUpgrade};
use libp2p_mplex::{
    verif::{self, Codec, Endpoint, Frame, Kind},
    Config, MaxBufferBehaviour, Multiplex, Substream,
};
use rand::Rng;
use vcommon::{exec::Det, json, pipe::PipeEnd, Out, Value};

/// polls per application op: the endpoint yields (self-wake + Pending) after every `max_buffer_len`
/// frames it had to buffer or drop, so one op may need many polls before it is really stalled
const POLLS: usize = 4000;

fn sid_of(num: u64, local_role: Endpoint) -> u64 {
    match local_role {
        Endpoint::Listener => num,
        Endpoint::Dialer => 100 + num,
    }
}

struct World {
    m: Multiplex<PipeEnd>,
    ctl: vcommon::pipe::PipeCtl,
    _remote: PipeEnd,
    subs: BTreeMap<u64, Substream<PipeEnd>>,
    off_in: BTreeMap<u64, u64>,  // next payload offset injected per sid
    ever_opened: std::collections::BTreeSet<u64>,
    off_out: BTreeMap<u64, u64>, // next payload offset written locally per sid
    enc: Codec,
    dec: Codec,
    wire: BytesMut,
    det: Det,
}

impl World {
    fn snap(&self, out: &mut Out) {
        let s = verif::snapshot(&self.m);
        let subs: Vec<Value> = s
            .substreams
            .iter()
            .map(|x| json!({"sid": sid_of(x.num, x.role), "st": x.state, "buf": x.buffered_frames}))
            .collect();
        let mbuf = s.substreams.iter().map(|x| x.buffered_frames).max().unwrap_or(0);
        out.ev(json!({"e": "snap", "n": s.substreams.len(), "mbuf": mbuf, "subs": subs, "ob": s.open_buffer,
            "pf": s.pending_frames, "blk": s.blocking.map(|(n, r)| sid_of(n, r) as i64).unwrap_or(-1), "status": s.status}));
    }
    /// decode what the endpoint wrote since the last call
    fn observe_wire(&mut self, out: &mut Out) {
        let log = self.ctl.take_log(0);
        self.wire.extend_from_slice(&log);
        loop {
            match vcommon::guard(|| self.dec.decode(&mut self.wire)) {
                Ok(Ok(Some(f))) => {
                    // the decoder reports the sender's (= local endpoint's) role
                    let sid = sid_of(f.num, f.role);
                    let k = match f.kind {
                        Kind::Open => "open",
                        Kind::Data => "data",
                        Kind::Close => "close",
                        Kind::Reset => "reset",
                    };
                    out.ev(json!({"e": "tx", "k": k, "sid": sid, "bytes": f.data.to_vec()}));
                }
                Ok(Ok(None)) => break,
                Ok(Err(e)) => {
                    out.ev(json!({"e": "tx_garbage", "msg": e.to_string()}));
                    break;
                }
                Err(m) => {
                    out.ev(json!({"e": "panic", "msg": m}));
                    break;
                }
            }
        }
    }
    fn inject(&mut self, f: &str, sid: u64, len: usize, out: &mut Out) {
        // Frames for a locally-opened substream that does not exist yet would race with the later
        // `open` (dropped if processed before it, delivered if after): not observable, so not injected.
        if sid >= 100 && !self.ever_opened.contains(&sid) {
            out.ev(json!({"e": "skip", "why": "not opened yet", "sid": sid}));
            return;
        }
        // the remote's own id for the stream: it dialed `sid < 100`, it listens on `sid >= 100`
        let (num, role) = if sid >= 100 { (sid - 100, Endpoint::Listener) } else { (sid, Endpoint::Dialer) };
        let mut data = vec![];
        let kind = match f {
            "open" => Kind::Open,
            "data" => {
                let o = self.off_in.entry(sid).or_insert(0);
                data = (0..len as u64).map(|j| ((sid * 16 + (*o + j) % 16) % 256) as u8).collect();
                *o += len as u64;
                Kind::Data
            }
            "close" => Kind::Close,
            "reset" => Kind::Reset,
            _ => panic!("frame {f}"),
        };
        let mut dst = BytesMut::new();
        self.enc
            .encode(Frame { kind, num, role, local_role: role, data: Bytes::from(data.clone()) }, &mut dst)
            .expect("encode");
        self.ctl.inject(1, &dst);
        out.ev(json!({"e": "inj", "f": f, "sid": sid, "bytes": data}));
    }
    fn accept(&mut self, out: &mut Out) -> bool {
        let det = self.det.clone();
        let mut res = None;
        let r = vcommon::guard(|| {
            for _ in 0..POLLS {
                let before = det.wakes();
                match self.m.poll_inbound_unpin(&mut det.cx()) {
                    Poll::Ready(r) => {
                        res = Some(r);
                        break;
                    }
                    Poll::Pending => {
                        if det.wakes() == before {
                            break;
                        }
                    }
                }
            }
        });
        if let Err(m) = r {
            out.ev(json!({"e": "panic", "msg": m}));
            return false;
        }
        match res {
            Some(Ok(s)) => {
                let (num, role) = verif::substream_id(&s);
                let sid = sid_of(num, role);
                out.ev(json!({"e": "accept", "sid": sid}));
                self.subs.insert(sid, s);
                true
            }
            Some(Err(e)) => {
                out.ev(json!({"e": "conn_err", "op": "accept", "msg": e.to_string()}));
                false
            }
            None => {
                out.ev(json!({"e": "accept_pending"}));
                false
            }
        }
    }
    fn open(&mut self, out: &mut Out) {
        let det = self.det.clone();
        let mut res = None;
        let r = vcommon::guard(|| {
            for _ in 0..POLLS {
                let before = det.wakes();
                match self.m.poll_outbound_unpin(&mut det.cx()) {
                    Poll::Ready(r) => {
                        res = Some(r);
                        break;
                    }
                    Poll::Pending => {
                        if det.wakes() == before {
                            break;
                        }
                    }
                }
            }
        });
        if let Err(m) = r {
            out.ev(json!({"e": "panic", "msg": m}));
            return;
        }
        match res {
            Some(Ok(s)) => {
                let (num, role) = verif::substream_id(&s);
                let sid = sid_of(num, role);
                out.ev(json!({"e": "opened", "sid": sid}));
                self.ever_opened.insert(sid);
                self.subs.insert(sid, s);
            }
            Some(Err(e)) => out.ev(json!({"e": "conn_err", "op": "open", "msg": e.to_string()})),
            None => out.ev(json!({"e": "open_pending"})),
        }
    }
    /// returns 0 = no progress, 1 = bytes read, 2 = end of stream
    fn read(&mut self, sid: u64, max: usize, out: &mut Out) -> u8 {
        let det = self.det.clone();
        let Some(s) = self.subs.get_mut(&sid) else {
            out.ev(json!({"e": "skip", "why": "no handle", "sid": sid}));
            return 0;
        };
        let mut buf = vec![0u8; max.max(1)];
        let mut res = None;
        let r = vcommon::guard(|| {
            for _ in 0..POLLS {
                let before = det.wakes();
                match Pin::new(&mut *s).poll_read(&mut det.cx(), &mut buf) {
                    Poll::Ready(r) => {
                        res = Some(r);
                        break;
                    }
                    Poll::Pending => {
                        if det.wakes() == before {
                            break;
                        }
                    }
                }
            }
        });
        if let Err(m) = r {
            out.ev(json!({"e": "panic", "msg": m}));
            return 0;
        }
        match res {
            Some(Ok(0)) => {
                out.ev(json!({"e": "eof", "sid": sid}));
                2
            }
            Some(Ok(n)) => {
                out.ev(json!({"e": "read", "sid": sid, "bytes": buf[..n].to_vec()}));
                1
            }
            Some(Err(e)) => {
                out.ev(json!({"e": "conn_err", "op": "read", "sid": sid, "msg": e.to_string()}));
                0
            }
            None => {
                out.ev(json!({"e": "read_pending", "sid": sid}));
                0
            }
        }
    }
    fn wop(&mut self, op: &str, sid: u64, len: usize, out: &mut Out) {
        let det = self.det.clone();
        let Some(s) = self.subs.get_mut(&sid) else {
            out.ev(json!({"e": "skip", "why": "no handle", "sid": sid}));
            return;
        };
        let o = *self.off_out.entry(sid).or_insert(0);
        let data: Vec<u8> = (0..len as u64).map(|j| ((sid * 16 + (o + j) % 16) % 256) as u8).collect();
        let mut res: Option<std::io::Result<usize>> = None;
        let r = vcommon::guard(|| {
            for _ in 0..POLLS {
                let before = det.wakes();
                let p = match op {
                    "write" => Pin::new(&mut *s).poll_write(&mut det.cx(), &data),
                    "flush" => Pin::new(&mut *s).poll_flush(&mut det.cx()).map_ok(|_| 0),
                    _ => Pin::new(&mut *s).poll_close(&mut det.cx()).map_ok(|_| 0),
                };
                match p {
                    Poll::Ready(r) => {
                        res = Some(r);
                        break;
                    }
                    Poll::Pending => {
                        if det.wakes() == before {
                            break;
                        }
                    }
                }
            }
        });
        if let Err(m) = r {
            out.ev(json!({"e": "panic", "msg": m}));
            return;
        }
        match res {
            Some(Ok(n)) => {
                if op == "write" {
                    *self.off_out.get_mut(&sid).unwrap() += n as u64;
                    out.ev(json!({"e": "wrote", "sid": sid, "bytes": data[..n].to_vec()}));
                } else {
                    out.ev(json!({"e": if op == "flush" { "flushed" } else { "closed" }, "sid": sid}));
                }
            }
            Some(Err(e)) => out.ev(json!({"e": "w_err", "op": op, "sid": sid, "kind": format!("{:?}", e.kind())})),
            None => out.ev(json!({"e": "w_pending", "op": op, "sid": sid})),
        }
    }
}

fn run(out: &mut Out, sched: &Value) {
    let max_sub = vcommon::n(sched, "max_sub") as usize;
    let max_buf = vcommon::n(sched, "max_buf") as usize;
    let block = vcommon::b(sched, "block");
    let split = sched.get("split").and_then(|x| x.as_u64()).unwrap_or(8192) as usize;
    let chunk = sched.get("chunk").and_then(|x| x.as_u64()).unwrap_or(0) as usize;
    out.reset_with(json!({"max_sub": max_sub, "max_buf": max_buf, "block": block}), sched);
    let (a, b, ctl) = vcommon::pipe::pipe(true);
    ctl.with(0, |d| d.keep_log = true);
    ctl.with(1, |d| d.read_chunk = chunk);
    let mut cfg = Config::new();
    cfg.set_max_num_streams(max_sub)
        .set_max_buffer_size(max_buf)
        .set_max_buffer_behaviour(if block { MaxBufferBehaviour::Block } else { MaxBufferBehaviour::ResetStream })
        .set_split_send_size(split);
    let m = cfg.upgrade_outbound(a, "/mplex/6.7.0").now_or_never().unwrap().unwrap();
    let mut w = World {
        m,
        ctl,
        _remote: b,
        subs: BTreeMap::new(),
        off_in: BTreeMap::new(),
        ever_opened: Default::default(),
        off_out: BTreeMap::new(),
        enc: Codec::new(),
        dec: Codec::new(),
        wire: BytesMut::new(),
        det: Det::new(),
    };
    for op in sched["ops"].as_array().unwrap() {
        let a = vcommon::s(op, "a");
        let sid = op.get("sid").and_then(|x| x.as_u64()).unwrap_or(0);
        match a.as_str() {
            "inj" => {
                let len = op.get("len").and_then(|x| x.as_u64()).unwrap_or(0) as usize;
                w.inject(&vcommon::s(op, "f"), sid, len, out);
                continue; // nothing ran in the endpoint: no snapshot needed
            }
            "accept" => {
                w.accept(out);
            }
            "open" => w.open(out),
            "read" => {
                let max = op.get("max").and_then(|x| x.as_u64()).unwrap_or(64) as usize;
                w.read(sid, max, out);
            }
            "drop" => {
                if w.subs.remove(&sid).is_some() {
                    out.ev(json!({"e": "drop", "sid": sid}));
                } else {
                    out.ev(json!({"e": "skip", "why": "no handle", "sid": sid}));
                }
            }
            "write" | "flush" | "close" => {
                let len = op.get("len").and_then(|x| x.as_u64()).unwrap_or(0) as usize;
                w.wop(&a, sid, len, out);
            }
            "budget" => {
                let n = vcommon::n(op, "n");
                w.ctl.set_write_budget(0, if n < 0 { None } else { Some(n as usize) });
                out.ev(json!({"e": "budget", "n": n}));
            }
            x => panic!("op {x}"),
        }
        w.snap(out);
        w.observe_wire(out);
    }
    // drain: the application now does what the mplex docs ask of it - accept everything, read every
    // substream it holds until nothing makes progress any more. The wire is writable again.
    w.ctl.set_write_budget(0, None);
    out.ev(json!({"e": "drain"}));
    let mut done: std::collections::BTreeSet<u64> = Default::default();
    let mut last = verif::snapshot(&w.m);
    for _round in 0..10_000 {
        let mut progress = false;
        while w.accept(out) {
            progress = true;
            w.snap(out);
            w.observe_wire(out);
        }
        w.snap(out);
        w.observe_wire(out);
        let sids: Vec<u64> = w.subs.keys().cloned().filter(|s| !done.contains(s)).collect();
        for sid in sids {
            loop {
                let p = w.read(sid, 64, out);
                w.snap(out);
                w.observe_wire(out);
                if p == 0 {
                    break;
                }
                progress = true;
                if p == 2 {
                    done.insert(sid);
                    break;
                }
            }
        }
        // a pending op may still have moved frames into the table (e.g. into the open buffer)
        let now = verif::snapshot(&w.m);
        if now != last {
            progress = true;
            last = now;
        }
        if !progress {
            break;
        }
    }
    // flush whatever the endpoint still wants to say (pending resets/closes); mplex only flushes
    // through a substream, so open one if the application holds none
    if w.subs.is_empty() {
        w.open(out);
        w.snap(out);
        w.observe_wire(out);
    }
    if let Some((&sid, _)) = w.subs.iter().next() {
        w.wop("flush", sid, 0, out);
        w.snap(out);
        w.observe_wire(out);
    }
    out.ev(json!({"e": "end"}));
}

// ------------------------------------------------------------------ schedule generators

fn inj(f: &str, sid: u64, len: usize) -> Value {
    json!({"a": "inj", "f": f, "sid": sid, "len": len})
}
fn op(a: &str, sid: u64) -> Value {
    json!({"a": a, "sid": sid})
}

/// fixed flood scenarios for every (max_sub, max_buf, behaviour) in a small grid
fn scenarios(out: &mut Out, level: u64) {
    let grid_sub: &[usize] = if level >= 2 { &[1, 2, 3, 5] } else { &[1, 2, 3] };
    let grid_buf: &[usize] = if level >= 2 { &[1, 2, 3, 4] } else { &[1, 2, 3] };
    for &max_sub in grid_sub {
        for &max_buf in grid_buf {
            for block in [true, false] {
                for chunk in [0usize, 1, 5] {
                    let base = |ops: Vec<Value>| json!({"max_sub": max_sub, "max_buf": max_buf, "block": block, "chunk": chunk, "ops": ops});
                    // (a) open flood: twice as many opens as allowed, nobody accepts until later
                    let mut ops = vec![];
                    for s in 0..(2 * max_sub as u64 + 1) {
                        ops.push(inj("open", s, 0));
                        ops.push(inj("data", s, 2));
                    }
                    ops.push(op("accept", 0));
                    ops.push(op("read", 0));
                    run(out, &base(ops.clone()));
                    // (b) the same with the local wire not writable: resets pile up in pending_frames
                    let mut ops2 = vec![json!({"a": "budget", "n": 0})];
                    ops2.extend(ops.clone());
                    ops2.push(op("drop", 0));
                    ops2.push(inj("open", 50, 0));
                    ops2.push(op("accept", 0));
                    ops2.push(json!({"a": "budget", "n": 3}));
                    ops2.push(op("accept", 0));
                    run(out, &base(ops2));
                    // (c) data flood on stream 1 while the application only reads stream 0
                    let mut ops = vec![inj("open", 0, 0), inj("open", 1, 0), op("accept", 0), op("accept", 0)];
                    for _ in 0..(max_buf + 3) {
                        ops.push(inj("data", 1, 3));
                    }
                    ops.push(inj("data", 0, 2));
                    ops.push(op("read", 0));
                    ops.push(op("read", 0));
                    ops.push(op("read", 1));
                    ops.push(inj("data", 1, 1));
                    ops.push(inj("close", 1, 0));
                    ops.push(inj("data", 0, 2));
                    ops.push(op("read", 0));
                    run(out, &base(ops));
                    // (d) flood on a stream that was not even accepted yet, poll_inbound only
                    let mut ops = vec![inj("open", 0, 0)];
                    for _ in 0..(2 * max_buf + 3) {
                        ops.push(inj("data", 0, 1));
                    }
                    ops.push(inj("open", 1, 0));
                    ops.push(inj("data", 1, 1));
                    ops.push(op("accept", 0));
                    ops.push(op("accept", 0));
                    ops.push(op("accept", 0));
                    run(out, &base(ops));
                    // (e) locally opened streams count towards the limit; the remote floods them too
                    let mut ops = vec![];
                    for _ in 0..(max_sub + 1) {
                        ops.push(op("open", 0));
                    }
                    ops.push(inj("open", 7, 0));
                    ops.push(op("flush", 100));
                    for _ in 0..(max_buf + 2) {
                        ops.push(inj("data", 100, 2));
                    }
                    ops.push(inj("data", 7, 2));
                    ops.push(op("accept", 0));
                    ops.push(op("drop", 100));
                    ops.push(inj("open", 8, 0));
                    ops.push(op("accept", 0));
                    ops.push(op("open", 0));
                    run(out, &base(ops));
                    // (g) the sink itself is back-pressured (Framed write buffer above its high-water mark because the
                    // wire is not writable and the application wrote > 128 KiB) while opens beyond the limit arrive:
                    // the queued resets must still reach the remote once the wire drains (seeded mutant C26-1)
                    if max_buf == 1 && chunk == 0 {
                        let mut ops = vec![json!({"a": "budget", "n": 0}), op("open", 0)];
                        for _ in 0..20 {
                            ops.push(json!({"a": "write", "sid": 100, "len": 8192}));
                        }
                        for s in 0..(max_sub as u64 + 2) {
                            ops.push(inj("open", s, 0));
                        }
                        ops.push(op("accept", 0));
                        ops.push(op("accept", 0));
                        ops.push(op("accept", 0));
                        ops.push(json!({"a": "budget", "n": -1}));
                        ops.push(op("accept", 0));
                        run(out, &base(ops));
                    }
                    // (h) a substream the remote has already closed is closed locally while the sink is back-pressured
                    // (> 128 KiB unflushed, wire not writable): poll_close is Pending once and completes after the wire
                    // drains; the substream must end fully closed, i.e. its reader still sees the buffered data and then
                    // EOF (seeded mutant C24-4: the pending path re-inserted the wrong state)
                    if max_buf == 1 && chunk == 0 && max_sub >= 2 {
                        let mut ops = vec![inj("open", 0, 0), op("accept", 0), json!({"a": "budget", "n": 0}), op("open", 0)];
                        for _ in 0..20 {
                            ops.push(json!({"a": "write", "sid": 100, "len": 8192}));
                        }
                        ops.push(inj("data", 0, 4));
                        ops.push(inj("close", 0, 0));
                        // an accept attempt takes both frames off the wire: the data is buffered, the remote's close is known
                        ops.push(op("accept", 0));
                        ops.push(json!({"a": "read", "sid": 0, "max": 2}));
                        ops.push(json!({"a": "close", "sid": 0}));
                        ops.push(json!({"a": "budget", "n": -1}));
                        ops.push(json!({"a": "close", "sid": 0}));
                        ops.push(json!({"a": "read", "sid": 0, "max": 64}));
                        ops.push(json!({"a": "read", "sid": 0, "max": 64}));
                        run(out, &base(ops));
                    }
                    // (f) zero-length data frames take buffer slots as well; remote reset after flood
                    let mut ops = vec![inj("open", 0, 0), inj("open", 1, 0), op("accept", 0)];
                    for i in 0..(max_buf + 2) {
                        ops.push(inj("data", 1, i % 2));
                    }
                    ops.push(op("read", 0));
                    ops.push(inj("reset", 1, 0));
                    ops.push(inj("data", 0, 1));
                    ops.push(op("read", 0));
                    ops.push(op("accept", 0));
                    run(out, &base(ops));
                }
            }
        }
    }
}

fn random(out: &mut Out, seed: u64, runs: u64) {
    let mut rng = vcommon::rng(seed ^ 0x26_11_17);
    for _ in 0..runs {
        let max_sub = rng.gen_range(1..=4usize);
        let max_buf = rng.gen_range(1..=4usize);
        let block = rng.gen_bool(0.5);
        let chunk = [0usize, 0, 1, 2, 7][rng.gen_range(0..5)];
        let n = rng.gen_range(8..=60);
        let mut ops = vec![];
        let mut next_in: u64 = 0; // fresh remote ids (never reused)
        let mut opened_in: Vec<u64> = vec![];
        let mut n_out: u64 = 0;
        let flooder = rng.gen_bool(0.6);
        for _ in 0..n {
            let known: Vec<u64> = opened_in.iter().cloned().chain((0..n_out).map(|i| 100 + i)).collect();
            let pick = |rng: &mut rand::rngs::StdRng| -> u64 {
                if known.is_empty() {
                    0
                } else if flooder && rng.gen_bool(0.6) {
                    known[known.len() - 1]
                } else {
                    known[rng.gen_range(0..known.len())]
                }
            };
            match rng.gen_range(0..100) {
                0..=14 => {
                    ops.push(inj("open", next_in, 0));
                    opened_in.push(next_in);
                    next_in += 1;
                }
                15..=49 => {
                    let s = pick(&mut rng);
                    let burst = if rng.gen_bool(0.3) { rng.gen_range(1..=max_buf + 3) } else { 1 };
                    for _ in 0..burst {
                        ops.push(inj("data", s, rng.gen_range(0..=4)));
                    }
                }
                50..=54 => ops.push(inj("close", pick(&mut rng), 0)),
                55..=57 => ops.push(inj("reset", pick(&mut rng), 0)),
                58..=69 => ops.push(op("accept", 0)),
                70..=84 => {
                    let mx = [1, 2, 64][rng.gen_range(0..3)];
                    ops.push(json!({"a": "read", "sid": pick(&mut rng), "max": mx}));
                }
                85..=88 => ops.push(op("drop", pick(&mut rng))),
                89..=92 => {
                    ops.push(op("open", 0));
                    n_out += 1; // may stay pending; then 100+n is simply an unknown handle
                }
                93..=94 => ops.push(json!({"a": "write", "sid": pick(&mut rng), "len": rng.gen_range(1..=5)})),
                95 => ops.push(op("flush", pick(&mut rng))),
                96..=97 => ops.push(op("close", pick(&mut rng))),
                _ => {
                    let b = [-1i64, 0, 1, 5][rng.gen_range(0..4)];
                    ops.push(json!({"a": "budget", "n": b}));
                }
            }
        }
        let split = [8192, 2, 3][rng.gen_range(0..3)];
        run(out, &json!({"max_sub": max_sub, "max_buf": max_buf, "block": block, "chunk": chunk, "split": split, "ops": ops}));
    }
}

pub fn main(a: &vcommon::Args) {
    vcommon::quiet_panics();
    match a.get(0) {
        "replay" => {
            let scheds = vcommon::read_schedules(a.get(1));
            let mut out = Out::create(a.get(2));
            for s in &scheds {
                run(&mut out, s);
            }
            println!("runs={} events={}", out.run, out.events);
            out.finish();
        }
        "scenarios" => {
            let mut out = Out::create(a.get(2));
            scenarios(&mut out, a.num(1));
            println!("runs={} events={}", out.run, out.events);
            out.finish();
        }
        "random" => {
            let mut out = Out::create(a.get(3));
            random(&mut out, a.num(1), a.num(2));
            println!("runs={} events={}", out.run, out.events);
            out.finish();
        }
        m => panic!("limits mode {m}"),
    }
}
