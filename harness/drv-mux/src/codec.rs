//! C25: the real mplex `Codec` (through `libp2p_mplex::verif::Codec`) fed chunk by chunk.
//!
//! Schedule: `{"frames":[F..], "cuts":[n..]}` or `{"garbage":[bytes..], "cuts":[n..]}`.
//! F = `{"k":"Open|Data|Close|Reset","num":"<u64>","role":"D|L","len":n,"seed":s}`  (encodable: real encoder)
//!   | `{"k":"Raw","ty":0..7,"num":"<u64>","len":declared,"have":n,"seed":s}`   (hand-built: hostile peer)
//! `cuts` are the sizes of the chunks fed one after the other; the remainder is fed as the last chunk.
//! Events: reset(frames with byte offsets) feed{n} out{..} none err{kind} post{r} end.
use bytes::{Bytes, BytesMut};
use libp2p_mplex::verif::{Codec, Endpoint, Frame, Kind, MAX_FRAME_SIZE};
use rand::Rng;
use vcommon::{json, Out, Value};

pub fn payload(seed: u64, len: usize) -> Vec<u8> {
    (0..len).map(|i| ((seed.wrapping_mul(31) + (i as u64).wrapping_mul(7) + (i as u64 >> 8)) & 0xff) as u8).collect()
}

/// small payload fingerprint (fits a TLC int)
pub fn fp(b: &[u8]) -> u64 {
    let mut a: u64 = 1;
    let mut s: u64 = 0;
    for &x in b {
        a = (a + x as u64) % 65521;
        s = (s + a) % 65521;
    }
    (s * 7 + a) % 1_000_003
}

pub fn varint(mut v: u64, out: &mut Vec<u8>) {
    loop {
        let b = (v & 0x7f) as u8;
        v >>= 7;
        if v == 0 {
            out.push(b);
            return;
        }
        out.push(b | 0x80);
    }
}

fn varint_len(v: u64) -> usize {
    let mut t = vec![];
    varint(v, &mut t);
    t.len()
}

fn role_of(s: &str) -> Endpoint {
    if s == "D" {
        Endpoint::Dialer
    } else {
        Endpoint::Listener
    }
}
fn role_str(r: Endpoint) -> &'static str {
    match r {
        Endpoint::Dialer => "D",
        Endpoint::Listener => "L",
    }
}
fn kind_str(k: Kind) -> &'static str {
    match k {
        Kind::Open => "Open",
        Kind::Data => "Data",
        Kind::Close => "Close",
        Kind::Reset => "Reset",
    }
}

/// header value (num << 3 | type) the mplex spec assigns to (kind, sender role)
fn type_of(kind: &str, role: &str) -> u64 {
    match (kind, role) {
        ("Open", _) => 0,
        ("Data", "L") => 1,
        ("Data", _) => 2,
        ("Close", "L") => 3,
        ("Close", _) => 4,
        ("Reset", "L") => 5,
        ("Reset", _) => 6,
        _ => panic!("kind"),
    }
}

fn run(out: &mut Out, sched: &Value) {
    let mut bytes: Vec<u8> = vec![];
    let mut descr: Vec<Value> = vec![];
    let mut enc_events: Vec<Value> = vec![];
    let garbage = sched.get("garbage").is_some();
    if garbage {
        bytes = sched["garbage"].as_array().unwrap().iter().map(|x| x.as_u64().unwrap() as u8).collect();
    } else {
        let mut enc = Codec::new();
        for (i, f) in sched["frames"].as_array().unwrap().iter().enumerate() {
            let k = vcommon::s(f, "k");
            let num: u64 = vcommon::s(f, "num").parse().unwrap();
            let len = vcommon::n(f, "len") as usize;
            let seed = f.get("seed").and_then(|x| x.as_u64()).unwrap_or(i as u64);
            let start = bytes.len();
            if k == "Raw" {
                let ty = vcommon::n(f, "ty") as u64;
                let have = vcommon::n(f, "have") as usize;
                let p = payload(seed, have);
                let mut h = vec![];
                varint((num << 3) | ty, &mut h);
                varint(len as u64, &mut h);
                let hend = start + h.len();
                bytes.extend_from_slice(&h);
                bytes.extend_from_slice(&p);
                // what a correct decoder must make of it
                let (ek, erole) = match ty {
                    0 => ("Open", "D"),
                    1 => ("Data", "L"),
                    2 => ("Data", "D"),
                    3 => ("Close", "L"),
                    4 => ("Close", "D"),
                    5 => ("Reset", "L"),
                    6 => ("Reset", "D"),
                    _ => ("T7", "D"),
                };
                let bad = if len > MAX_FRAME_SIZE {
                    "big"
                } else if ty == 7 {
                    "type"
                } else {
                    ""
                };
                let complete = have == len;
                descr.push(json!({"k": ek, "num": num.to_string(), "role": erole, "len": len, "have": have,
                    "fp": if ek == "Data" && complete { fp(&p) } else { fp(&[]) },
                    "start": start, "hend": hend, "end": bytes.len(), "bad": bad, "complete": complete}));
            } else {
                let role = vcommon::s(f, "role");
                let p = payload(seed, len);
                let kind = match k.as_str() {
                    "Open" => Kind::Open,
                    "Data" => Kind::Data,
                    "Close" => Kind::Close,
                    "Reset" => Kind::Reset,
                    _ => panic!("kind {k}"),
                };
                let fr = Frame {
                    kind,
                    num,
                    role: role_of(&role),
                    local_role: role_of(&role),
                    data: if kind == Kind::Data { Bytes::from(p.clone()) } else { Bytes::new() },
                };
                let mut dst = BytesMut::new();
                let r = vcommon::guard(|| enc.encode(fr, &mut dst));
                let elen = if kind == Kind::Data { len } else { 0 };
                let hl = varint_len((num << 3) | type_of(&k, &role)) + varint_len(elen as u64);
                match r {
                    Ok(Ok(())) => {
                        enc_events.push(json!({"e": "enc", "i": i + 1, "res": "ok", "n": dst.len()}));
                        bytes.extend_from_slice(&dst);
                        descr.push(json!({"k": k, "num": num.to_string(), "role": if k == "Open" { "D".to_string() } else { role.clone() },
                            "len": elen, "have": elen, "fp": if kind == Kind::Data { fp(&p) } else { fp(&[]) },
                            "start": start, "hend": start + hl, "end": start + hl + elen, "bad": "", "complete": true}));
                    }
                    Ok(Err(e)) => {
                        // the encoder refused (oversize): nothing goes on the wire, stop the stream here
                        enc_events.push(json!({"e": "enc", "i": i + 1, "res": "err", "n": elen, "kind": format!("{:?}", e.kind())}));
                        break;
                    }
                    Err(m) => {
                        enc_events.push(json!({"e": "panic", "msg": m}));
                        break;
                    }
                }
            }
        }
    }
    out.reset_with(json!({"garbage": garbage, "frames": descr, "total": bytes.len(), "max": MAX_FRAME_SIZE}), sched);
    for e in enc_events {
        out.ev(e);
    }
    let mut dec = Codec::new();
    let mut src = BytesMut::new();
    let mut cuts: Vec<usize> = sched["cuts"].as_array().map(|a| a.iter().map(|x| x.as_u64().unwrap() as usize).collect()).unwrap_or_default();
    cuts.push(usize::MAX);
    let mut pos = 0;
    let mut failed = false;
    for c in cuts {
        if pos >= bytes.len() {
            break;
        }
        let n = c.min(bytes.len() - pos);
        if n == 0 {
            continue;
        }
        src.extend_from_slice(&bytes[pos..pos + n]);
        pos += n;
        out.ev(json!({"e": "feed", "n": n}));
        loop {
            let r = vcommon::guard(|| dec.decode(&mut src));
            match r {
                Ok(Ok(Some(f))) => {
                    let ev = json!({"k": kind_str(f.kind), "num": f.num.to_string(), "rrole": role_str(f.role),
                        "lrole": role_str(f.local_role), "len": f.data.len(), "fp": fp(&f.data)});
                    if failed {
                        out.ev(json!({"e": "post", "r": "out", "f": ev}));
                        break;
                    }
                    let mut ev = ev;
                    ev["e"] = json!("out");
                    out.ev(ev);
                }
                Ok(Ok(None)) => {
                    out.ev(if failed { json!({"e": "post", "r": "none"}) } else { json!({"e": "none"}) });
                    break;
                }
                Ok(Err(e)) => {
                    if failed {
                        out.ev(json!({"e": "post", "r": "err"}));
                    } else {
                        out.ev(json!({"e": "err", "kind": format!("{:?}", e.kind()), "buffered": src.len()}));
                        failed = true;
                    }
                    break;
                }
                Err(m) => {
                    out.ev(json!({"e": "panic", "msg": m}));
                    failed = true;
                    break;
                }
            }
        }
    }
    out.ev(json!({"e": "end", "fed": pos}));
}

fn frame(k: &str, num: u64, role: &str, len: usize, seed: u64) -> Value {
    json!({"k": k, "num": num.to_string(), "role": role, "len": len, "seed": seed})
}
fn raw(ty: u64, num: u64, len: usize, have: usize, seed: u64) -> Value {
    json!({"k": "Raw", "ty": ty, "num": num.to_string(), "len": len, "have": have, "seed": seed})
}

/// byte length of the stream a schedule's frames produce (to enumerate split points)
fn stream_len(frames: &[Value]) -> usize {
    let mut n = 0;
    for f in frames {
        let k = vcommon::s(f, "k");
        let num: u64 = vcommon::s(f, "num").parse().unwrap();
        let len = vcommon::n(f, "len") as usize;
        if k == "Raw" {
            n += varint_len((num << 3) | vcommon::n(f, "ty") as u64) + varint_len(len as u64) + vcommon::n(f, "have") as usize;
        } else {
            let elen = if k == "Data" { len } else { 0 };
            n += varint_len((num << 3) | type_of(&k, &vcommon::s(f, "role"))) + varint_len(elen as u64) + elen;
        }
    }
    n
}

fn exhaustive(out: &mut Out, level: u64) {
    const IDMAX: u64 = (1 << 61) - 1; // largest id whose header fits a u64
    let ids = [0u64, 1, 127 >> 3, 128 >> 3, (1 << 60) - 1, IDMAX];
    let tail = frame("Data", 1, "L", 2, 9);
    let mut bases: Vec<Vec<Value>> = vec![];
    for &id in &ids {
        for role in ["D", "L"] {
            for k in ["Open", "Close", "Reset"] {
                bases.push(vec![frame(k, id, role, 0, 1), tail.clone()]);
            }
            for len in [0usize, 1, 5, 127, 128] {
                bases.push(vec![frame("Data", id, role, len, len as u64 + 3), tail.clone()]);
            }
        }
        // hostile but well-formed: payload on a non-data frame, unknown type, oversize declarations
        for ty in [0u64, 3, 6] {
            bases.push(vec![raw(ty, id, 3, 3, 5), tail.clone()]);
        }
        for len in [0usize, 2] {
            bases.push(vec![tail.clone(), raw(7, id, len, len, 5), tail.clone()]);
        }
        for ty in [0u64, 1, 2, 7] {
            for have in [0usize, 1, 4] {
                bases.push(vec![tail.clone(), raw(ty, id, MAX_FRAME_SIZE + 1, have, 5)]);
            }
        }
        bases.push(vec![raw(2, id, u32::MAX as usize, 2, 5)]);
    }
    for frames in &bases {
        let n = stream_len(frames);
        // one chunk, all single split points, byte-by-byte
        run(out, &json!({"frames": frames, "cuts": []}));
        for c in 1..n {
            run(out, &json!({"frames": frames, "cuts": [c]}));
        }
        run(out, &json!({"frames": frames, "cuts": vec![1; n]}));
        if level >= 2 && n <= 40 {
            for a in 1..n {
                for b in 1..(n - a) {
                    run(out, &json!({"frames": frames, "cuts": [a, b]}));
                }
            }
        }
    }
    // frames at the size limit: header split points and one mid-body split
    for role in ["D", "L"] {
        for len in [MAX_FRAME_SIZE - 1, MAX_FRAME_SIZE] {
            let frames = vec![frame("Data", 5, role, len, 11), tail.clone()];
            for cuts in [vec![], vec![1], vec![2], vec![3], vec![4], vec![5], vec![4, len / 2], vec![4 + len], vec![4 + len, 1], vec![1, 1, 1, 1, 1]] {
                run(out, &json!({"frames": frames, "cuts": cuts}));
            }
        }
        // the encoder must refuse an oversize payload
        run(out, &json!({"frames": [tail.clone(), frame("Data", 5, role, MAX_FRAME_SIZE + 1, 11), tail.clone()], "cuts": [3]}));
    }
}

fn random(out: &mut Out, seed: u64, runs: u64) {
    let mut rng = vcommon::rng(seed ^ 0x25c0dec);
    for _ in 0..runs {
        let mode = rng.gen_range(0..10);
        let mut frames = vec![];
        let nf = rng.gen_range(1..=6);
        for _ in 0..nf {
            let num = match rng.gen_range(0..4) {
                0 => rng.gen_range(0..4),
                1 => rng.gen_range(0..1000),
                2 => rng.gen::<u64>() >> 3,
                _ => rng.gen::<u64>() >> rng.gen_range(3..64),
            };
            let role = if rng.gen_bool(0.5) { "D" } else { "L" };
            let len = match rng.gen_range(0..5) {
                0 => 0,
                1 => rng.gen_range(0..4),
                2 => rng.gen_range(120..136),
                3 => rng.gen_range(0..400),
                _ => rng.gen_range(16380..16390),
            };
            let k = ["Open", "Data", "Data", "Data", "Close", "Reset"][rng.gen_range(0..6)];
            if rng.gen_range(0..8) == 0 {
                frames.push(raw(rng.gen_range(0..7), num, len.min(50), len.min(50), rng.gen()));
            } else {
                frames.push(frame(k, num, role, len, rng.gen::<u32>() as u64));
            }
        }
        if mode == 0 {
            frames.push(raw(7, rng.gen_range(0..100), rng.gen_range(0..10), 0, 1));
            let l = vcommon::n(frames.last().unwrap(), "len");
            frames.last_mut().unwrap()["have"] = json!(l);
        } else if mode == 1 {
            let have = rng.gen_range(0..6);
            let extra = [1usize, 2, 1000, 1 << 22, (1 << 31) - 1 - MAX_FRAME_SIZE][rng.gen_range(0..5)];
            frames.push(raw(rng.gen_range(0..8), rng.gen_range(0..100), MAX_FRAME_SIZE + extra, have, 1));
        }
        let total = stream_len(&frames);
        let mut cuts = vec![];
        let style = rng.gen_range(0..4);
        let mut left = total;
        while left > 0 && cuts.len() < 4000 {
            let c = match style {
                0 => 1,
                1 => rng.gen_range(1..=3),
                2 => rng.gen_range(1..=64),
                _ => rng.gen_range(1..=left),
            }
            .min(left);
            cuts.push(c);
            left -= c;
        }
        if cuts.len() >= 4000 {
            cuts.truncate(40);
        }
        if mode >= 8 {
            // garbage: a valid stream with a few bytes overwritten, or pure noise
            let n = rng.gen_range(1..=96);
            let g: Vec<u8> = (0..n).map(|_| if rng.gen_bool(0.3) { rng.gen_range(0..8) } else { rng.gen() }).collect();
            let cuts: Vec<usize> = (0..rng.gen_range(0..12)).map(|_| rng.gen_range(1..=8)).collect();
            run(out, &json!({"garbage": g, "cuts": cuts}));
        } else {
            run(out, &json!({"frames": frames, "cuts": cuts}));
        }
    }
}

pub fn main(a: &vcommon::Args) {
    vcommon::quiet_panics();
    match a.get(0) {
        "replay" => {
            let scheds = vcommon::read_schedules(a.get(1));
            let mut out = Out::create(a.get(2));
            for s in &scheds {
                run(&mut out, s);
            }
            println!("runs={} events={}", out.run, out.events);
            out.finish();
        }
        "exhaustive" => {
            let mut out = Out::create(a.get(2));
            exhaustive(&mut out, a.num(1));
            println!("runs={} events={}", out.run, out.events);
            out.finish();
        }
        "random" => {
            let mut out = Out::create(a.get(3));
            random(&mut out, a.num(1), a.num(2));
            println!("runs={} events={}", out.run, out.events);
            out.finish();
        }
        m => panic!("codec mode {m}"),
    }
}
