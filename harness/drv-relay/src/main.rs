//! Driver for libp2p-relay components: rate limiters (C48), copy loop (C49), behaviour limits (C47).
mod ratelimit;

fn main() {
    let a = vcommon::Args::parse();
    match a.mode.as_str() {
        "ratelimit" => ratelimit::main(&a),
        m => {
            eprintln!("unknown mode {m}");
            std::process::exit(2)
        }
    }
}
