//! C48: drive the real boxed rate limiters (`Config::reservation_rate_per_peer/per_ip`) with
//! synthetic, non-decreasing instants. Trace: one `try` event per call with its result.
use std::{num::NonZeroU32, time::Duration};

use libp2p_core::Multiaddr;
use libp2p_identity::PeerId;
use libp2p_relay::{verif::RateLimiter, Config};
use rand::Rng;
use vcommon::{json, Out, Value};

/// one abstract time unit in microseconds (the limiter computes in micros)
const UNIT_US: u64 = 1000;

fn limiter(kind: &str, limit: u32, interval: u64) -> Box<dyn RateLimiter> {
    let mut c = Config::default();
    c.reservation_rate_limiters.clear();
    let l = NonZeroU32::new(limit).unwrap();
    let iv = Duration::from_micros(interval * UNIT_US);
    let mut c = match kind {
        "peer" => c.reservation_rate_per_peer(l, iv),
        "ip" => c.reservation_rate_per_ip(l, iv),
        _ => panic!("kind"),
    };
    assert_eq!(c.reservation_rate_limiters.len(), 1);
    c.reservation_rate_limiters.pop().unwrap()
}

fn run(out: &mut Out, sched: &Value, peers: &[PeerId]) {
    let kind = vcommon::s(sched, "kind");
    let limit = vcommon::n(sched, "limit") as u32;
    let interval = vcommon::n(sched, "interval") as u64;
    out.reset_with(json!({"kind": kind, "limit": limit, "interval": interval}), sched);
    let mut lim = limiter(&kind, limit, interval);
    let base = std::time::Instant::now();
    // web_time::Instant is std::time::Instant on native targets
    let mut now: u64 = 0;
    for op in sched["ops"].as_array().unwrap() {
        match vcommon::s(op, "a").as_str() {
            "tick" => now += vcommon::n(op, "d") as u64,
            "try" => {
                let p = vcommon::n(op, "peer") as usize;
                let ip = vcommon::n(op, "ip") as u8;
                let addr: Multiaddr = format!("/ip4/10.0.0.{}/tcp/{}", ip, 1000 + p).parse().unwrap();
                let t = base + Duration::from_micros(now * UNIT_US);
                let r = vcommon::guard(|| lim.try_next(peers[p], &addr, t));
                match r {
                    Ok(res) => out.ev(json!({"e": "try", "peer": p, "ip": ip, "now": now, "res": res})),
                    Err(m) => out.ev(json!({"e": "panic", "msg": m})),
                }
            }
            x => panic!("op {x}"),
        }
    }
}

pub fn main(a: &vcommon::Args) {
    vcommon::quiet_panics();
    let peers: Vec<PeerId> = (0..4).map(|_| PeerId::random()).collect();
    let sub = a.get(0);
    match sub {
        "replay" => {
            let scheds = vcommon::read_schedules(a.get(1));
            let mut out = Out::create(a.get(2));
            for s in &scheds {
                run(&mut out, s, &peers);
            }
            println!("runs={} events={}", out.run, out.events);
            out.finish();
        }
        // exhaustive: every op sequence of length <= n over {try(p,ip) : p,ip in 0..2} + {tick 1, tick I, tick L*I}
        "exhaustive" => {
            let n = a.num(1) as usize;
            let mut out = Out::create(a.get(2));
            for kind in ["peer", "ip"] {
                for limit in 1..=2u32 {
                    for interval in 1..=2u64 {
                        let mut alphabet: Vec<Value> = vec![];
                        for p in 0..2 {
                            for ip in 0..2 {
                                alphabet.push(json!({"a": "try", "peer": p, "ip": ip}));
                            }
                        }
                        alphabet.push(json!({"a": "tick", "d": 1}));
                        if interval > 1 {
                            alphabet.push(json!({"a": "tick", "d": interval}));
                        }
                        if limit as u64 * interval > interval {
                            alphabet.push(json!({"a": "tick", "d": limit as u64 * interval}));
                        }
                        let k = alphabet.len();
                        let mut idx = vec![0usize; n];
                        loop {
                            let ops: Vec<Value> = idx.iter().map(|&i| alphabet[i].clone()).collect();
                            let s = json!({"kind": kind, "limit": limit, "interval": interval, "ops": ops});
                            run(&mut out, &s, &peers);
                            let mut j = 0;
                            while j < n {
                                idx[j] += 1;
                                if idx[j] < k {
                                    break;
                                }
                                idx[j] = 0;
                                j += 1;
                            }
                            if j == n {
                                break;
                            }
                        }
                    }
                }
            }
            println!("runs={} events={}", out.run, out.events);
            out.finish();
        }
        "random" => {
            let seed = a.num(1);
            let runs = a.num(2);
            let mut out = Out::create(a.get(3));
            let mut rng = vcommon::rng(seed);
            for _ in 0..runs {
                let kind = if rng.gen_bool(0.5) { "peer" } else { "ip" };
                let limit = rng.gen_range(1..=4u32);
                let interval = rng.gen_range(1..=5u64);
                let len = rng.gen_range(5..=40);
                let mut ops = vec![];
                for _ in 0..len {
                    if rng.gen_bool(0.65) {
                        ops.push(json!({"a": "try", "peer": rng.gen_range(0..3), "ip": rng.gen_range(0..3)}));
                    } else {
                        let d = match rng.gen_range(0..4) {
                            0 => 1,
                            1 => interval,
                            2 => limit as u64 * interval,
                            _ => rng.gen_range(1..=(limit as u64 * interval + 2)),
                        };
                        ops.push(json!({"a": "tick", "d": d}));
                    }
                }
                let s = json!({"kind": kind, "limit": limit, "interval": interval, "ops": ops});
                run(&mut out, &s, &peers);
            }
            println!("runs={} events={}", out.run, out.events);
            out.finish();
        }
        m => panic!("ratelimit mode {m}"),
    }
}
