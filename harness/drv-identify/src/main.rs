//! Driver for libp2p-identify: only authenticated peer information is reported (C46).
mod auth;

fn main() {
    let a = vcommon::Args::parse();
    match a.mode.as_str() {
        "auth" => auth::main(&a),
        m => {
            eprintln!("unknown mode {m}");
            std::process::exit(2)
        }
    }
}
