//! C46: the REAL identify `Behaviour` and its REAL per-connection `Handler`. The driver plays the
//! Swarm and a (possibly lying) remote peer: it writes hand-encoded protobuf `Identify` messages
//! (identify responses on outbound streams, pushes on inbound streams) with any combination of
//! public key, signed peer record and listen addresses, and records every `Event::Received`.
//!
//! The connection's authenticated peer is A; B is another identity.
//! Schedule: {"ops":[ {"k":"identify"|"push", "key":"A"|"B"|"none"|"bad", "rec":"none"|"A"|"B"|"tampered"|"junk",
//!                     "plain":[p2p..], "recaddrs":[p2p..]} .. ]}
//!   p2p suffix of each address: "none" | "self" (/p2p/A) | "other" (/p2p/B) | "relay" (/p2p/B/p2p-circuit) |
//!                               "relayother" (/p2p/A/p2p-circuit/p2p/B)
//! Every address gets a unique port = 100*msg + index (plain: 10.0.0.1, record: 10.1.0.1) so that the origin of a
//! reported address is visible.
use std::time::Duration;

use futures::future;
use libp2p_core::{multiaddr::Protocol, muxing::SubstreamBox, transport::PortUse, ConnectedPoint, Endpoint, Multiaddr, PeerRecord};
use libp2p_identify as identify;
use libp2p_identity::{Keypair, PeerId};
use libp2p_swarm::{
    behaviour::{ConnectionEstablished, FromSwarm},
    handler::{ConnectionEvent, ConnectionHandlerEvent, FullyNegotiatedInbound, FullyNegotiatedOutbound},
    ConnectionHandler, ConnectionId, NetworkBehaviour, Stream, ToSwarm,
};
use rand::Rng;
use vcommon::{exec::Det, json, pipe, Out, Value};

fn stream(det: &Det, proto: &'static str) -> (Stream, pipe::PipeCtl) {
    let (a, b, ctl) = pipe::pipe(true);
    let d = multistream_select::dialer_select_proto(a, vec![proto], multistream_select::Version::V1);
    let l = multistream_select::listener_select_proto(SubstreamBox::new(b), vec![proto]);
    let mut both = Box::pin(future::join(d, l));
    let (rd, rl) = det.run_until_stalled(both.as_mut(), 1000).expect("negotiation completes");
    let (_, remote_io) = rd.expect("dialer");
    let (_, io) = rl.expect("listener");
    std::mem::forget(remote_io);
    (libp2p_swarm::verif::stream(io), ctl)
}

fn varint(mut n: usize, out: &mut Vec<u8>) {
    loop {
        let b = (n & 0x7f) as u8;
        n >>= 7;
        if n == 0 {
            out.push(b);
            return;
        }
        out.push(b | 0x80);
    }
}

fn field(no: u8, bytes: &[u8], out: &mut Vec<u8>) {
    out.push((no << 3) | 2);
    varint(bytes.len(), out);
    out.extend_from_slice(bytes);
}

fn suffix(a: &mut Multiaddr, kind: &str, pa: PeerId, pb: PeerId) {
    match kind {
        "none" => {}
        "self" => a.push(Protocol::P2p(pa)),
        "other" => a.push(Protocol::P2p(pb)),
        "relay" => {
            a.push(Protocol::P2p(pb));
            a.push(Protocol::P2pCircuit);
        }
        "relayother" => {
            a.push(Protocol::P2p(pa));
            a.push(Protocol::P2pCircuit);
            a.push(Protocol::P2p(pb));
        }
        x => panic!("suffix {x}"),
    }
}

/// (ip third octet: 0 plain / 1 record, port) -> abstract view of a reported address
fn view(a: &Multiaddr, pa: PeerId) -> Value {
    let mut src = "unknown";
    let mut port = -1i64;
    let mut last = "none";
    for p in a.iter() {
        match p {
            Protocol::Ip4(ip) => src = if ip.octets()[1] == 1 { "rec" } else { "plain" },
            Protocol::Tcp(t) => port = t as i64,
            Protocol::P2p(id) => last = if id == pa { "self" } else { "other" },
            _ => last = "none",
        }
    }
    json!({"src": src, "id": port, "p2p": last})
}

fn run(out: &mut Out, sched: &Value, ka: &Keypair, kb: &Keypair, local: &Keypair) {
    out.reset(sched);
    let pa = ka.public().to_peer_id();
    let pb = kb.public().to_peer_id();
    let det = Det::new();
    let cfg = identify::Config::new("/verif/1".into(), local.public()).with_interval(Duration::from_secs(3600));
    let mut beh = identify::Behaviour::new(cfg);
    let cid = ConnectionId::new_unchecked(7);
    let remote: Multiaddr = "/ip4/10.9.9.9/tcp/4001".parse().unwrap();
    let mut handler = beh
        .handle_established_outbound_connection(cid, pa, &remote, Endpoint::Dialer, PortUse::Reuse)
        .expect("identify never denies");
    let ep = ConnectedPoint::Dialer { address: remote.clone(), role_override: Endpoint::Dialer, port_use: PortUse::Reuse };
    beh.on_swarm_event(FromSwarm::ConnectionEstablished(ConnectionEstablished {
        peer_id: pa,
        connection_id: cid,
        endpoint: &ep,
        failed_addresses: &[],
        other_established: 0,
    }));
    for (mi, op) in sched["ops"].as_array().unwrap().iter().enumerate() {
        let mi = mi + 1;
        let kind = vcommon::s(op, "k");
        let key = vcommon::s(op, "key");
        let rec = vcommon::s(op, "rec");
        let plain: Vec<String> = op["plain"].as_array().unwrap().iter().map(|x| x.as_str().unwrap().to_string()).collect();
        let recaddrs: Vec<String> = op["recaddrs"].as_array().unwrap().iter().map(|x| x.as_str().unwrap().to_string()).collect();
        let r = vcommon::guard(|| {
            let mut evs = vec![];
            // ---- the remote's message ----
            let mut msg = vec![];
            match key.as_str() {
                "A" => field(1, &ka.public().encode_protobuf(), &mut msg),
                "B" => field(1, &kb.public().encode_protobuf(), &mut msg),
                "bad" => field(1, &[0xff, 0x01, 0x02], &mut msg),
                _ => {}
            }
            let mut plain_ids = vec![];
            for (i, k) in plain.iter().enumerate() {
                let port = (100 * mi + i) as u16;
                let mut a: Multiaddr = format!("/ip4/10.0.0.1/tcp/{port}").parse().unwrap();
                suffix(&mut a, k, pa, pb);
                field(2, &a.to_vec(), &mut msg);
                plain_ids.push(port as i64);
            }
            field(4, &"/ip4/10.8.8.8/tcp/1".parse::<Multiaddr>().unwrap().to_vec(), &mut msg);
            field(3, b"/verif/proto/1", &mut msg);
            field(5, b"/verif/1", &mut msg);
            field(6, b"lying-remote/0", &mut msg);
            let mut rec_ids = vec![];
            if rec != "none" {
                let mut addrs = vec![];
                for (i, k) in recaddrs.iter().enumerate() {
                    let port = (100 * mi + 50 + i) as u16;
                    let mut a: Multiaddr = format!("/ip4/10.1.0.1/tcp/{port}").parse().unwrap();
                    suffix(&mut a, k, pa, pb);
                    addrs.push(a);
                    rec_ids.push(port as i64);
                }
                let signer = if rec == "B" { kb } else { ka };
                let mut bytes = PeerRecord::new(signer, addrs).unwrap().into_signed_envelope().into_protobuf_encoding();
                if rec == "tampered" {
                    // flip one bit inside the signed payload (an address byte near the end of the payload)
                    let n = bytes.len();
                    let pos = n - 64 - 8;
                    bytes[pos] ^= 0x01;
                }
                if rec == "junk" {
                    bytes = vec![0x0a, 0x03, 1, 2, 3];
                }
                field(8, &bytes, &mut msg);
            }
            let mut frame = vec![];
            varint(msg.len(), &mut frame);
            frame.extend_from_slice(&msg);
            evs.push(json!({"e": "msg", "k": kind, "key": key, "rec": rec, "plain": plain_ids, "recaddrs": rec_ids}));
            // ---- deliver it on a real stream to the real handler ----
            if kind == "identify" {
                let (s, ctl) = stream(&det, "/ipfs/id/1.0.0");
                ctl.inject(0, &frame);
                ctl.close_dir(0);
                handler.on_connection_event(ConnectionEvent::FullyNegotiatedOutbound(FullyNegotiatedOutbound { protocol: future::Either::Left(s), info: () }));
            } else {
                let (s, ctl) = stream(&det, "/ipfs/id/push/1.0.0");
                ctl.inject(0, &frame);
                ctl.close_dir(0);
                handler.on_connection_event(ConnectionEvent::FullyNegotiatedInbound(FullyNegotiatedInbound { protocol: future::Either::Right(s), info: () }));
            }
            // ---- run handler and behaviour to quiescence ----
            for _ in 0..50 {
                let mut progress = false;
                loop {
                    let before = det.wakes();
                    let mut cx = det.cx();
                    match handler.poll(&mut cx) {
                        std::task::Poll::Ready(ConnectionHandlerEvent::NotifyBehaviour(ev)) => {
                            progress = true;
                            beh.on_connection_handler_event(pa, cid, ev);
                        }
                        std::task::Poll::Ready(_) => progress = true,
                        std::task::Poll::Pending => {
                            if det.wakes() == before {
                                break;
                            }
                        }
                    }
                }
                for it in vcommon::exec::drain(&det, 64, |cx| beh.poll(cx)) {
                    progress = true;
                    match it {
                        ToSwarm::GenerateEvent(identify::Event::Received { peer_id, info, .. }) => {
                            let keyok = info.public_key.to_peer_id() == pa && peer_id == pa;
                            let addrs: Vec<Value> = info.listen_addrs.iter().map(|a| view(a, pa)).collect();
                            evs.push(json!({"e": "received", "keyok": keyok, "addrs": addrs, "hasrec": info.signed_peer_record.is_some()}));
                        }
                        ToSwarm::GenerateEvent(identify::Event::Error { .. }) => evs.push(json!({"e": "error"})),
                        ToSwarm::NewExternalAddrOfPeer { peer_id, address } => {
                            evs.push(json!({"e": "peer_addr", "peerok": peer_id == pa, "addr": view(&address, pa)}));
                        }
                        ToSwarm::NotifyHandler { event, .. } => handler.on_behaviour_event(event),
                        _ => {}
                    }
                }
                if !progress {
                    break;
                }
            }
            evs
        });
        match r {
            Ok(evs) => {
                for e in evs {
                    out.ev(e)
                }
            }
            Err(m) => {
                out.ev(json!({"e": "panic", "msg": m}));
                break;
            }
        }
    }
}

const SUFFIX: [&str; 5] = ["none", "self", "other", "relay", "relayother"];
const KEYS: [&str; 4] = ["A", "B", "none", "bad"];
const RECS: [&str; 5] = ["none", "A", "B", "tampered", "junk"];

pub fn main(a: &vcommon::Args) {
    vcommon::quiet_panics();
    let mk = |b: u8| {
        let mut x = [0u8; 32];
        x[0] = b;
        x[31] = 0x46;
        Keypair::ed25519_from_bytes(x).unwrap()
    };
    let (ka, kb, local) = (mk(1), mk(2), mk(3));
    match a.get(0) {
        "replay" => {
            let scheds = vcommon::read_schedules(a.get(1));
            let mut out = Out::create(a.get(2));
            for s in &scheds {
                run(&mut out, s, &ka, &kb, &local);
            }
            println!("runs={} events={}", out.run, out.events);
            out.finish();
        }
        // the full grid of single messages (kind x key x record) with a fixed mixed address list, alone and
        // after an honest identify, and followed by an empty push
        "grid" => {
            let mut out = Out::create(a.get(1));
            let honest = json!({"k": "identify", "key": "A", "rec": "A", "plain": ["none", "self"], "recaddrs": ["none", "self"]});
            let empty_push = json!({"k": "push", "key": "none", "rec": "none", "plain": [], "recaddrs": []});
            for kind in ["identify", "push"] {
                for key in KEYS {
                    for rec in RECS {
                        let m = json!({"k": kind, "key": key, "rec": rec, "plain": SUFFIX, "recaddrs": SUFFIX});
                        run(&mut out, &json!({"ops": [m.clone()]}), &ka, &kb, &local);
                        run(&mut out, &json!({"ops": [honest.clone(), m.clone()]}), &ka, &kb, &local);
                        run(&mut out, &json!({"ops": [honest.clone(), m.clone(), empty_push.clone()]}), &ka, &kb, &local);
                        run(&mut out, &json!({"ops": [m.clone(), empty_push.clone(), honest.clone()]}), &ka, &kb, &local);
                    }
                }
            }
            println!("runs={} events={}", out.run, out.events);
            out.finish();
        }
        "random" => {
            let seed = a.num(1);
            let runs = a.num(2);
            let mut out = Out::create(a.get(3));
            let mut rng = vcommon::rng(seed.wrapping_mul(7919).wrapping_add(46));
            for _ in 0..runs {
                let n = rng.gen_range(1..=5);
                let mut ops = vec![];
                for _ in 0..n {
                    let kind = if rng.gen_bool(0.5) { "identify" } else { "push" };
                    let key = if rng.gen_bool(0.5) { "A" } else { KEYS[rng.gen_range(0..4)] };
                    let rec = RECS[rng.gen_range(0..5)];
                    let np = rng.gen_range(0..=3);
                    let nr = rng.gen_range(0..=3);
                    let plain: Vec<&str> = (0..np).map(|_| SUFFIX[rng.gen_range(0..5)]).collect();
                    let recaddrs: Vec<&str> = (0..nr).map(|_| SUFFIX[rng.gen_range(0..5)]).collect();
                    ops.push(json!({"k": kind, "key": key, "rec": rec, "plain": plain, "recaddrs": recaddrs}));
                }
                run(&mut out, &json!({"ops": ops}), &ka, &kb, &local);
            }
            println!("runs={} events={}", out.run, out.events);
            out.finish();
        }
        m => {
            eprintln!("unknown sub-mode {m}");
            std::process::exit(2)
        }
    }
}
