//! X05b: the REAL AutoNAT v2 client (`libp2p_autonat::v2::client::Behaviour`) with its REAL handlers
//! (`client/handler/dial_request.rs`, `dial_back.rs`, wire codec). The driver plays the Swarm
//! (address candidates, outbound connections to servers, inbound connections) and the servers:
//! DialDataRequests, DialResponses and DialBacks are crafted frames on negotiated in-memory streams;
//! everything the client writes (requests, data, dial-back acknowledgements) is parsed and recorded.
//! The probe timer is not used (interval 1 h): the op "tick" runs the probing step through the
//! `verif_tick` hook.
//!
//! Schedule {"seed","maxc","ops":[..]}; entities are numbered in order of creation; `i` selects the
//! i-th (mod count) eligible entity.
//!   {"a":"cand","k"}                    NewExternalAddrCandidate (address k)
//!   {"a":"out","p","sup"}               outbound connection to peer p; sup: the peer announces the dial-request protocol
//!   {"a":"in","p"}                      inbound connection from peer p
//!   {"a":"close","i"}                   the i-th open connection closes
//!   {"a":"tick"}                        probing step
//!   {"a":"open","i","r"}                the oldest substream request of the i-th connection that has one: ok|unsup|timeout|io
//!   {"a":"srv","i","m",..}              the server writes on the i-th request stream still open:
//!        m = "data_req" {"idx","n"} | "resp" {"status","idx","ds"} | "junk" | "eof"
//!   {"a":"back","i","q"}                a DialBack arrives on a new stream of the i-th inbound connection, carrying the
//!        nonce of request q (mod count; q = -1: a nonce nobody sent)
use std::{task::Poll, time::Duration};

use futures::future;
use libp2p_autonat::v2::client;
use libp2p_core::{multiaddr::Protocol, muxing::SubstreamBox, transport::PortUse, ConnectedPoint, Endpoint, Multiaddr};
use libp2p_identity::PeerId;
use libp2p_swarm::{
    behaviour::{ConnectionClosed, ConnectionEstablished, FromSwarm, NewExternalAddrCandidate},
    derive_prelude::Either,
    handler::{ConnectionEvent, ConnectionHandlerEvent, DialUpgradeError, FullyNegotiatedInbound, FullyNegotiatedOutbound, StreamUpgradeError},
    ConnectionHandler, ConnectionId, NetworkBehaviour, NotifyHandler, Stream, StreamProtocol, THandler, ToSwarm,
};
use rand::Rng;
use rand10::SeedableRng;
use vcommon::{exec::Det, json, pipe, Out, Value};

const NP: usize = 3;
const REQ: &str = "/libp2p/autonat/2/dial-request";
const BACK: &str = "/libp2p/autonat/2/dial-back";

type Beh = client::Behaviour<rand10::rngs::StdRng>;
type Hdl = THandler<Beh>;

fn stream(det: &Det, proto: &'static str) -> (Stream, pipe::PipeCtl) {
    let (a, b, ctl) = pipe::pipe(true);
    let d = multistream_select::dialer_select_proto(a, vec![proto], multistream_select::Version::V1);
    let l = multistream_select::listener_select_proto(SubstreamBox::new(b), vec![proto]);
    let mut both = Box::pin(future::join(d, l));
    let (rd, rl) = det.run_until_stalled(both.as_mut(), 1000).expect("negotiation completes");
    let (_, remote_io) = rd.expect("dialer");
    let (_, io) = rl.expect("listener");
    std::mem::forget(remote_io);
    (libp2p_swarm::verif::stream(io), ctl)
}

fn varint(mut n: u64, out: &mut Vec<u8>) {
    loop {
        let b = (n & 0x7f) as u8;
        n >>= 7;
        if n == 0 {
            out.push(b);
            return;
        }
        out.push(b | 0x80);
    }
}

fn read_varint(b: &[u8]) -> Option<(u64, usize)> {
    let mut v = 0u64;
    for (i, x) in b.iter().enumerate().take(10) {
        v |= ((x & 0x7f) as u64) << (7 * i);
        if x & 0x80 == 0 {
            return Some((v, i + 1));
        }
    }
    None
}

fn frame(msg: &[u8]) -> Vec<u8> {
    let mut f = vec![];
    varint(msg.len() as u64, &mut f);
    f.extend_from_slice(msg);
    f
}

fn take_frames(buf: &mut Vec<u8>) -> Vec<Vec<u8>> {
    let mut out = vec![];
    loop {
        let Some((len, n)) = read_varint(buf) else { break };
        let len = len as usize;
        if buf.len() < n + len {
            break;
        }
        out.push(buf[n..n + len].to_vec());
        buf.drain(..n + len);
    }
    out
}

/// Message { dialDataRequest = 3 { uint32 addrIdx = 1; uint64 numBytes = 2 } }
fn data_request(idx: u64, n: u64) -> Vec<u8> {
    let mut inner = vec![];
    if idx != 0 {
        inner.push(0x08);
        varint(idx, &mut inner);
    }
    if n != 0 {
        inner.push(0x10);
        varint(n, &mut inner);
    }
    let mut msg = vec![0x1a];
    varint(inner.len() as u64, &mut msg);
    msg.extend_from_slice(&inner);
    frame(&msg)
}

/// Message { dialResponse = 2 { status = 1; addrIdx = 2; dialStatus = 3 } }
fn dial_response(status: u64, idx: u64, ds: u64) -> Vec<u8> {
    let mut inner = vec![];
    for (tag, v) in [(0x08u8, status), (0x10, idx), (0x18, ds)] {
        if v != 0 {
            inner.push(tag);
            varint(v, &mut inner);
        }
    }
    let mut msg = vec![0x12];
    varint(inner.len() as u64, &mut msg);
    msg.extend_from_slice(&inner);
    frame(&msg)
}

/// DialBack { fixed64 nonce = 1 }
fn dial_back(nonce: u64) -> Vec<u8> {
    let mut msg = vec![];
    if nonce != 0 {
        msg.push(0x09);
        msg.extend_from_slice(&nonce.to_le_bytes());
    }
    frame(&msg)
}

struct Strm {
    ctl: pipe::PipeCtl,
    buf: Vec<u8>,
}

struct Conn {
    id: ConnectionId,
    p: usize,
    outbound: bool,
    ep: ConnectedPoint,
    handler: Option<Hdl>,
    want: usize,
    backs: Vec<(Strm, i64)>, // dial-back streams: (stream, nonce id)
}

struct Req {
    c: usize,
    strm: Strm,
    /// request number on the wire (tx_req seen) or -1
    q: i64,
    data: usize,
    closed: bool,
}

struct World {
    beh: Beh,
    peers: Vec<PeerId>,
    conns: Vec<Conn>,
    reqs: Vec<Req>,
    nonces: Vec<u64>,
    det: Det,
    evs: Vec<Value>,
}

static NEXT: std::sync::atomic::AtomicUsize = std::sync::atomic::AtomicUsize::new(3_000_000);

fn cand_addr(k: usize) -> Multiaddr {
    format!("/ip4/8.8.{}.{}/tcp/4001", k / 200, k % 200 + 1).parse().unwrap()
}

fn cand_k(a: &Multiaddr) -> i64 {
    for c in a.iter() {
        if let Protocol::Ip4(ip) = c {
            let x = ip.octets();
            if x[0] == 8 && x[1] == 8 {
                return x[2] as i64 * 200 + x[3] as i64 - 1;
            }
        }
    }
    -1
}

impl World {
    fn pidx(&self, p: &PeerId) -> i64 {
        self.peers.iter().position(|x| x == p).map(|i| i as i64).unwrap_or(-1)
    }

    fn nonce_id(&mut self, n: u64) -> usize {
        if let Some(i) = self.nonces.iter().position(|x| *x == n) {
            return i;
        }
        self.nonces.push(n);
        self.nonces.len() - 1
    }

    fn drain_beh(&mut self) -> bool {
        let det = self.det.clone();
        let mut any = false;
        loop {
            let items = vcommon::exec::drain(&det, 64, |cx| self.beh.poll(cx));
            if items.is_empty() {
                return any;
            }
            any = true;
            for it in items {
                match it {
                    ToSwarm::NotifyHandler { handler: NotifyHandler::One(id), event, peer_id } => {
                        let c = self.conns.iter().position(|x| x.id == id).map(|i| i as i64).unwrap_or(-1);
                        let open = c >= 0 && self.conns[c as usize].handler.is_some();
                        // the command is a (crate-private) DialRequest: its address is read off the Debug form
                        let dbg = format!("{event:?}");
                        let k = dbg.find("/ip4/").and_then(|i| dbg[i..].split(|ch| ch == ']' || ch == ',' || ch == ' ').next().and_then(|a| a.parse::<Multiaddr>().ok())).map(|a| cand_k(&a)).unwrap_or(-1);
                        self.evs.push(json!({"e": "cmd", "c": c, "p": self.pidx(&peer_id), "open": open, "k": k}));
                        if open {
                            self.conns[c as usize].handler.as_mut().unwrap().on_behaviour_event(event);
                        }
                    }
                    ToSwarm::ExternalAddrConfirmed(a) => self.evs.push(json!({"e": "confirmed", "k": cand_k(&a)})),
                    ToSwarm::GenerateEvent(client::Event { tested_addr, bytes_sent, server, result }) => {
                        self.evs.push(json!({"e": "event", "k": cand_k(&tested_addr), "bytes": bytes_sent, "p": self.pidx(&server), "ok": result.is_ok()}));
                    }
                    other => self.evs.push(json!({"e": "beh_other", "what": format!("{other:?}").chars().take(60).collect::<String>()})),
                }
            }
        }
    }

    /// what the client wrote on its request streams and dial-back streams
    fn collect_tx(&mut self) {
        for s in 0..self.reqs.len() {
            let (bytes, closed): (Vec<u8>, bool) = self.reqs[s].strm.ctl.with(1, |d| (d.ready.drain(..).collect(), d.closed));
            self.reqs[s].strm.buf.extend_from_slice(&bytes);
            let frames = take_frames(&mut self.reqs[s].strm.buf);
            let mut data = 0usize;
            let mut maxf = 0usize;
            let mut nf = 0usize;
            for msg in frames {
                if msg.is_empty() {
                    continue;
                }
                let Some((len, k)) = read_varint(&msg[1..]) else { continue };
                let inner = msg[1 + k..(1 + k + len as usize).min(msg.len())].to_vec();
                match msg[0] {
                    0x0a => {
                        // DialRequest { repeated bytes addrs = 1; fixed64 nonce = 2 }
                        let mut addrs = vec![];
                        let mut nonce = 0u64;
                        let mut i = 0;
                        while i < inner.len() {
                            let tag = inner[i];
                            i += 1;
                            if tag == 0x0a {
                                let Some((l, kk)) = read_varint(&inner[i..]) else { break };
                                i += kk;
                                let a = Multiaddr::try_from(inner[i..i + l as usize].to_vec()).ok();
                                addrs.push(a.map(|a| cand_k(&a)).unwrap_or(-1));
                                i += l as usize;
                            } else if tag == 0x11 {
                                nonce = u64::from_le_bytes(inner[i..i + 8].try_into().unwrap());
                                i += 8;
                            } else {
                                break;
                            }
                        }
                        let nid = self.nonce_id(nonce);
                        let q = self.reqs.iter().filter(|r| r.q >= 0).count() as i64;
                        self.reqs[s].q = q;
                        let c = self.reqs[s].c;
                        self.evs.push(json!({"e": "tx_req", "q": q, "c": c, "p": self.conns[c].p, "addrs": addrs, "nonce": nid}));
                    }
                    0x22 => {
                        // DialDataResponse { bytes data = 1 }
                        let n = if inner.is_empty() { 0 } else { read_varint(&inner[1..]).map(|(l, _)| l as usize).unwrap_or(0) };
                        data += n;
                        maxf = maxf.max(n);
                        nf += 1;
                    }
                    _ => self.evs.push(json!({"e": "tx_unknown", "s": s})),
                }
            }
            if nf > 0 {
                self.reqs[s].data += data;
                self.evs.push(json!({"e": "tx_data", "q": self.reqs[s].q, "bytes": data, "maxframe": maxf, "total": self.reqs[s].data}));
            }
            if closed && !self.reqs[s].closed {
                self.reqs[s].closed = true;
            }
        }
        for c in 0..self.conns.len() {
            for b in 0..self.conns[c].backs.len() {
                let bytes: Vec<u8> = self.conns[c].backs[b].0.ctl.with(1, |d| d.ready.drain(..).collect());
                self.conns[c].backs[b].0.buf.extend_from_slice(&bytes);
                let frames = take_frames(&mut self.conns[c].backs[b].0.buf);
                for msg in frames {
                    // DialBackResponse { status = 1 }: OK = 0 = empty message
                    let status = if msg.is_empty() { 0 } else { read_varint(&msg[1..]).map(|(v, _)| v).unwrap_or(99) };
                    let nid = self.conns[c].backs[b].1;
                    self.evs.push(json!({"e": "back_ack", "c": c, "b": b, "nonce": nid, "status": status}));
                }
            }
        }
    }

    fn poll_all(&mut self) -> bool {
        let det = self.det.clone();
        let mut progress = false;
        for c in 0..self.conns.len() {
            loop {
                let Some(h) = self.conns[c].handler.as_mut() else { break };
                let before = det.wakes();
                let mut cx = det.cx();
                match h.poll(&mut cx) {
                    Poll::Ready(ConnectionHandlerEvent::OutboundSubstreamRequest { .. }) => {
                        progress = true;
                        self.conns[c].want += 1;
                        self.evs.push(json!({"e": "want_open", "c": c}));
                    }
                    Poll::Ready(ConnectionHandlerEvent::NotifyBehaviour(ev)) => {
                        progress = true;
                        self.collect_tx();
                        let (peer, id) = (self.peers[self.conns[c].p], self.conns[c].id);
                        self.beh.on_connection_handler_event(peer, id, ev);
                        self.drain_beh();
                    }
                    Poll::Ready(_) => progress = true,
                    Poll::Pending => {
                        if det.wakes() == before {
                            break;
                        }
                    }
                }
            }
        }
        self.collect_tx();
        progress
    }

    fn settle(&mut self) {
        for _ in 0..400 {
            let w0 = self.det.wakes();
            let mut progress = self.drain_beh();
            progress |= self.poll_all();
            if !progress && self.det.wakes() == w0 {
                return;
            }
        }
        self.evs.push(json!({"e": "driver_livelock"}));
    }

    fn others(&self, p: usize, except: usize) -> usize {
        (0..self.conns.len()).filter(|i| *i != except && self.conns[*i].handler.is_some() && self.conns[*i].p == p).count()
    }

    fn op(&mut self, op: &Value) {
        let i = op.get("i").and_then(|x| x.as_u64()).unwrap_or(0) as usize;
        let local: Multiaddr = "/ip4/10.0.0.1/tcp/4001".parse().unwrap();
        match vcommon::s(op, "a").as_str() {
            "cand" => {
                let k = vcommon::n(op, "k") as usize;
                let addr = cand_addr(k);
                self.evs.push(json!({"e": "cand", "k": k}));
                self.beh.on_swarm_event(FromSwarm::NewExternalAddrCandidate(NewExternalAddrCandidate { addr: &addr }));
            }
            "out" | "in" => {
                let outbound = vcommon::s(op, "a") == "out";
                let p = vcommon::n(op, "p") as usize % NP;
                let c = self.conns.len();
                let id = ConnectionId::new_unchecked(NEXT.fetch_add(1, std::sync::atomic::Ordering::SeqCst));
                let peer = self.peers[p];
                let remote: Multiaddr = format!("/ip4/7.7.{}.{}/tcp/{}", p + 1, c % 200 + 1, 5000 + c).parse().unwrap();
                let sup = outbound && op.get("sup").and_then(|x| x.as_bool()).unwrap_or(false);
                self.evs.push(json!({"e": "conn", "c": c, "p": p, "out": outbound, "sup": sup}));
                let (h, ep) = if outbound {
                    let h = self.beh.handle_established_outbound_connection(id, peer, &remote, Endpoint::Dialer, PortUse::Reuse).expect("never denied");
                    (h, ConnectedPoint::Dialer { address: remote, role_override: Endpoint::Dialer, port_use: PortUse::Reuse })
                } else {
                    let h = self.beh.handle_established_inbound_connection(id, peer, &local, &remote).expect("never denied");
                    (h, ConnectedPoint::Listener { local_addr: local.clone(), send_back_addr: remote })
                };
                self.conns.push(Conn { id, p, outbound, ep: ep.clone(), handler: Some(h), want: 0, backs: vec![] });
                let other = self.others(p, c);
                self.beh.on_swarm_event(FromSwarm::ConnectionEstablished(ConnectionEstablished { peer_id: peer, connection_id: id, endpoint: &ep, failed_addresses: &[], other_established: other }));
                if sup {
                    let protos = [StreamProtocol::new(REQ)];
                    let change = libp2p_swarm::verif::protocols_change(true, &protos);
                    self.conns[c].handler.as_mut().unwrap().on_connection_event(ConnectionEvent::RemoteProtocolsChange(change));
                }
            }
            "close" => {
                let el: Vec<usize> = (0..self.conns.len()).filter(|c| self.conns[*c].handler.is_some()).collect();
                if el.is_empty() {
                    return;
                }
                let c = el[i % el.len()];
                self.evs.push(json!({"e": "close", "c": c}));
                let h = self.conns[c].handler.take();
                drop(h);
                self.conns[c].want = 0;
                let (peer, id, ep) = (self.peers[self.conns[c].p], self.conns[c].id, self.conns[c].ep.clone());
                let rem = self.others(self.conns[c].p, c);
                self.beh.on_swarm_event(FromSwarm::ConnectionClosed(ConnectionClosed { peer_id: peer, connection_id: id, endpoint: &ep, cause: None, remaining_established: rem }));
            }
            "tick" => {
                self.evs.push(json!({"e": "tick"}));
                self.beh.verif_tick();
            }
            "open" => {
                let el: Vec<usize> = (0..self.conns.len()).filter(|c| self.conns[*c].handler.is_some() && self.conns[*c].want > 0).collect();
                if el.is_empty() {
                    return;
                }
                let c = el[i % el.len()];
                let r = vcommon::s(op, "r");
                self.conns[c].want -= 1;
                self.evs.push(json!({"e": "open", "c": c, "r": r}));
                let det = self.det.clone();
                if r == "ok" {
                    let (st, ctl) = stream(&det, REQ);
                    self.reqs.push(Req { c, strm: Strm { ctl, buf: vec![] }, q: -1, data: 0, closed: false });
                    let h = self.conns[c].handler.as_mut().unwrap();
                    h.on_connection_event(ConnectionEvent::FullyNegotiatedOutbound(FullyNegotiatedOutbound { protocol: future::Either::Left(st), info: Either::Left(()) }));
                } else {
                    let error = match r.as_str() {
                        "unsup" => StreamUpgradeError::NegotiationFailed,
                        "timeout" => StreamUpgradeError::Timeout,
                        _ => StreamUpgradeError::Io(std::io::Error::new(std::io::ErrorKind::ConnectionReset, "scripted")),
                    };
                    let h = self.conns[c].handler.as_mut().unwrap();
                    h.on_connection_event(ConnectionEvent::DialUpgradeError(DialUpgradeError { info: Either::Left(()), error }));
                }
            }
            "srv" => {
                let el: Vec<usize> = (0..self.reqs.len()).filter(|s| self.reqs[*s].q >= 0 && !self.reqs[*s].closed && self.conns[self.reqs[*s].c].handler.is_some()).collect();
                if el.is_empty() {
                    return;
                }
                let s = el[i % el.len()];
                let m = vcommon::s(op, "m");
                let ctl = self.reqs[s].strm.ctl.clone();
                let q = self.reqs[s].q;
                match m.as_str() {
                    "data_req" => {
                        let idx = vcommon::n(op, "idx") as u64;
                        let n = vcommon::n(op, "n") as u64;
                        self.evs.push(json!({"e": "srv", "q": q, "m": m, "idx": idx, "n": n}));
                        ctl.inject(0, &data_request(idx, n));
                    }
                    "resp" => {
                        let (status, idx, ds) = (vcommon::n(op, "status") as u64, vcommon::n(op, "idx") as u64, vcommon::n(op, "ds") as u64);
                        self.evs.push(json!({"e": "srv", "q": q, "m": m, "status": status, "idx": idx, "ds": ds}));
                        ctl.inject(0, &dial_response(status, idx, ds));
                    }
                    "junk" => {
                        self.evs.push(json!({"e": "srv", "q": q, "m": m}));
                        ctl.inject(0, &[3, 0xff, 0xff, 0xff]);
                    }
                    _ => {
                        self.evs.push(json!({"e": "srv", "q": q, "m": "eof"}));
                        ctl.close_dir(0);
                    }
                }
            }
            "back" => {
                let el: Vec<usize> = (0..self.conns.len()).filter(|c| self.conns[*c].handler.is_some() && !self.conns[*c].outbound).collect();
                if el.is_empty() {
                    return;
                }
                let c = el[i % el.len()];
                // the dial-back handler serves two streams at a time
                if self.conns[c].backs.len() >= 2 {
                    return;
                }
                let qsel = vcommon::n(op, "q");
                let sent: Vec<i64> = self.reqs.iter().filter(|r| r.q >= 0).map(|r| r.q).collect();
                let (nonce, nid) = if qsel < 0 || self.nonces.is_empty() {
                    (0xdead_beef_0000_0001u64, -1i64)
                } else {
                    let _ = sent;
                    let nid = qsel as usize % self.nonces.len();
                    (self.nonces[nid], nid as i64)
                };
                let det = self.det.clone();
                let (st, ctl) = stream(&det, BACK);
                ctl.inject(0, &dial_back(nonce));
                let b = self.conns[c].backs.len();
                self.evs.push(json!({"e": "back_in", "c": c, "b": b, "nonce": nid}));
                self.conns[c].backs.push((Strm { ctl, buf: vec![] }, nid));
                let h = self.conns[c].handler.as_mut().unwrap();
                h.on_connection_event(ConnectionEvent::FullyNegotiatedInbound(FullyNegotiatedInbound { protocol: future::Either::Right(st), info: Either::Right(()) }));
            }
            x => panic!("op {x}"),
        }
        self.settle();
    }
}

fn run(out: &mut Out, sched: &Value, peers: &[PeerId]) {
    let seed = sched.get("seed").and_then(|x| x.as_u64()).unwrap_or(0);
    let maxc = sched.get("maxc").and_then(|x| x.as_u64()).unwrap_or(10) as usize;
    out.reset_with(json!({"maxc": maxc}), sched);
    let cfg = client::Config::default().with_probe_interval(Duration::from_secs(3600)).with_max_candidates(maxc);
    let mut w = World {
        beh: client::Behaviour::new(rand10::rngs::StdRng::seed_from_u64(seed), cfg),
        peers: peers.to_vec(),
        conns: vec![],
        reqs: vec![],
        nonces: vec![],
        det: Det::new(),
        evs: vec![],
    };
    for op in sched["ops"].as_array().unwrap() {
        let r = vcommon::guard(|| w.op(op));
        for e in w.evs.drain(..) {
            out.ev(e);
        }
        if let Err(m) = r {
            out.ev(json!({"e": "panic", "msg": m}));
            return;
        }
    }
    out.ev(json!({"e": "end"}));
}

fn random_resp(rng: &mut impl Rng) -> Value {
    let x = rng.gen_range(0..100);
    let (status, ds) = if x < 50 {
        (200, 200)
    } else if x < 62 {
        (200, 100)
    } else if x < 74 {
        (200, 101)
    } else if x < 80 {
        (200, 0)
    } else if x < 86 {
        (100, 0)
    } else if x < 92 {
        (101, 0)
    } else if x < 96 {
        (0, 0)
    } else {
        (100, 200)
    };
    json!({"a": "srv", "i": rng.gen_range(0..3), "m": "resp", "status": status, "idx": if rng.gen_bool(0.9) { 0 } else { 1 }, "ds": ds})
}

fn random_sched(rng: &mut impl Rng) -> Value {
    let mut ops = vec![];
    let np = rng.gen_range(1..=NP);
    let nk = rng.gen_range(1..=4);
    for _ in 0..rng.gen_range(1..=5) {
        ops.push(json!({"a": "cand", "k": rng.gen_range(0..nk)}));
    }
    for _ in 0..rng.gen_range(1..=2) {
        ops.push(json!({"a": "out", "p": rng.gen_range(0..np), "sup": rng.gen_bool(0.85)}));
    }
    if rng.gen_bool(0.8) {
        ops.push(json!({"a": "in", "p": rng.gen_range(0..np)}));
    }
    let len = rng.gen_range(4..=30);
    let directed = rng.gen_bool(0.6);
    for step in 0..len {
        let i = rng.gen_range(0..3);
        if directed && step % 6 == 0 {
            // a whole probe: tick, stream, (data demand), dial-back, response
            ops.push(json!({"a": "tick"}));
            ops.push(json!({"a": "open", "i": 0, "r": if rng.gen_bool(0.9) { "ok" } else { "unsup" }}));
            if rng.gen_bool(0.4) {
                let n = if rng.gen_bool(0.8) { rng.gen_range(30000..=100000) } else { [29999, 100001, 0][rng.gen_range(0..3)] };
                ops.push(json!({"a": "srv", "i": i, "m": "data_req", "idx": if rng.gen_bool(0.9) { 0 } else { 3 }, "n": n}));
            }
            if rng.gen_bool(0.75) {
                let q = if rng.gen_bool(0.85) { rng.gen_range(0..50) } else { -1 };
                ops.push(json!({"a": "back", "i": i, "q": q}));
            }
            ops.push(random_resp(rng));
            continue;
        }
        let x = rng.gen_range(0..100);
        let op = if x < 8 {
            json!({"a": "cand", "k": rng.gen_range(0..nk)})
        } else if x < 14 {
            json!({"a": "out", "p": rng.gen_range(0..np), "sup": rng.gen_bool(0.8)})
        } else if x < 19 {
            json!({"a": "in", "p": rng.gen_range(0..np)})
        } else if x < 34 {
            json!({"a": "tick"})
        } else if x < 50 {
            json!({"a": "open", "i": i, "r": if rng.gen_bool(0.85) { "ok" } else { ["unsup", "timeout", "io"][rng.gen_range(0..3)] }})
        } else if x < 60 {
            let n = if rng.gen_bool(0.8) { rng.gen_range(30000..=100000) } else { [29999, 100001, 0][rng.gen_range(0..3)] };
            json!({"a": "srv", "i": i, "m": "data_req", "idx": if rng.gen_bool(0.9) { 0 } else { 3 }, "n": n})
        } else if x < 78 {
            random_resp(rng)
        } else if x < 82 {
            json!({"a": "srv", "i": i, "m": (["junk", "eof"][rng.gen_range(0..2)])})
        } else if x < 95 {
            let q = if rng.gen_bool(0.8) { rng.gen_range(0..50) } else { -1 };
            json!({"a": "back", "i": i, "q": q})
        } else {
            json!({"a": "close", "i": i})
        };
        ops.push(op);
    }
    json!({"seed": rng.gen_range(0..1000000), "maxc": rng.gen_range(1..=3), "ops": ops})
}

pub fn main(a: &vcommon::Args) {
    vcommon::quiet_panics();
    let peers: Vec<PeerId> = (0..NP).map(|_| PeerId::random()).collect();
    match a.get(0) {
        "replay" => {
            let scheds = vcommon::read_schedules(a.get(1));
            let mut out = Out::create(a.get(2));
            for s in &scheds {
                run(&mut out, s, &peers);
            }
            println!("runs={} events={}", out.run, out.events);
            out.finish();
        }
        // every op sequence of length n over a fixed alphabet, after: two candidates, a supporting server, an inbound
        // connection, one probe under way (request on the wire)
        "exhaustive" => {
            let n = a.num(1) as usize;
            let mut out = Out::create(a.get(2));
            let alpha: Vec<Value> = vec![
                json!({"a": "tick"}),
                json!({"a": "open", "i": 0, "r": "ok"}),
                json!({"a": "srv", "i": 0, "m": "data_req", "idx": 0, "n": 30000}),
                json!({"a": "srv", "i": 0, "m": "data_req", "idx": 0, "n": 100001}),
                json!({"a": "srv", "i": 0, "m": "resp", "status": 200, "idx": 0, "ds": 200}),
                json!({"a": "srv", "i": 1, "m": "resp", "status": 200, "idx": 0, "ds": 200}),
                json!({"a": "srv", "i": 0, "m": "resp", "status": 200, "idx": 0, "ds": 100}),
                json!({"a": "srv", "i": 0, "m": "resp", "status": 101, "idx": 0, "ds": 0}),
                json!({"a": "srv", "i": 0, "m": "resp", "status": 200, "idx": 1, "ds": 200}),
                json!({"a": "back", "i": 0, "q": 0}),
                json!({"a": "back", "i": 0, "q": 1}),
                json!({"a": "back", "i": 0, "q": -1}),
                json!({"a": "cand", "k": 2}),
            ];
            let k = alpha.len();
            for code in 0..k.pow(n as u32) {
                let mut c = code;
                let mut ops: Vec<Value> = vec![
                    json!({"a": "cand", "k": 0}),
                    json!({"a": "cand", "k": 1}),
                    json!({"a": "cand", "k": 0}),
                    json!({"a": "out", "p": 0, "sup": true}),
                    json!({"a": "in", "p": 0}),
                    json!({"a": "tick"}),
                    json!({"a": "open", "i": 0, "r": "ok"}),
                ];
                for _ in 0..n {
                    ops.push(alpha[c % k].clone());
                    c /= k;
                }
                run(&mut out, &json!({"seed": code, "maxc": 2, "ops": ops}), &peers);
            }
            println!("runs={} events={}", out.run, out.events);
            out.finish();
        }
        "random" => {
            let seed = a.num(1);
            let runs = a.num(2);
            let mut out = Out::create(a.get(3));
            let mut rng = vcommon::rng(seed.wrapping_mul(7919).wrapping_add(606));
            for _ in 0..runs {
                let s = random_sched(&mut rng);
                run(&mut out, &s, &peers);
            }
            println!("runs={} events={}", out.run, out.events);
            out.finish();
        }
        m => {
            eprintln!("unknown sub-mode {m}");
            std::process::exit(2)
        }
    }
}
