//! X05: the REAL AutoNAT v2 server (`libp2p_autonat::v2::server::Behaviour`) with its REAL handlers
//! (`server/handler/dial_request.rs`, `dial_back.rs`, wire codec of `v2/protocol.rs`). The driver
//! plays the Swarm (client connections, the dial-back dials, dial-back connections) and the clients:
//! requests, amplification-protection data and dial-back answers are crafted protobuf frames on
//! negotiated in-memory streams; everything the server writes is parsed back and recorded.
//!
//! Schedule {"seed","ops":[..]}; entities are numbered in order of creation (client connection c,
//! request s, dial d); an index `i` selects the i-th (mod count) currently eligible entity.
//!   {"a":"conn","p"}                      client p connects (observed address unique per connection)
//!   {"a":"close","i"}                     the i-th open client connection closes
//!   {"a":"req","i","first","addrs","nonce"}  a dial-request stream on the i-th client connection; first message:
//!        "dial" (DialRequest with the addresses) | "data" (a DialDataResponse) | "junk" | "eof"
//!        addrs: "obs" = exactly the observed address, "obsip" = observed IP, another port, "oth" = another IP
//!   {"a":"data","i","mode"}               the client of the i-th request that was asked for data sends:
//!        "all" (what is missing, 4096 per frame) | "chunk" (one 4096 frame) | "allbut1" | "over" (all + 4096 more)
//!        | "tiny" (30 frames of one byte) | "dial" (a DialRequest instead) | "junk" | "eof"
//!   {"a":"dialres","i","r"}               the i-th pending dial-back dial: "ok" | "fail"
//!   {"a":"back_open","i","r"}             the dial-back stream of the i-th dial-back connection that asked for
//!        one: "ok" | "unsup" | "timeout" | "io"
//!   {"a":"back_resp","i","m"}             the client answers the DialBack on the i-th such stream: "ok" | "bad" | "junk" | "eof"
//!   {"a":"back_close","i"}                the i-th open dial-back connection closes
use std::task::Poll;

use futures::future;
use libp2p_autonat::v2::server;
use libp2p_core::{multiaddr::Protocol, muxing::SubstreamBox, transport::PortUse, ConnectedPoint, Endpoint, Multiaddr};
use libp2p_identity::PeerId;
use libp2p_swarm::{
    behaviour::{ConnectionClosed, ConnectionEstablished, DialFailure, FromSwarm},
    derive_prelude::Either,
    dial_opts::PeerCondition,
    handler::{ConnectionEvent, ConnectionHandlerEvent, DialUpgradeError, FullyNegotiatedInbound, FullyNegotiatedOutbound, StreamUpgradeError},
    ConnectionHandler, ConnectionId, DialError, NetworkBehaviour, Stream, THandler, ToSwarm,
};
use rand::Rng;
use rand10::SeedableRng;
use vcommon::{exec::Det, json, pipe, Out, Value};

const NP: usize = 3;
const REQ: &str = "/libp2p/autonat/2/dial-request";
const BACK: &str = "/libp2p/autonat/2/dial-back";

type Beh = server::Behaviour<rand10::rngs::StdRng>;
type Hdl = THandler<Beh>;

fn stream(det: &Det, proto: &'static str) -> (Stream, pipe::PipeCtl) {
    let (a, b, ctl) = pipe::pipe(true);
    let d = multistream_select::dialer_select_proto(a, vec![proto], multistream_select::Version::V1);
    let l = multistream_select::listener_select_proto(SubstreamBox::new(b), vec![proto]);
    let mut both = Box::pin(future::join(d, l));
    let (rd, rl) = det.run_until_stalled(both.as_mut(), 1000).expect("negotiation completes");
    let (_, remote_io) = rd.expect("dialer");
    let (_, io) = rl.expect("listener");
    // the client's end is only used through `ctl` (inject into direction 0, read direction 1)
    std::mem::forget(remote_io);
    (libp2p_swarm::verif::stream(io), ctl)
}

fn varint(mut n: u64, out: &mut Vec<u8>) {
    loop {
        let b = (n & 0x7f) as u8;
        n >>= 7;
        if n == 0 {
            out.push(b);
            return;
        }
        out.push(b | 0x80);
    }
}

fn read_varint(b: &[u8]) -> Option<(u64, usize)> {
    let mut v = 0u64;
    for (i, x) in b.iter().enumerate().take(10) {
        v |= ((x & 0x7f) as u64) << (7 * i);
        if x & 0x80 == 0 {
            return Some((v, i + 1));
        }
    }
    None
}

fn frame(msg: &[u8]) -> Vec<u8> {
    let mut f = vec![];
    varint(msg.len() as u64, &mut f);
    f.extend_from_slice(msg);
    f
}

fn field(no: u8, bytes: &[u8], out: &mut Vec<u8>) {
    out.push((no << 3) | 2);
    varint(bytes.len() as u64, out);
    out.extend_from_slice(bytes);
}

/// Message { dialRequest = 1 { repeated bytes addrs = 1; fixed64 nonce = 2 } }
fn dial_request(addrs: &[Multiaddr], nonce: u64) -> Vec<u8> {
    let mut inner = vec![];
    for a in addrs {
        field(1, &a.to_vec(), &mut inner);
    }
    if nonce != 0 {
        inner.push(0x11);
        inner.extend_from_slice(&nonce.to_le_bytes());
    }
    let mut msg = vec![];
    field(1, &inner, &mut msg);
    frame(&msg)
}

/// Message { dialDataResponse = 4 { bytes data = 1 } }
fn dial_data(n: usize) -> Vec<u8> {
    let mut inner = vec![];
    if n > 0 {
        field(1, &vec![0u8; n], &mut inner);
    }
    let mut msg = vec![];
    field(4, &inner, &mut msg);
    frame(&msg)
}

/// take the complete frames off the front of `buf`
fn take_frames(buf: &mut Vec<u8>) -> Vec<Vec<u8>> {
    let mut out = vec![];
    loop {
        let Some((len, n)) = read_varint(buf) else { break };
        let len = len as usize;
        if buf.len() < n + len {
            break;
        }
        out.push(buf[n..n + len].to_vec());
        buf.drain(..n + len);
    }
    out
}

/// varint fields of a flat message: field number -> value
fn varint_fields(msg: &[u8]) -> std::collections::BTreeMap<u8, u64> {
    let mut m = std::collections::BTreeMap::new();
    let mut i = 0;
    while i < msg.len() {
        let tag = msg[i];
        i += 1;
        match tag & 7 {
            0 => {
                let Some((v, k)) = read_varint(&msg[i..]) else { break };
                m.insert(tag >> 3, v);
                i += k;
            }
            1 => {
                if i + 8 > msg.len() {
                    break;
                }
                m.insert(tag >> 3, u64::from_le_bytes(msg[i..i + 8].try_into().unwrap()));
                i += 8;
            }
            _ => break,
        }
    }
    m
}

struct Strm {
    ctl: pipe::PipeCtl,
    buf: Vec<u8>,
}

struct Client {
    id: ConnectionId,
    p: usize,
    observed: Multiaddr,
    handler: Option<Hdl>,
}

struct Req {
    c: usize,
    strm: Strm,
    addrs: Vec<Multiaddr>,
    /// bytes the server asked for / bytes sent so far; asked > 0 while the server waits for data
    asked: usize,
    sent: usize,
    done: bool,
}

struct DialRec {
    id: ConnectionId,
    p: i64,
    addr: Multiaddr,
    pending: bool,
}

struct Back {
    d: usize,
    id: ConnectionId,
    p: usize,
    ep: ConnectedPoint,
    handler: Option<Hdl>,
    want: usize,
    strm: Option<Strm>,
    answered: bool,
}

struct World {
    beh: Beh,
    peers: Vec<PeerId>,
    clients: Vec<Client>,
    reqs: Vec<Req>,
    dials: Vec<DialRec>,
    backs: Vec<Back>,
    det: Det,
    evs: Vec<Value>,
}

static NEXT: std::sync::atomic::AtomicUsize = std::sync::atomic::AtomicUsize::new(2_000_000);

fn local_addr() -> Multiaddr {
    "/ip4/10.0.0.1/tcp/4001".parse().unwrap()
}

impl World {
    fn pidx(&self, p: &PeerId) -> i64 {
        self.peers.iter().position(|x| x == p).map(|i| i as i64).unwrap_or(-1)
    }

    /// which address of which request (or which connection's observed address) is this?
    fn locate(&self, a: &Multiaddr) -> Value {
        if let Some(c) = self.clients.iter().position(|x| &x.observed == a) {
            return json!({"obsc": c, "s": -1, "i": -1});
        }
        for c in a.iter() {
            if let Protocol::Tcp(port) = c {
                if port >= 10000 {
                    let x = (port - 10000) as usize;
                    return json!({"obsc": -1, "s": x / 8, "i": x % 8});
                }
            }
        }
        json!({"obsc": -1, "s": -1, "i": -1})
    }

    fn drain_beh(&mut self) -> bool {
        let det = self.det.clone();
        let mut any = false;
        loop {
            let items = vcommon::exec::drain(&det, 64, |cx| self.beh.poll(cx));
            if items.is_empty() {
                return any;
            }
            any = true;
            for it in items {
                match it {
                    ToSwarm::Dial { opts } => {
                        let p = opts.get_peer_id().map(|x| self.pidx(&x)).unwrap_or(-1);
                        let addrs = libp2p_swarm::verif::dial_opts_addresses(&opts);
                        let (role, port_use, cond) = libp2p_swarm::verif::dial_opts_settings(&opts);
                        let d = self.dials.len();
                        let addr = addrs.first().cloned().unwrap_or_else(Multiaddr::empty);
                        let mut v = self.locate(&addr);
                        v["e"] = json!("dial");
                        v["d"] = json!(d);
                        v["p"] = json!(p);
                        v["n"] = json!(addrs.len());
                        v["newport"] = json!(port_use == PortUse::New);
                        v["always"] = json!(matches!(cond, PeerCondition::Always));
                        v["override"] = json!(role == Endpoint::Listener);
                        self.evs.push(v);
                        self.dials.push(DialRec { id: opts.connection_id(), p, addr, pending: true });
                    }
                    ToSwarm::GenerateEvent(server::Event { all_addrs, tested_addr, client, data_amount, result }) => {
                        let mut v = self.locate(&tested_addr);
                        v["e"] = json!("event");
                        v["p"] = json!(self.pidx(&client));
                        v["all"] = Value::Array(all_addrs.iter().map(|a| self.locate(a)).collect());
                        v["data"] = json!(data_amount);
                        v["ok"] = json!(result.is_ok());
                        self.evs.push(v);
                    }
                    other => {
                        self.evs.push(json!({"e": "beh_other", "what": format!("{other:?}").chars().take(60).collect::<String>()}));
                    }
                }
            }
        }
    }

    /// what the server wrote on the request streams and dial-back streams since the last call
    fn collect_tx(&mut self) {
        for s in 0..self.reqs.len() {
            let bytes: Vec<u8> = self.reqs[s].strm.ctl.with(1, |d| d.ready.drain(..).collect());
            self.reqs[s].strm.buf.extend_from_slice(&bytes);
            for msg in take_frames(&mut self.reqs[s].strm.buf) {
                // Message: one length-delimited field 2 (dialResponse) or 3 (dialDataRequest)
                if msg.is_empty() {
                    self.evs.push(json!({"e": "tx_unknown", "s": s}));
                    continue;
                }
                let tag = msg[0];
                let Some((len, k)) = read_varint(&msg[1..]) else { continue };
                let inner = &msg[1 + k..(1 + k + len as usize).min(msg.len())];
                let f = varint_fields(inner);
                match tag {
                    0x12 => {
                        self.reqs[s].done = true;
                        self.reqs[s].asked = 0;
                        self.evs.push(json!({"e": "resp", "s": s, "status": f.get(&1).copied().unwrap_or(0), "idx": f.get(&2).copied().unwrap_or(0), "ds": f.get(&3).copied().unwrap_or(0)}));
                    }
                    0x1a => {
                        let n = f.get(&2).copied().unwrap_or(0) as usize;
                        self.reqs[s].asked = n;
                        self.reqs[s].sent = 0;
                        self.evs.push(json!({"e": "data_req", "s": s, "idx": f.get(&1).copied().unwrap_or(0), "n": n}));
                    }
                    _ => self.evs.push(json!({"e": "tx_unknown", "s": s})),
                }
            }
        }
        for b in 0..self.backs.len() {
            let Some(st) = self.backs[b].strm.as_mut() else { continue };
            let bytes: Vec<u8> = st.ctl.with(1, |d| d.ready.drain(..).collect());
            st.buf.extend_from_slice(&bytes);
            let frames = take_frames(&mut st.buf);
            for msg in frames {
                let f = varint_fields(&msg);
                self.evs.push(json!({"e": "dialback", "d": self.backs[b].d, "nonce": f.get(&1).copied().unwrap_or(0)}));
            }
        }
    }

    fn poll_all(&mut self) -> bool {
        let det = self.det.clone();
        let mut progress = false;
        for c in 0..self.clients.len() {
            loop {
                let Some(h) = self.clients[c].handler.as_mut() else { break };
                let before = det.wakes();
                let mut cx = det.cx();
                match h.poll(&mut cx) {
                    Poll::Ready(ConnectionHandlerEvent::NotifyBehaviour(ev)) => {
                        progress = true;
                        self.collect_tx();
                        let (peer, id) = (self.peers[self.clients[c].p], self.clients[c].id);
                        self.beh.on_connection_handler_event(peer, id, ev);
                        self.drain_beh();
                    }
                    Poll::Ready(_) => progress = true,
                    Poll::Pending => {
                        if det.wakes() == before {
                            break;
                        }
                    }
                }
            }
        }
        for b in 0..self.backs.len() {
            loop {
                let Some(h) = self.backs[b].handler.as_mut() else { break };
                let before = det.wakes();
                let mut cx = det.cx();
                match h.poll(&mut cx) {
                    Poll::Ready(ConnectionHandlerEvent::OutboundSubstreamRequest { .. }) => {
                        progress = true;
                        self.backs[b].want += 1;
                        self.evs.push(json!({"e": "back_want", "d": self.backs[b].d}));
                    }
                    Poll::Ready(ConnectionHandlerEvent::NotifyBehaviour(ev)) => {
                        progress = true;
                        let (peer, id) = (self.peers[self.backs[b].p], self.backs[b].id);
                        self.beh.on_connection_handler_event(peer, id, ev);
                        self.drain_beh();
                    }
                    Poll::Ready(_) => progress = true,
                    Poll::Pending => {
                        if det.wakes() == before {
                            break;
                        }
                    }
                }
            }
        }
        self.collect_tx();
        progress
    }

    fn settle(&mut self) {
        for _ in 0..400 {
            let w0 = self.det.wakes();
            let mut progress = self.drain_beh();
            progress |= self.poll_all();
            if !progress && self.det.wakes() == w0 {
                return;
            }
        }
        self.evs.push(json!({"e": "driver_livelock"}));
    }

    fn close_back(&mut self, b: usize) {
        let h = self.backs[b].handler.take();
        drop(h);
        self.backs[b].strm = None;
        self.backs[b].want = 0;
        let (peer, id, ep) = (self.peers[self.backs[b].p], self.backs[b].id, self.backs[b].ep.clone());
        self.evs.push(json!({"e": "back_close", "d": self.backs[b].d}));
        self.beh.on_swarm_event(FromSwarm::ConnectionClosed(ConnectionClosed { peer_id: peer, connection_id: id, endpoint: &ep, cause: None, remaining_established: 0 }));
    }

    fn resolve_dial(&mut self, d: usize, ok: bool) {
        self.dials[d].pending = false;
        let (id, p) = (self.dials[d].id, self.dials[d].p);
        if p < 0 {
            self.evs.push(json!({"e": "dial_unknown_peer", "d": d}));
            return;
        }
        let p = p as usize;
        let peer = self.peers[p];
        self.evs.push(json!({"e": "dialres", "d": d, "r": if ok { "ok" } else { "fail" }}));
        if ok {
            let addr = self.dials[d].addr.clone();
            let h = self.beh.handle_established_outbound_connection(id, peer, &addr, Endpoint::Dialer, PortUse::New).expect("never denied");
            let ep = ConnectedPoint::Dialer { address: addr, role_override: Endpoint::Dialer, port_use: PortUse::New };
            self.beh.on_swarm_event(FromSwarm::ConnectionEstablished(ConnectionEstablished { peer_id: peer, connection_id: id, endpoint: &ep, failed_addresses: &[], other_established: 0 }));
            self.backs.push(Back { d, id, p, ep, handler: Some(h), want: 0, strm: None, answered: false });
        } else {
            let err = DialError::Transport(vec![]);
            self.beh.on_swarm_event(FromSwarm::DialFailure(DialFailure { peer_id: Some(peer), error: &err, connection_id: id }));
        }
    }

    fn op(&mut self, op: &Value) {
        let i = op.get("i").and_then(|x| x.as_u64()).unwrap_or(0) as usize;
        match vcommon::s(op, "a").as_str() {
            "conn" => {
                let p = vcommon::n(op, "p") as usize % NP;
                let c = self.clients.len();
                let id = ConnectionId::new_unchecked(NEXT.fetch_add(1, std::sync::atomic::Ordering::SeqCst));
                let observed: Multiaddr = format!("/ip4/1.2.{}.{}/tcp/{}", p + 1, c % 200 + 1, 6000 + c).parse().unwrap();
                let peer = self.peers[p];
                self.evs.push(json!({"e": "conn", "c": c, "p": p}));
                let h = self.beh.handle_established_inbound_connection(id, peer, &local_addr(), &observed).expect("never denied");
                let ep = ConnectedPoint::Listener { local_addr: local_addr(), send_back_addr: observed.clone() };
                self.clients.push(Client { id, p, observed, handler: Some(h) });
                self.beh.on_swarm_event(FromSwarm::ConnectionEstablished(ConnectionEstablished { peer_id: peer, connection_id: id, endpoint: &ep, failed_addresses: &[], other_established: 0 }));
            }
            "close" => {
                let el: Vec<usize> = (0..self.clients.len()).filter(|c| self.clients[*c].handler.is_some()).collect();
                if el.is_empty() {
                    return;
                }
                let c = el[i % el.len()];
                self.evs.push(json!({"e": "close", "c": c}));
                let h = self.clients[c].handler.take();
                drop(h);
                let (peer, id) = (self.peers[self.clients[c].p], self.clients[c].id);
                let ep = ConnectedPoint::Listener { local_addr: local_addr(), send_back_addr: self.clients[c].observed.clone() };
                self.beh.on_swarm_event(FromSwarm::ConnectionClosed(ConnectionClosed { peer_id: peer, connection_id: id, endpoint: &ep, cause: None, remaining_established: 0 }));
            }
            "req" => {
                let el: Vec<usize> = (0..self.clients.len()).filter(|c| self.clients[*c].handler.is_some()).collect();
                if el.is_empty() || self.reqs.len() >= 1000 {
                    return;
                }
                let c = el[i % el.len()];
                // the handler serves at most 10 requests at a time and drops the rest silently: stay below
                if self.reqs.iter().filter(|r| r.c == c).count() >= 10 {
                    return;
                }
                let s = self.reqs.len();
                let p = self.clients[c].p;
                let kinds: Vec<String> = op.get("addrs").and_then(|x| x.as_array()).map(|l| l.iter().map(|x| x.as_str().unwrap().to_string()).collect()).unwrap_or_default();
                let mut addrs = vec![];
                for (k, kind) in kinds.iter().enumerate().take(8) {
                    let port = 10000 + 8 * s + k;
                    let a: Multiaddr = match kind.as_str() {
                        "obs" => self.clients[c].observed.clone(),
                        "obsip" => format!("/ip4/1.2.{}.{}/tcp/{}", p + 1, c % 200 + 1, port).parse().unwrap(),
                        _ => format!("/ip4/9.9.9.{}/tcp/{}", k + 1, port).parse().unwrap(),
                    };
                    addrs.push(a);
                }
                let nonce = op.get("nonce").and_then(|x| x.as_u64()).unwrap_or(0);
                let first = vcommon::s(op, "first");
                let det = self.det.clone();
                let (st, ctl) = stream(&det, REQ);
                match first.as_str() {
                    "dial" => ctl.inject(0, &dial_request(&addrs, nonce)),
                    "data" => ctl.inject(0, &dial_data(100)),
                    "junk" => ctl.inject(0, &[3, 0xff, 0xff, 0xff]),
                    _ => ctl.close_dir(0),
                }
                self.evs.push(json!({"e": "req", "s": s, "c": c, "p": p, "first": first, "nonce": nonce, "addrs": kinds}));
                self.reqs.push(Req { c, strm: Strm { ctl, buf: vec![] }, addrs, asked: 0, sent: 0, done: false });
                let h = self.clients[c].handler.as_mut().unwrap();
                h.on_connection_event(ConnectionEvent::FullyNegotiatedInbound(FullyNegotiatedInbound { protocol: future::Either::Right(st), info: Either::Right(()) }));
            }
            "data" => {
                let el: Vec<usize> = (0..self.reqs.len()).filter(|s| self.reqs[*s].asked > 0 && !self.reqs[*s].done && self.clients[self.reqs[*s].c].handler.is_some()).collect();
                if el.is_empty() {
                    return;
                }
                let s = el[i % el.len()];
                let mode = vcommon::s(op, "mode");
                let missing = self.reqs[s].asked.saturating_sub(self.reqs[s].sent);
                let mut frames: Vec<usize> = vec![];
                let mut total = match mode.as_str() {
                    "all" => missing,
                    "chunk" => 4096.min(missing.max(1)),
                    "allbut1" => missing.saturating_sub(1),
                    "over" => missing + 4096,
                    _ => 0,
                };
                if mode == "tiny" {
                    // many nearly empty frames: only their content counts
                    total = 0;
                    frames = vec![1; 30];
                }
                let bytes = if mode == "tiny" { 30 } else { total };
                while total > 0 {
                    let n = total.min(4096);
                    frames.push(n);
                    total -= n;
                }
                self.evs.push(json!({"e": "data", "s": s, "mode": mode, "bytes": bytes}));
                let ctl = self.reqs[s].strm.ctl.clone();
                for n in frames {
                    ctl.inject(0, &dial_data(n));
                }
                self.reqs[s].sent += bytes;
                match mode.as_str() {
                    "dial" => ctl.inject(0, &dial_request(&self.reqs[s].addrs.clone(), 7)),
                    "junk" => ctl.inject(0, &[3, 0xff, 0xff, 0xff]),
                    "eof" => ctl.close_dir(0),
                    _ => {}
                }
            }
            "dialres" => {
                let el: Vec<usize> = (0..self.dials.len()).filter(|d| self.dials[*d].pending).collect();
                if el.is_empty() {
                    return;
                }
                let d = el[i % el.len()];
                self.resolve_dial(d, vcommon::s(op, "r") == "ok");
            }
            "back_open" => {
                let el: Vec<usize> = (0..self.backs.len()).filter(|b| self.backs[*b].handler.is_some() && self.backs[*b].want > 0).collect();
                if el.is_empty() {
                    return;
                }
                let b = el[i % el.len()];
                let r = vcommon::s(op, "r");
                self.backs[b].want -= 1;
                self.evs.push(json!({"e": "back_open", "d": self.backs[b].d, "r": r}));
                let det = self.det.clone();
                if r == "ok" {
                    let (st, ctl) = stream(&det, BACK);
                    self.backs[b].strm = Some(Strm { ctl, buf: vec![] });
                    let h = self.backs[b].handler.as_mut().unwrap();
                    h.on_connection_event(ConnectionEvent::FullyNegotiatedOutbound(FullyNegotiatedOutbound { protocol: future::Either::Left(future::Either::Left(st)), info: Either::Left(Either::Left(())) }));
                } else {
                    let error = match r.as_str() {
                        "unsup" => StreamUpgradeError::NegotiationFailed,
                        "timeout" => StreamUpgradeError::Timeout,
                        _ => StreamUpgradeError::Io(std::io::Error::new(std::io::ErrorKind::ConnectionReset, "scripted")),
                    };
                    let h = self.backs[b].handler.as_mut().unwrap();
                    h.on_connection_event(ConnectionEvent::DialUpgradeError(DialUpgradeError { info: Either::Left(Either::Left(())), error }));
                }
            }
            "back_resp" => {
                let el: Vec<usize> = (0..self.backs.len()).filter(|b| self.backs[*b].handler.is_some() && self.backs[*b].strm.is_some() && !self.backs[*b].answered).collect();
                if el.is_empty() {
                    return;
                }
                let b = el[i % el.len()];
                let m = vcommon::s(op, "m");
                self.backs[b].answered = true;
                self.evs.push(json!({"e": "back_resp", "d": self.backs[b].d, "m": m}));
                let ctl = self.backs[b].strm.as_ref().unwrap().ctl.clone();
                match m.as_str() {
                    "ok" => ctl.inject(0, &[0]),                 // DialBackResponse { status = OK (0) }
                    "bad" => ctl.inject(0, &[2, 0x08, 0x01]),    // an undefined status
                    "junk" => ctl.inject(0, &[3, 0xff, 0xff, 0xff]),
                    _ => ctl.close_dir(0),
                }
            }
            "back_close" => {
                let el: Vec<usize> = (0..self.backs.len()).filter(|b| self.backs[*b].handler.is_some()).collect();
                if el.is_empty() {
                    return;
                }
                let b = el[i % el.len()];
                self.close_back(b);
            }
            x => panic!("op {x}"),
        }
        self.settle();
    }

    /// end of the run: everything the Swarm still owes is resolved (dials fail, dial-back connections close)
    fn epilogue(&mut self) {
        for d in 0..self.dials.len() {
            if self.dials[d].pending {
                self.resolve_dial(d, false);
                self.settle();
            }
        }
        for b in 0..self.backs.len() {
            if self.backs[b].handler.is_some() {
                self.close_back(b);
                self.settle();
            }
        }
    }
}

fn run(out: &mut Out, sched: &Value, peers: &[PeerId]) {
    let seed = sched.get("seed").and_then(|x| x.as_u64()).unwrap_or(0);
    out.reset_with(json!({}), sched);
    let mut w = World {
        beh: server::Behaviour::new(rand10::rngs::StdRng::seed_from_u64(seed)),
        peers: peers.to_vec(),
        clients: vec![],
        reqs: vec![],
        dials: vec![],
        backs: vec![],
        det: Det::new(),
        evs: vec![],
    };
    let mut ops: Vec<Option<&Value>> = sched["ops"].as_array().unwrap().iter().map(Some).collect();
    ops.push(None);
    for op in ops {
        let r = vcommon::guard(|| match op {
            Some(op) => w.op(op),
            None => w.epilogue(),
        });
        for e in w.evs.drain(..) {
            out.ev(e);
        }
        if let Err(m) = r {
            out.ev(json!({"e": "panic", "msg": m}));
            return;
        }
    }
    out.ev(json!({"e": "end"}));
}

const KINDS: [&str; 3] = ["obs", "obsip", "oth"];

fn random_addrs(rng: &mut impl Rng) -> Vec<&'static str> {
    let x = rng.gen_range(0..100);
    let n = if x < 6 { 0 } else if x < 50 { 1 } else { rng.gen_range(2..=4) };
    (0..n).map(|_| KINDS[rng.gen_range(0..3)]).collect()
}

fn free_sched(rng: &mut impl Rng, ops: &mut Vec<Value>, np: usize) {
    let len = rng.gen_range(4..=36);
    for step in 0..len {
        let x = rng.gen_range(0..100);
        let i = rng.gen_range(0..3);
        let op = if step == 0 || x < 6 {
            json!({"a": "conn", "p": rng.gen_range(0..np)})
        } else if x < 26 {
            let first = if rng.gen_bool(0.88) { "dial" } else { ["data", "junk", "eof"][rng.gen_range(0..3)] };
            json!({"a": "req", "i": i, "first": first, "addrs": random_addrs(rng), "nonce": rng.gen_range(0..1000)})
        } else if x < 50 {
            json!({"a": "data", "i": i, "mode": random_mode(rng)})
        } else if x < 66 {
            json!({"a": "dialres", "i": i, "r": if rng.gen_bool(0.7) { "ok" } else { "fail" }})
        } else if x < 78 {
            let r = if rng.gen_bool(0.8) { "ok" } else { ["unsup", "timeout", "io"][rng.gen_range(0..3)] };
            json!({"a": "back_open", "i": i, "r": r})
        } else if x < 90 {
            let m = if rng.gen_bool(0.75) { "ok" } else { ["bad", "junk", "eof"][rng.gen_range(0..3)] };
            json!({"a": "back_resp", "i": i, "m": m})
        } else if x < 96 {
            json!({"a": "back_close", "i": i})
        } else {
            json!({"a": "close", "i": i})
        };
        ops.push(op);
    }
}

fn random_mode(rng: &mut impl Rng) -> &'static str {
    let y = rng.gen_range(0..100);
    if y < 55 {
        "all"
    } else if y < 70 {
        "chunk"
    } else if y < 80 {
        "allbut1"
    } else if y < 86 {
        "over"
    } else if y < 91 {
        "tiny"
    } else {
        ["dial", "junk", "eof"][rng.gen_range(0..3)]
    }
}

/// directed: whole request episodes (request, data, dial result, dial-back stream, answer), two or three of them
/// interleaved, each step sometimes perturbed
fn episode_sched(rng: &mut impl Rng, ops: &mut Vec<Value>, np: usize) {
    let nconn = rng.gen_range(1..=2);
    for _ in 0..nconn {
        ops.push(json!({"a": "conn", "p": rng.gen_range(0..np)}));
    }
    let episodes = rng.gen_range(1..=4);
    // the steps of every episode, then a random interleaving that keeps each episode's order
    let mut eps: Vec<Vec<Value>> = vec![];
    for _ in 0..episodes {
        let mut e = vec![];
        let first = if rng.gen_bool(0.94) { "dial" } else { ["data", "junk", "eof"][rng.gen_range(0..3)] };
        e.push(json!({"a": "req", "i": rng.gen_range(0..nconn), "first": first, "addrs": random_addrs(rng), "nonce": rng.gen_range(0..1000)}));
        for _ in 0..rng.gen_range(1..=2) {
            let mode = if rng.gen_bool(0.7) { "all" } else { random_mode(rng) };
            e.push(json!({"a": "data", "i": 0, "mode": mode}));
        }
        e.push(json!({"a": "dialres", "i": 0, "r": if rng.gen_bool(0.8) { "ok" } else { "fail" }}));
        let r = if rng.gen_bool(0.85) { "ok" } else { ["unsup", "timeout", "io"][rng.gen_range(0..3)] };
        e.push(json!({"a": "back_open", "i": 0, "r": r}));
        let m = if rng.gen_bool(0.8) { "ok" } else { ["bad", "junk", "eof"][rng.gen_range(0..3)] };
        e.push(json!({"a": "back_resp", "i": 0, "m": m}));
        if rng.gen_bool(0.5) {
            e.push(json!({"a": "back_close", "i": 0}));
        }
        eps.push(e);
    }
    let mut pos = vec![0usize; eps.len()];
    loop {
        let live: Vec<usize> = (0..eps.len()).filter(|k| pos[*k] < eps[*k].len()).collect();
        if live.is_empty() {
            break;
        }
        // mostly finish one episode before the next one starts
        let k = if rng.gen_bool(0.7) { live[0] } else { live[rng.gen_range(0..live.len())] };
        ops.push(eps[k][pos[k]].clone());
        pos[k] += 1;
        if rng.gen_bool(0.04) {
            ops.push(json!({"a": "close", "i": rng.gen_range(0..2)}));
        }
    }
}

fn random_sched(rng: &mut impl Rng) -> Value {
    let mut ops = vec![];
    let np = rng.gen_range(1..=NP);
    if rng.gen_bool(0.65) {
        episode_sched(rng, &mut ops, np);
    } else {
        free_sched(rng, &mut ops, np);
    }
    json!({"seed": rng.gen_range(0..1000000), "ops": ops})
}

pub fn main(a: &vcommon::Args) {
    vcommon::quiet_panics();
    let peers: Vec<PeerId> = (0..NP).map(|_| PeerId::random()).collect();
    match a.get(0) {
        "replay" => {
            let scheds = vcommon::read_schedules(a.get(1));
            let mut out = Out::create(a.get(2));
            for s in &scheds {
                run(&mut out, s, &peers);
            }
            println!("runs={} events={}", out.run, out.events);
            out.finish();
        }
        // every op sequence of length n over a fixed alphabet after one client connection
        "exhaustive" => {
            let n = a.num(1) as usize;
            let mut out = Out::create(a.get(2));
            let alpha: Vec<Value> = vec![
                json!({"a": "req", "i": 0, "first": "dial", "addrs": ["obs"], "nonce": 11}),
                json!({"a": "req", "i": 0, "first": "dial", "addrs": ["oth", "obsip"], "nonce": 22}),
                json!({"a": "req", "i": 0, "first": "dial", "addrs": [], "nonce": 33}),
                json!({"a": "data", "i": 0, "mode": "all"}),
                json!({"a": "data", "i": 0, "mode": "allbut1"}),
                json!({"a": "data", "i": 0, "mode": "chunk"}),
                json!({"a": "data", "i": 0, "mode": "tiny"}),
                json!({"a": "dialres", "i": 0, "r": "ok"}),
                json!({"a": "dialres", "i": 0, "r": "fail"}),
                json!({"a": "back_open", "i": 0, "r": "ok"}),
                json!({"a": "back_open", "i": 0, "r": "unsup"}),
                json!({"a": "back_resp", "i": 0, "m": "ok"}),
                json!({"a": "back_resp", "i": 0, "m": "bad"}),
                json!({"a": "back_close", "i": 0}),
            ];
            let k = alpha.len();
            // prefixes: fresh connection / a request waiting for data / a dial-back connection asking for its stream /
            // a DialBack sent and not yet answered
            let pre0 = vec![json!({"a": "conn", "p": 0})];
            let mut pre1 = pre0.clone();
            pre1.push(json!({"a": "req", "i": 0, "first": "dial", "addrs": ["obsip", "oth"], "nonce": 44}));
            let mut pre2 = pre0.clone();
            pre2.push(json!({"a": "req", "i": 0, "first": "dial", "addrs": ["oth", "obs"], "nonce": 55}));
            pre2.push(json!({"a": "dialres", "i": 0, "r": "ok"}));
            let mut pre3 = pre2.clone();
            pre3.push(json!({"a": "back_open", "i": 0, "r": "ok"}));
            for pre in [&pre0, &pre1, &pre2, &pre3] {
                for code in 0..k.pow(n as u32) {
                    let mut c = code;
                    let mut ops: Vec<Value> = pre.clone();
                    for _ in 0..n {
                        ops.push(alpha[c % k].clone());
                        c /= k;
                    }
                    run(&mut out, &json!({"seed": code, "ops": ops}), &peers);
                }
            }
            println!("runs={} events={}", out.run, out.events);
            out.finish();
        }
        "random" => {
            let seed = a.num(1);
            let runs = a.num(2);
            let mut out = Out::create(a.get(3));
            let mut rng = vcommon::rng(seed.wrapping_mul(7919).wrapping_add(505));
            for _ in 0..runs {
                let s = random_sched(&mut rng);
                run(&mut out, &s, &peers);
            }
            println!("runs={} events={}", out.run, out.events);
            out.finish();
        }
        m => {
            eprintln!("unknown sub-mode {m}");
            std::process::exit(2)
        }
    }
}
