//! Driver for libp2p-autonat v2 (extension component X05).
fn main() {
    let a = vcommon::Args::parse();
    match a.mode.as_str() {
        m => {
            eprintln!("unknown mode {m}");
            std::process::exit(2)
        }
    }
}
