//! Driver for libp2p-autonat v2 (extension component X05): the dial-back server (and client).
mod client;
mod server;

fn main() {
    let a = vcommon::Args::parse();
    match a.mode.as_str() {
        "server" => server::main(&a),
        "client" => client::main(&a),
        m => {
            eprintln!("unknown mode {m}");
            std::process::exit(2)
        }
    }
}
