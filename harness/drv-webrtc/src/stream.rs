//! C56: two REAL `libp2p_webrtc_utils::Stream`s joined by a scripted duplex pipe.
//!
//! Schedule: {"ops":[{"a":<letter>,"s":<side>,"f":<frame kind, inject only>} ...]}
//!   letters: read | read1 | write | bigwrite | flush | close | close_read | drop      (one poll call each)
//!            inject (f = data|big|fin|stop|reset|findata: a real framed protobuf message written to side s's inbound wire)
//!            eof (inbound direction of s closed) | block | unblock (outbound direction of s accepts no bytes)
//! Trace events:
//!   {"e":"op","s":s,"op":..,"res":"ok"|"eof"|"pending"|"ConnectionReset"|"BrokenPipe"|"Other","n":bytes,"tags":[..]}
//!   {"e":"wire","to":s,"k":"data"|"fin"|"stop"|"reset"|"findata"|"unknown","tag":t,"src":"inj"|"stream"}
//!        every frame that appears on the channel (decoded from the pipe's byte log, independent of the code under test)
//!   {"e":"env","a":"eof"|"block"|"unblock"|"drop","s":s}   {"e":"dl","s":s,"res":..}   {"e":"panic","msg":..}
use std::{
    future::Future,
    io,
    pin::Pin,
    sync::{Arc, Mutex},
    task::{Context, Poll},
};

use futures::io::{AsyncRead, AsyncWrite};
use libp2p_webrtc_utils::{DropListener, Stream};
use rand::Rng;
use vcommon::{
    exec::Det,
    json,
    pipe::{pipe, PipeCtl, PipeEnd},
    Out, Value,
};

const BIG: usize = 20000;
/// `MAX_MSG_LEN - VARINT_LEN - PROTO_OVERHEAD` of stream.rs (largest data payload of one frame)
const MAX_DATA_LEN: usize = 16 * 1024 - 2 - 5;

#[derive(Clone)]
struct Chan(Arc<Mutex<PipeEnd>>);

impl AsyncRead for Chan {
    fn poll_read(self: Pin<&mut Self>, cx: &mut Context<'_>, buf: &mut [u8]) -> Poll<io::Result<usize>> {
        let mut g = self.0.lock().unwrap();
        Pin::new(&mut *g).poll_read(cx, buf)
    }
}
impl AsyncWrite for Chan {
    fn poll_write(self: Pin<&mut Self>, cx: &mut Context<'_>, buf: &[u8]) -> Poll<io::Result<usize>> {
        let mut g = self.0.lock().unwrap();
        Pin::new(&mut *g).poll_write(cx, buf)
    }
    fn poll_flush(self: Pin<&mut Self>, cx: &mut Context<'_>) -> Poll<io::Result<()>> {
        let mut g = self.0.lock().unwrap();
        Pin::new(&mut *g).poll_flush(cx)
    }
    fn poll_close(self: Pin<&mut Self>, cx: &mut Context<'_>) -> Poll<io::Result<()>> {
        let mut g = self.0.lock().unwrap();
        Pin::new(&mut *g).poll_close(cx)
    }
}

fn uvarint(mut n: usize, out: &mut Vec<u8>) {
    loop {
        let b = (n & 0x7f) as u8;
        n >>= 7;
        if n == 0 {
            out.push(b);
            break;
        }
        out.push(b | 0x80);
    }
}

/// hand-written encoder of the libp2p WebRTC message framing (uvarint length + protobuf `Message`)
fn frame(flag: Option<u8>, data: Option<&[u8]>) -> Vec<u8> {
    let mut body = vec![];
    if let Some(f) = flag {
        body.push(0x08);
        body.push(f);
    }
    if let Some(d) = data {
        body.push(0x12);
        uvarint(d.len(), &mut body);
        body.extend_from_slice(d);
    }
    let mut out = vec![];
    uvarint(body.len(), &mut out);
    out.extend(body);
    out
}

fn read_uvarint(b: &[u8]) -> Option<(usize, usize)> {
    let mut v = 0usize;
    for (i, &x) in b.iter().enumerate().take(9) {
        v |= ((x & 0x7f) as usize) << (7 * i);
        if x & 0x80 == 0 {
            return Some((v, i + 1));
        }
    }
    None
}

/// decode complete frames from `buf` (consumed); returns (kind, tag)
fn decode(buf: &mut Vec<u8>) -> Vec<(String, u8)> {
    let mut res = vec![];
    loop {
        let Some((len, hl)) = read_uvarint(buf) else { break };
        if buf.len() < hl + len {
            break;
        }
        let body: Vec<u8> = buf[hl..hl + len].to_vec();
        buf.drain(..hl + len);
        let mut flag: Option<u8> = None;
        let mut data: Option<Vec<u8>> = None;
        let mut i = 0;
        let mut bad = false;
        while i < body.len() {
            match body[i] {
                0x08 => {
                    if let Some((v, l)) = read_uvarint(&body[i + 1..]) {
                        flag = Some(v as u8);
                        i += 1 + l;
                    } else {
                        bad = true;
                        break;
                    }
                }
                0x12 => {
                    if let Some((v, l)) = read_uvarint(&body[i + 1..]) {
                        if i + 1 + l + v > body.len() {
                            bad = true;
                            break;
                        }
                        data = Some(body[i + 1 + l..i + 1 + l + v].to_vec());
                        i += 1 + l + v;
                    } else {
                        bad = true;
                        break;
                    }
                }
                _ => {
                    bad = true;
                    break;
                }
            }
        }
        let tag = data.as_ref().and_then(|d| d.first().copied()).unwrap_or(0);
        let has_data = data.as_ref().map(|d| !d.is_empty()).unwrap_or(false);
        let kind = if bad {
            "unknown"
        } else {
            match (flag, has_data) {
                (None, true) => "data",
                (None, false) => "empty",
                (Some(0), false) => "fin",
                (Some(1), false) => "stop",
                (Some(2), false) => "reset",
                (Some(0), true) => "findata",
                _ => "unknown",
            }
        };
        res.push((kind.to_string(), tag));
    }
    res
}

struct Pair {
    ctl: PipeCtl,
    _master: [Chan; 2],
    streams: [Option<Stream<Chan>>; 2],
    listeners: [Option<DropListener<Chan>>; 2],
    dec: [Vec<u8>; 2],
    det: Det,
    tag: u8,
}

impl Pair {
    fn new() -> Self {
        let (a, b, ctl) = pipe(true);
        ctl.with(0, |d| d.keep_log = true);
        ctl.with(1, |d| d.keep_log = true);
        let ca = Chan(Arc::new(Mutex::new(a)));
        let cb = Chan(Arc::new(Mutex::new(b)));
        let (sa, la) = Stream::new(ca.clone());
        let (sb, lb) = Stream::new(cb.clone());
        Pair {
            ctl,
            _master: [ca, cb],
            streams: [Some(sa), Some(sb)],
            listeners: [Some(la), Some(lb)],
            dec: [vec![], vec![]],
            det: Det::new(),
            tag: 0,
        }
    }
    fn next_tag(&mut self) -> u8 {
        self.tag = if self.tag >= 250 { 1 } else { self.tag + 1 };
        self.tag
    }
    /// decode what appeared on the channel and log it
    fn wire(&mut self, out: &mut Out, src: &str) {
        for dir in 0..2 {
            let bytes = self.ctl.take_log(dir);
            if bytes.is_empty() {
                continue;
            }
            self.dec[dir].extend(bytes);
            for (k, tag) in decode(&mut self.dec[dir]) {
                out.ev(json!({"e": "wire", "to": 1 - dir, "k": k, "tag": tag, "src": src}));
            }
        }
    }
    /// poll the drop listeners (the connection task does this continuously)
    fn poll_listeners(&mut self, out: &mut Out) -> bool {
        for s in 0..2 {
            if let Some(l) = self.listeners[s].as_mut() {
                let det = self.det.clone();
                let r = vcommon::guard(|| {
                    let mut cx = det.cx();
                    Pin::new(l).poll(&mut cx)
                });
                match r {
                    Ok(Poll::Pending) => {}
                    Ok(Poll::Ready(res)) => {
                        self.listeners[s] = None;
                        out.ev(json!({"e": "dl", "s": s, "res": if res.is_ok() { "ok" } else { "err" }}));
                    }
                    Err(m) => {
                        self.listeners[s] = None;
                        out.ev(json!({"e": "panic", "msg": m, "where": "drop_listener"}));
                        return false;
                    }
                }
            }
        }
        true
    }
}

fn kind(e: &io::Error) -> &'static str {
    match e.kind() {
        io::ErrorKind::ConnectionReset => "ConnectionReset",
        io::ErrorKind::BrokenPipe => "BrokenPipe",
        _ => "Other",
    }
}

fn distinct(b: &[u8]) -> Vec<u8> {
    let mut v: Vec<u8> = vec![];
    for &x in b {
        if v.last() != Some(&x) && !v.contains(&x) {
            v.push(x);
        }
    }
    v
}

fn run(out: &mut Out, sched: &Value) {
    out.reset(sched);
    let mut p = Pair::new();
    let empty = vec![];
    let ops = sched["ops"].as_array().unwrap_or(&empty);
    for op in ops {
        let a = vcommon::s(op, "a");
        let s = vcommon::n(op, "s") as usize;
        let det = p.det.clone();
        let mut ok = true;
        match a.as_str() {
            "read" | "read1" | "write" | "bigwrite" | "flush" | "close" | "close_read" => {
                if p.streams[s].is_none() {
                    continue; // dropped: the letter is void
                }
                let tag = if a == "write" || a == "bigwrite" { p.next_tag() } else { 0 };
                let st = p.streams[s].as_mut().unwrap();
                let r = vcommon::guard(|| {
                    let mut cx = det.cx();
                    match a.as_str() {
                        "read" | "read1" => {
                            let mut buf = vec![0u8; if a == "read" { 32768 } else { 1 }];
                            match Pin::new(&mut *st).poll_read(&mut cx, &mut buf) {
                                Poll::Pending => json!({"res": "pending"}),
                                Poll::Ready(Ok(0)) => json!({"res": "eof", "n": 0}),
                                Poll::Ready(Ok(n)) => json!({"res": "ok", "n": n, "tags": distinct(&buf[..n])}),
                                Poll::Ready(Err(e)) => json!({"res": kind(&e)}),
                            }
                        }
                        "write" | "bigwrite" => {
                            let buf = vec![tag; if a == "write" { 2 } else { BIG }];
                            match Pin::new(&mut *st).poll_write(&mut cx, &buf) {
                                Poll::Pending => json!({"res": "pending", "tag": tag}),
                                Poll::Ready(Ok(n)) => json!({"res": "ok", "n": n, "tag": tag}),
                                Poll::Ready(Err(e)) => json!({"res": kind(&e), "tag": tag}),
                            }
                        }
                        "flush" => match Pin::new(&mut *st).poll_flush(&mut cx) {
                            Poll::Pending => json!({"res": "pending"}),
                            Poll::Ready(Ok(())) => json!({"res": "ok"}),
                            Poll::Ready(Err(e)) => json!({"res": kind(&e)}),
                        },
                        "close" => match Pin::new(&mut *st).poll_close(&mut cx) {
                            Poll::Pending => json!({"res": "pending"}),
                            Poll::Ready(Ok(())) => json!({"res": "ok"}),
                            Poll::Ready(Err(e)) => json!({"res": kind(&e)}),
                        },
                        _ => match Pin::new(&mut *st).poll_close_read(&mut cx) {
                            Poll::Pending => json!({"res": "pending"}),
                            Poll::Ready(Ok(())) => json!({"res": "ok"}),
                            Poll::Ready(Err(e)) => json!({"res": kind(&e)}),
                        },
                    }
                });
                match r {
                    Ok(mut v) => {
                        v["e"] = json!("op");
                        v["s"] = json!(s);
                        v["op"] = json!(a);
                        out.ev(v);
                    }
                    Err(m) => {
                        out.ev(json!({"e": "panic", "msg": m, "where": a, "s": s}));
                        ok = false;
                    }
                }
            }
            "drop" => {
                if p.streams[s].is_none() {
                    continue;
                }
                let st = p.streams[s].take();
                match vcommon::guard(move || drop(st)) {
                    Ok(()) => out.ev(json!({"e": "env", "a": "drop", "s": s})),
                    Err(m) => {
                        out.ev(json!({"e": "panic", "msg": m, "where": "drop", "s": s}));
                        ok = false;
                    }
                }
            }
            "inject" => {
                if p.ctl.with(1 - s, |d| d.closed) {
                    continue; // nothing can arrive after EOF: the letter is void
                }
                let f = vcommon::s(op, "f");
                let bytes = match f.as_str() {
                    "fin" => frame(Some(0), None),
                    "stop" => frame(Some(1), None),
                    "reset" => frame(Some(2), None),
                    "data" => {
                        let t = p.next_tag();
                        frame(None, Some(&[t, t]))
                    }
                    "big" => {
                        let t = p.next_tag();
                        frame(None, Some(&vec![t; MAX_DATA_LEN]))
                    }
                    "findata" => {
                        let t = p.next_tag();
                        frame(Some(0), Some(&[t, t]))
                    }
                    x => panic!("frame kind {x}"),
                };
                // side s reads direction 1-s
                p.ctl.inject(1 - s, &bytes);
                p.wire(out, "inj");
            }
            "eof" => {
                if p.ctl.with(1 - s, |d| d.closed) {
                    continue;
                }
                p.ctl.close_dir(1 - s);
                out.ev(json!({"e": "env", "a": "eof", "s": s}));
            }
            "block" => {
                p.ctl.set_write_budget(s, Some(0));
                out.ev(json!({"e": "env", "a": "block", "s": s}));
            }
            "unblock" => {
                p.ctl.set_write_budget(s, None);
                out.ev(json!({"e": "env", "a": "unblock", "s": s}));
            }
            x => panic!("letter {x}"),
        }
        if !ok {
            break;
        }
        if !p.poll_listeners(out) {
            break;
        }
        p.wire(out, "stream");
    }
}

const LOCAL: [&str; 8] = ["read", "read1", "write", "bigwrite", "flush", "close", "close_read", "drop"];
const ENV: [&str; 3] = ["eof", "block", "unblock"];
const FRAMES: [&str; 6] = ["data", "big", "fin", "stop", "reset", "findata"];

fn alphabet() -> Vec<Value> {
    let mut v = vec![];
    for s in 0..2 {
        for a in LOCAL.iter().chain(ENV.iter()) {
            v.push(json!({"a": a, "s": s, "f": "-"}));
        }
        for f in FRAMES {
            v.push(json!({"a": "inject", "s": s, "f": f}));
        }
    }
    v
}

pub fn main(a: &vcommon::Args) {
    vcommon::quiet_panics();
    match a.get(0) {
        "replay" => {
            let scheds = vcommon::read_schedules(a.get(1));
            let mut out = Out::create(a.get(2));
            for s in &scheds {
                // TLC-generated schedules are bare op lists
                let s = if s.is_array() { json!({"ops": s}) } else { s.clone() };
                run(&mut out, &s);
            }
            println!("runs={} events={}", out.run, out.events);
            out.finish();
        }
        // every op sequence of length n over the full two-sided alphabet
        "exhaustive" => {
            let n = a.num(1) as usize;
            let mut out = Out::create(a.get(2));
            let al = alphabet();
            let k = al.len();
            for len in 1..=n {
                let mut idx = vec![0usize; len];
                loop {
                    let ops: Vec<Value> = idx.iter().map(|&i| al[i].clone()).collect();
                    run(&mut out, &json!({"ops": ops}));
                    let mut j = 0;
                    while j < len {
                        idx[j] += 1;
                        if idx[j] < k {
                            break;
                        }
                        idx[j] = 0;
                        j += 1;
                    }
                    if j == len {
                        break;
                    }
                }
            }
            println!("runs={} events={}", out.run, out.events);
            out.finish();
        }
        "random" => {
            let seed = a.num(1);
            let runs = a.num(2);
            let mut out = Out::create(a.get(3));
            let mut rng = vcommon::rng(seed);
            for _ in 0..runs {
                let len = rng.gen_range(4..=30);
                // bias: one side is the "subject" (more local ops), the other mostly a frame source
                let subj = rng.gen_range(0..2usize);
                let mut ops = vec![];
                for _ in 0..len {
                    let s = if rng.gen_bool(0.7) { subj } else { 1 - subj };
                    let r = rng.gen_range(0..100);
                    if r < 62 {
                        let w = [22, 6, 18, 4, 8, 16, 14, 2];
                        let mut x = rng.gen_range(0..90);
                        let mut i = 0;
                        while x >= w[i] {
                            x -= w[i];
                            i += 1;
                        }
                        ops.push(json!({"a": LOCAL[i], "s": s, "f": "-"}));
                    } else if r < 88 {
                        let f = FRAMES[rng.gen_range(0..FRAMES.len())];
                        ops.push(json!({"a": "inject", "s": s, "f": f}));
                    } else {
                        let e = match rng.gen_range(0..10) {
                            0 => "eof",
                            1..=5 => "block",
                            _ => "unblock",
                        };
                        ops.push(json!({"a": e, "s": s, "f": "-"}));
                    }
                }
                run(&mut out, &json!({"ops": ops}));
            }
            println!("runs={} events={}", out.run, out.events);
            out.finish();
        }
        m => panic!("stream mode {m}"),
    }
}
