//! Driver for libp2p-webrtc-utils: stream half-close state machine (C56).
mod stream;

fn main() {
    let a = vcommon::Args::parse();
    match a.mode.as_str() {
        "stream" => stream::main(&a),
        m => {
            eprintln!("unknown mode {m}");
            std::process::exit(2)
        }
    }
}
