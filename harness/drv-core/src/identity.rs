//! C20: PeerId / key encodings of libp2p-identity (public API only).
//! Records (relation style):
//!  {"kind":"mh","code":c,"len":n,"shape":"exact"|"short"|"long","accepted":b,"rt_bytes":b,"rt_b58":b}
//!  {"kind":"inline","kt":..,"enclen":n,"code":c,"digest_ok":b,"deterministic":b,"rt_bytes":b,"rt_b58":b}
//!  {"kind":"keyrt","kt":..,"pub_rt":b,"priv":"rt"|"unsupported"|"mismatch"|"error"}
//!  {"kind":"fuzz","target":..,"inputs":n,"accepted":k,"panics":[hex..]}
use std::str::FromStr;

use libp2p_identity::{Keypair, PeerId, PublicKey};
use rand::Rng;
use sha2::{Digest, Sha256};
use vcommon::{json, Out, Value};

use crate::keys::{self, hex, uvarint};

fn multihash_bytes(code: u64, len: usize, shape: &str) -> Vec<u8> {
    let mut b = vec![];
    uvarint(code, &mut b);
    uvarint(len as u64, &mut b);
    let n = match shape {
        "short" => len.saturating_sub(1),
        "long" => len + 1,
        _ => len,
    };
    b.extend((0..n).map(|i| (i * 7 + 3) as u8));
    b
}

fn rt(p: &PeerId) -> (bool, bool) {
    let b = p.to_bytes();
    let rb = PeerId::from_bytes(&b).map(|q| q == *p && q.to_bytes() == b).unwrap_or(false);
    let s = p.to_base58();
    let rs = PeerId::from_str(&s).map(|q| q == *p && q.to_base58() == s && q.to_string() == s).unwrap_or(false);
    (rb, rs)
}

fn grid(out: &mut Out, path: &str) {
    for s in vcommon::read_ndjson(path) {
        let code = vcommon::n(&s, "code") as u64;
        let len = vcommon::n(&s, "len") as usize;
        let shape = vcommon::s(&s, "shape");
        let bytes = multihash_bytes(code, len, &shape);
        let r = vcommon::guard(|| match PeerId::from_bytes(&bytes) {
            Ok(p) => {
                let (rb, rs) = rt(&p);
                json!({"accepted": true, "rt_bytes": rb && p.to_bytes() == bytes, "rt_b58": rs})
            }
            Err(_) => json!({"accepted": false, "rt_bytes": true, "rt_b58": true}),
        });
        let mut rec = json!({"kind": "mh", "code": code, "len": len, "shape": shape});
        match r {
            Ok(v) => {
                for (k, x) in v.as_object().unwrap() {
                    rec[k] = x.clone();
                }
            }
            Err(m) => rec["panic"] = json!(m),
        }
        out.ev(rec);
    }
}

fn keys_part(out: &mut Out, rounds: u64) {
    for t in keys::TYPES {
        for _ in 0..rounds {
            let r = vcommon::guard(|| {
                let kp = keys::keypair(t);
                let pk = kp.public();
                let enc = pk.encode_protobuf();
                let id = PeerId::from_public_key(&pk);
                let id2 = pk.to_peer_id();
                let mh = id.as_ref();
                let digest_ok = if enc.len() <= 42 { mh.digest() == &enc[..] } else { mh.digest() == &Sha256::digest(&enc)[..] };
                let (rb, rs) = rt(&id);
                let inline = json!({"kind": "inline", "kt": t, "enclen": enc.len(), "code": mh.code(), "digest_ok": digest_ok,
                    "deterministic": id == id2 && PeerId::from_public_key(&PublicKey::try_decode_protobuf(&enc).unwrap()) == id, "rt_bytes": rb, "rt_b58": rs});
                let pub_rt = PublicKey::try_decode_protobuf(&enc).map(|q| q == pk && q.encode_protobuf() == enc).unwrap_or(false);
                let privr = match kp.to_protobuf_encoding() {
                    Err(e) => {
                        if e.to_string().contains("not supported") || e.to_string().contains("unsupported") {
                            "unsupported"
                        } else {
                            "error"
                        }
                    }
                    Ok(b) => match Keypair::from_protobuf_encoding(&b) {
                        Err(_) => "error",
                        Ok(k2) => {
                            let msg = b"round trip";
                            let same = k2.public() == pk
                                && k2.to_protobuf_encoding().map(|b2| b2 == b).unwrap_or(false)
                                && k2.sign(msg).map(|s| pk.verify(msg, &s)).unwrap_or(false);
                            if same {
                                "rt"
                            } else {
                                "mismatch"
                            }
                        }
                    },
                };
                (inline, json!({"kind": "keyrt", "kt": t, "pub_rt": pub_rt, "priv": privr}))
            });
            match r {
                Ok((a, b)) => {
                    out.ev(a);
                    out.ev(b);
                }
                Err(m) => out.ev(json!({"kind": "keyrt", "kt": t, "pub_rt": false, "priv": "error", "panic": m})),
            }
        }
    }
}

fn fuzz(out: &mut Out, seed: u64, n: u64) {
    let mut rng = vcommon::rng(seed);
    let mut corpus_pub: Vec<Vec<u8>> = vec![];
    let mut corpus_priv: Vec<Vec<u8>> = vec![];
    let mut corpus_id: Vec<Vec<u8>> = vec![];
    for t in keys::TYPES {
        let kp = keys::keypair(t);
        corpus_pub.push(kp.public().encode_protobuf());
        if let Ok(b) = kp.to_protobuf_encoding() {
            corpus_priv.push(b);
        }
        corpus_id.push(kp.public().to_peer_id().to_bytes());
    }
    fn mutate(rng: &mut impl Rng, corpus: &[Vec<u8>]) -> Vec<u8> {
        match rng.gen_range(0..4) {
            0 => {
                let mut b = vec![0u8; rng.gen_range(0..80)];
                rng.fill_bytes(&mut b);
                b
            }
            1 => {
                let b = &corpus[rng.gen_range(0..corpus.len())];
                b[..rng.gen_range(0..=b.len())].to_vec()
            }
            _ => {
                let mut b = corpus[rng.gen_range(0..corpus.len())].clone();
                for _ in 0..rng.gen_range(1..4) {
                    if b.is_empty() {
                        break;
                    }
                    let i = rng.gen_range(0..b.len());
                    b[i] = if rng.gen_bool(0.5) { rng.gen() } else { b[i] ^ (1 << rng.gen_range(0..8)) };
                }
                if rng.gen_bool(0.2) {
                    b.push(rng.gen());
                }
                b
            }
        }
    }
    for target in ["pubkey", "privkey", "peerid_bytes", "peerid_str"] {
        let mut panics = vec![];
        let mut accepted = 0u64;
        for _ in 0..n {
            let input = match target {
                "pubkey" => mutate(&mut rng, &corpus_pub),
                "privkey" => mutate(&mut rng, &corpus_priv),
                _ => mutate(&mut rng, &corpus_id),
            };
            let r = vcommon::guard(|| match target {
                "pubkey" => PublicKey::try_decode_protobuf(&input).is_ok(),
                "privkey" => Keypair::from_protobuf_encoding(&input).is_ok(),
                "peerid_bytes" => PeerId::from_bytes(&input).is_ok(),
                _ => {
                    // base58 text: valid alphabet, sometimes corrupted
                    let mut s = libp2p_identity::PeerId::from_bytes(&input).map(|p| p.to_base58()).unwrap_or_else(|_| hex(&input));
                    if input.len() % 3 == 0 && !s.is_empty() {
                        s.insert(input.len() % s.len().max(1), '0');
                    }
                    PeerId::from_str(&s).is_ok()
                }
            });
            match r {
                Ok(true) => accepted += 1,
                Ok(false) => {}
                Err(_) => panics.push(hex(&input)),
            }
        }
        out.ev(json!({"kind": "fuzz", "target": target, "inputs": n, "accepted": accepted, "panics": panics}));
    }
}

pub fn main(a: &vcommon::Args) {
    vcommon::quiet_panics();
    // identity <grid.ndjson> <seed> <key rounds> <fuzz inputs> <out>
    let mut out = Out::create(a.get(4));
    grid(&mut out, a.get(0));
    keys_part(&mut out, a.num(2));
    fuzz(&mut out, a.num(1), a.num(3));
    println!("records={}", out.events);
    out.finish();
    let _: Option<Value> = None;
}
