//! C21: signatures, signed envelopes and peer records (public API of libp2p-identity / libp2p-core).
//! Records (relation style):
//!  {"kind":"sig","kt":..,"msglen":n,"ok":b,"other_key":b,"other_type":b,"flips":n,"accepted_flips":[..],"trunc":b,"ext":b,"empty":b}
//!  {"kind":"env","kt":..,"key":0|1,"dom":0|1,"tsig":0|1,"tenv":0|1,"pay":0|1,"decoded":b,"accepted":b,"same":b}    0 = original, 1 = other
//!  {"kind":"prec","kt":..,"api":"legacy"|"interop","dom":..,"typ":..,"peer":0|1,"key":0|1,"accepted":b,"fields_ok":b}
//!  {"kind":"mut","kt":..,"what":"env"|"prec","len":n,"mutants":n,"rejected":n,"identical":n,"different":[[pos,val]..]}
use libp2p_core::{signed_envelope::SignedEnvelope, Multiaddr, PeerRecord};
use libp2p_identity::{Keypair, PeerId};
use vcommon::{json, Out, Value};

use crate::keys::{self, pb_bytes, pb_varint, uvarint};

const DOM: [&str; 2] = ["verif-domain", "other-domain"];
const TYP: [&[u8]; 2] = [b"/verif/type", b"/other/type"];
const PAY: [&[u8]; 2] = [b"the payload", b"another payload"];
/// the shapes a foreign ("1") field takes: unrelated, an extension of the original, a prefix of it, empty
const DOM_F: [&str; 4] = ["other-domain", "verif-domain-x", "verif-domai", ""];
const TYP_F: [&[u8]; 4] = [b"/other/type", b"/verif/type/x", b"/verif/typ", b""];
const PAY_F: [&[u8]; 4] = [b"another payload", b"the payload!", b"the payloa", b""];
fn dom_v(bit: usize, v: usize) -> &'static str {
    if bit == 0 { DOM[0] } else { DOM_F[v] }
}
fn typ_v(bit: usize, v: usize) -> &'static [u8] {
    if bit == 0 { TYP[0] } else { TYP_F[v] }
}
fn pay_v(bit: usize, v: usize) -> &'static [u8] {
    if bit == 0 { PAY[0] } else { PAY_F[v] }
}

/// independent implementation of RFC 0002's signature buffer
fn sig_buffer(domain: &str, typ: &[u8], payload: &[u8]) -> Vec<u8> {
    let mut b = vec![];
    uvarint(domain.len() as u64, &mut b);
    b.extend_from_slice(domain.as_bytes());
    uvarint(typ.len() as u64, &mut b);
    b.extend_from_slice(typ);
    uvarint(payload.len() as u64, &mut b);
    b.extend_from_slice(payload);
    b
}

fn envelope_bytes(pubkey: &[u8], typ: &[u8], payload: &[u8], sig: &[u8]) -> Vec<u8> {
    let mut b = vec![];
    pb_bytes(1, pubkey, &mut b);
    pb_bytes(2, typ, &mut b);
    pb_bytes(3, payload, &mut b);
    pb_bytes(5, sig, &mut b);
    b
}

fn sig_part(out: &mut Out, thorough: bool) {
    let all: Vec<(&str, Keypair, Keypair)> = keys::TYPES.iter().map(|t| (*t, keys::keypair(t), keys::other(t))).collect();
    for (t, kp, kp2) in &all {
        for msg in [&b""[..], &b"m"[..], &b"a message of moderate length for signing"[..]] {
            let r = vcommon::guard(|| {
                let pk = kp.public();
                let sig = kp.sign(msg).expect("sign");
                let ok = pk.verify(msg, &sig);
                let other_key = kp2.public().verify(msg, &sig);
                let other_type = all.iter().filter(|(t2, _, _)| t2 != t).any(|(_, k, _)| k.public().verify(msg, &sig));
                let mut accepted = vec![];
                let mut flips = 0u64;
                // every single-bit change of the message
                for i in 0..msg.len() * 8 {
                    let mut m = msg.to_vec();
                    m[i / 8] ^= 1 << (i % 8);
                    flips += 1;
                    if pk.verify(&m, &sig) {
                        accepted.push(json!(["msg", i]));
                    }
                }
                // every single-bit change of the signature (thorough: every byte value at every position)
                for i in 0..sig.len() {
                    let vals: Vec<u8> = if thorough { (1..=255u8).collect() } else { (0..8).map(|b| 1u8 << b).collect() };
                    for v in vals {
                        let mut s = sig.clone();
                        s[i] ^= v;
                        flips += 1;
                        if pk.verify(msg, &s) {
                            accepted.push(json!(["sig", i, v]));
                        }
                    }
                }
                let mut ext = sig.clone();
                ext.push(0);
                let mut m2 = msg.to_vec();
                m2.push(0);
                json!({"ok": ok, "other_key": other_key, "other_type": other_type, "flips": flips, "accepted_flips": accepted,
                    "trunc": pk.verify(msg, &sig[..sig.len() - 1]), "ext": pk.verify(msg, &ext), "empty": pk.verify(msg, &[]),
                    "msg_ext": pk.verify(&m2, &sig)})
            });
            let mut rec = json!({"kind": "sig", "kt": t, "msglen": msg.len()});
            match r {
                Ok(v) => {
                    for (k, x) in v.as_object().unwrap() {
                        rec[k] = x.clone();
                    }
                }
                Err(m) => rec["panic"] = json!(m),
            }
            out.ev(rec);
        }
    }
}

fn env_grid(out: &mut Out, path: &str) {
    for s in vcommon::read_ndjson(path) {
        if vcommon::s(&s, "kind") != "env" {
            continue;
        }
        let t = vcommon::s(&s, "kt");
        let g = |k: &str| vcommon::n(&s, k) as usize;
        let (key, dom, tsig, tenv, pay) = (g("key"), g("dom"), g("tsig"), g("tenv"), g("pay"));
        // a vector without foreign fields has one shape; every other one is built with each foreign shape
        let shapes = if dom + tsig + tenv + pay == 0 { 1 } else { 4 };
        for v in 0..shapes {
            let r = vcommon::guard(|| {
                let signer = keys::keypair(&t);
                let other = keys::other(&t);
                // the verifier expects (DOM[0], TYP[0]); the envelope carries typ(tenv), PAY[0] and the key `key`;
                // the signature was made by `signer` over (dom(dom), typ(tsig), pay(pay))
                let sig = signer.sign(&sig_buffer(dom_v(dom, v), typ_v(tsig, v), pay_v(pay, v))).expect("sign");
                let carried = if key == 0 { signer.public() } else { other.public() };
                let bytes = envelope_bytes(&carried.encode_protobuf(), typ_v(tenv, v), PAY[0], &sig);
                match SignedEnvelope::from_protobuf_encoding(&bytes) {
                    Err(_) => json!({"decoded": false, "accepted": false, "same": true}),
                    Ok(env) => match env.payload_and_signing_key(DOM[0].to_string(), TYP[0]) {
                        Err(_) => json!({"decoded": true, "accepted": false, "same": true, "reenc": env.clone().into_protobuf_encoding() == bytes}),
                        Ok((p, k)) => json!({"decoded": true, "accepted": true, "same": p == PAY[0] && *k == carried, "reenc": env.clone().into_protobuf_encoding() == bytes}),
                    },
                }
            });
            let mut rec = s.clone();
            rec["shape"] = json!(v);
            match r {
                Ok(v) => {
                    for (k, x) in v.as_object().unwrap() {
                        rec[k] = x.clone();
                    }
                }
                Err(m) => rec["panic"] = json!(m),
            }
            out.ev(rec);
        }
    }
}

const LEGACY: (&str, &[u8]) = ("libp2p-routing-state", b"/libp2p/routing-state-record");
const INTEROP: (&str, &[u8]) = ("libp2p-peer-record", &[0x03, 0x01]);

fn record_payload(peer: &PeerId, seq: u64, addrs: &[Multiaddr]) -> Vec<u8> {
    let mut b = vec![];
    pb_bytes(1, &peer.to_bytes(), &mut b);
    pb_varint(2, seq, &mut b);
    for a in addrs {
        let mut inner = vec![];
        pb_bytes(1, &a.to_vec(), &mut inner);
        pb_bytes(3, &inner, &mut b);
    }
    b
}

fn prec_grid(out: &mut Out, path: &str) {
    for s in vcommon::read_ndjson(path) {
        if vcommon::s(&s, "kind") != "prec" {
            continue;
        }
        let t = vcommon::s(&s, "kt");
        let api = vcommon::s(&s, "api");
        let dom = vcommon::s(&s, "dom");
        let typ = vcommon::s(&s, "typ");
        let peer = vcommon::n(&s, "peer");
        let key = vcommon::n(&s, "key");
        let r = vcommon::guard(|| {
            let signer = keys::keypair(&t);
            let other = keys::other(&t);
            let addrs: Vec<Multiaddr> = vec!["/ip4/1.2.3.4/tcp/5".parse().unwrap(), "/dns4/example.org/udp/7/quic-v1".parse().unwrap()];
            let rec_peer = if peer == 0 { signer.public().to_peer_id() } else { other.public().to_peer_id() };
            let payload = record_payload(&rec_peer, 42, &addrs);
            let d = if dom == "legacy" { LEGACY.0 } else { INTEROP.0 };
            let ty = if typ == "legacy" { LEGACY.1 } else { INTEROP.1 };
            let sig = signer.sign(&sig_buffer(d, ty, &payload)).expect("sign");
            let carried = if key == 0 { signer.public() } else { other.public() };
            let bytes = envelope_bytes(&carried.encode_protobuf(), ty, &payload, &sig);
            let env = match SignedEnvelope::from_protobuf_encoding(&bytes) {
                Ok(e) => e,
                Err(_) => return json!({"accepted": false, "fields_ok": true}),
            };
            let res = if api == "legacy" { PeerRecord::from_signed_envelope(env) } else { PeerRecord::from_signed_envelope_interop(env) };
            match res {
                Err(_) => json!({"accepted": false, "fields_ok": true}),
                Ok(r) => json!({"accepted": true, "fields_ok": r.peer_id() == rec_peer && r.seq() == 42 && r.addresses() == &addrs[..]}),
            }
        });
        let mut rec = s.clone();
        match r {
            Ok(v) => {
                for (k, x) in v.as_object().unwrap() {
                    rec[k] = x.clone();
                }
            }
            Err(m) => rec["panic"] = json!(m),
        }
        out.ev(rec);
    }
    // domain / payload type that extend or truncate the API's own constants (foreign, but sharing a prefix)
    for t in keys::TYPES {
        for api in ["legacy", "interop"] {
            for (dshape, tshape) in [("own", "ext"), ("own", "cut"), ("ext", "own"), ("cut", "own"), ("ext", "ext")] {
                let r = vcommon::guard(|| {
                    let signer = keys::keypair(t);
                    let addrs: Vec<Multiaddr> = vec!["/ip4/1.2.3.4/tcp/5".parse().unwrap()];
                    let rec_peer = signer.public().to_peer_id();
                    let payload = record_payload(&rec_peer, 42, &addrs);
                    let (d0, t0) = if api == "legacy" { LEGACY } else { INTEROP };
                    let d: String = match dshape {
                        "ext" => format!("{d0}-x"),
                        "cut" => d0[..d0.len() - 1].to_string(),
                        _ => d0.to_string(),
                    };
                    let ty: Vec<u8> = match tshape {
                        "ext" => [t0, &[0x01u8][..]].concat(),
                        "cut" => t0[..t0.len() - 1].to_vec(),
                        _ => t0.to_vec(),
                    };
                    let sig = signer.sign(&sig_buffer(&d, &ty, &payload)).expect("sign");
                    let bytes = envelope_bytes(&signer.public().encode_protobuf(), &ty, &payload, &sig);
                    let env = match SignedEnvelope::from_protobuf_encoding(&bytes) {
                        Ok(e) => e,
                        Err(_) => return json!({"accepted": false, "fields_ok": true}),
                    };
                    let res = if api == "legacy" { PeerRecord::from_signed_envelope(env) } else { PeerRecord::from_signed_envelope_interop(env) };
                    json!({"accepted": res.is_ok(), "fields_ok": true})
                });
                // for the relation: a shape other than "own" is a value different from the API's
                let mut rec = json!({"kind": "prec", "kt": t, "api": api, "dom": if dshape == "own" { api } else { dshape }, "typ": if tshape == "own" { api } else { tshape }, "key": 0, "peer": 0});
                match r {
                    Ok(v) => {
                        for (k, x) in v.as_object().unwrap() {
                            rec[k] = x.clone();
                        }
                    }
                    Err(m) => rec["panic"] = json!(m),
                }
                out.ev(rec);
            }
        }
    }
    // the crate's own constructors round-trip through both APIs
    for t in keys::TYPES {
        for api in ["legacy", "interop"] {
            let r = vcommon::guard(|| {
                let kp = keys::keypair(t);
                let addrs: Vec<Multiaddr> = vec!["/ip4/9.9.9.9/tcp/1".parse().unwrap()];
                let rec = if api == "legacy" { PeerRecord::new(&kp, addrs.clone()) } else { PeerRecord::new_interop(&kp, addrs.clone()) }.expect("new");
                let bytes = rec.to_signed_envelope().into_protobuf_encoding();
                let env = SignedEnvelope::from_protobuf_encoding(&bytes).expect("decode");
                let same_api = if api == "legacy" { PeerRecord::from_signed_envelope(env.clone()) } else { PeerRecord::from_signed_envelope_interop(env.clone()) };
                let cross_api = if api == "legacy" { PeerRecord::from_signed_envelope_interop(env) } else { PeerRecord::from_signed_envelope(env) };
                json!({"kind": "prec_rt", "kt": t, "api": api, "same_ok": same_api.map(|r2| r2 == rec).unwrap_or(false), "cross_rejected": cross_api.is_err()})
            });
            match r {
                Ok(v) => out.ev(v),
                Err(m) => out.ev(json!({"kind": "prec_rt", "kt": t, "api": api, "same_ok": false, "cross_rejected": false, "panic": m})),
            }
        }
    }
}

fn mutations(out: &mut Out, thorough: bool) {
    for t in keys::TYPES {
        for what in ["env", "prec"] {
            let r = vcommon::guard(|| {
                let kp = keys::keypair(t);
                let (orig, bytes): (SignedEnvelope, Vec<u8>) = if what == "env" {
                    let e = SignedEnvelope::new(&kp, DOM[0].to_string(), TYP[0].to_vec(), PAY[0].to_vec()).expect("sign");
                    (e.clone(), e.into_protobuf_encoding())
                } else {
                    let e = PeerRecord::new_interop(&kp, vec!["/ip4/1.2.3.4/tcp/5".parse().unwrap()]).expect("record").into_signed_envelope();
                    (e.clone(), e.into_protobuf_encoding())
                };
                let (mut rejected, mut identical, mut mutants) = (0u64, 0u64, 0u64);
                let mut different = vec![];
                let masks: Vec<u8> = if thorough { (1..=255u8).collect() } else { vec![0x01, 0x02, 0x10, 0x80, 0xff, 0x7f] };
                for i in 0..bytes.len() {
                    for m in &masks {
                        let mut b = bytes.clone();
                        b[i] ^= m;
                        mutants += 1;
                        let acc = match SignedEnvelope::from_protobuf_encoding(&b) {
                            Err(_) => None,
                            Ok(env) => {
                                if what == "env" {
                                    env.payload_and_signing_key(DOM[0].to_string(), TYP[0]).ok().map(|_| env.clone())
                                } else {
                                    PeerRecord::from_signed_envelope_interop(env.clone()).ok().map(|_| env)
                                }
                            }
                        };
                        match acc {
                            None => rejected += 1,
                            Some(e) if e == orig => identical += 1,
                            Some(_) => different.push(json!([i, b[i]])),
                        }
                    }
                }
                // truncation and extension of the encoding
                for cut in 0..bytes.len() {
                    mutants += 1;
                    let acc = SignedEnvelope::from_protobuf_encoding(&bytes[..cut]).ok().and_then(|env| {
                        if what == "env" {
                            env.payload_and_signing_key(DOM[0].to_string(), TYP[0]).ok().map(|_| env.clone())
                        } else {
                            PeerRecord::from_signed_envelope_interop(env.clone()).ok().map(|_| env)
                        }
                    });
                    match acc {
                        None => rejected += 1,
                        Some(e) if e == orig => identical += 1,
                        Some(_) => different.push(json!([-1, cut])),
                    }
                }
                json!({"len": bytes.len(), "mutants": mutants, "rejected": rejected, "identical": identical, "different": different})
            });
            let mut rec = json!({"kind": "mut", "kt": t, "what": what});
            match r {
                Ok(v) => {
                    for (k, x) in v.as_object().unwrap() {
                        rec[k] = x.clone();
                    }
                }
                Err(m) => rec["panic"] = json!(m),
            }
            out.ev(rec);
        }
    }
}

pub fn main(a: &vcommon::Args) {
    vcommon::quiet_panics();
    // envelope <grid.ndjson> <quick|thorough> <out>
    let thorough = a.get(1) == "thorough";
    let mut out = Out::create(a.get(2));
    sig_part(&mut out, thorough);
    env_grid(&mut out, a.get(0));
    prec_grid(&mut out, a.get(0));
    mutations(&mut out, thorough);
    println!("records={}", out.events);
    out.finish();
    let _: Option<Value> = None;
}
