//! Real keys of every supported type (RSA from the PKCS#8 fixture copied from /repo/identity/src/test).
use libp2p_identity::Keypair;

pub const TYPES: [&str; 4] = ["ed25519", "secp256k1", "ecdsa", "rsa"];

pub fn keypair(t: &str) -> Keypair {
    match t {
        "ed25519" => Keypair::generate_ed25519(),
        "secp256k1" => Keypair::generate_secp256k1(),
        "ecdsa" => Keypair::generate_ecdsa(),
        "rsa" => {
            let mut der = include_bytes!("../rsa-2048.pk8").to_vec();
            Keypair::rsa_from_pkcs8(&mut der).expect("rsa fixture")
        }
        x => panic!("driver: key type {x}"),
    }
}

/// a second, different key of the same type
pub fn other(t: &str) -> Keypair {
    if t == "rsa" {
        let mut der = include_bytes!("../rsa-3072.pk8").to_vec();
        Keypair::rsa_from_pkcs8(&mut der).expect("rsa fixture")
    } else {
        keypair(t)
    }
}

pub fn uvarint(mut n: u64, out: &mut Vec<u8>) {
    loop {
        let b = (n & 0x7f) as u8;
        n >>= 7;
        if n == 0 {
            out.push(b);
            break;
        }
        out.push(b | 0x80);
    }
}

/// protobuf length-delimited field
pub fn pb_bytes(field: u32, data: &[u8], out: &mut Vec<u8>) {
    uvarint(((field << 3) | 2) as u64, out);
    uvarint(data.len() as u64, out);
    out.extend_from_slice(data);
}
pub fn pb_varint(field: u32, v: u64, out: &mut Vec<u8>) {
    uvarint((field << 3) as u64, out);
    uvarint(v, out);
}

pub fn hex(b: &[u8]) -> String {
    b.iter().map(|x| format!("{x:02x}")).collect()
}
