//! Driver for libp2p-core / libp2p-identity pure components:
//!   globalip  (C22)  global_only::Transport::dial over probes / exhaustive windows / the whole IPv4 space
//!   identity  (C20)  PeerId and key encodings
//!   envelope  (C21)  signatures, signed envelopes, peer records
mod envelope;
mod globalip;
mod identity;
mod keys;

fn main() {
    let a = vcommon::Args::parse();
    match a.mode.as_str() {
        "globalip" => globalip::main(&a),
        "identity" => identity::main(&a),
        "envelope" => envelope::main(&a),
        m => {
            eprintln!("unknown mode {m}");
            std::process::exit(2)
        }
    }
}
