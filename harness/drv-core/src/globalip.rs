//! C22: call the REAL `libp2p_core::transport::global_only::Transport<Recorder>::dial` and record whether the
//! address reached the inner transport ("pass") or was refused with MultiaddrNotSupported ("refuse").
//! Records: {"v":4|6,"from":[16-bit segments],"to":[..],"res":..}  = every address from..to was dialed and gave `res`
//!          {"v":0,"kind":<first component>,"res":..}
use std::{
    net::{Ipv4Addr, Ipv6Addr},
    pin::Pin,
    sync::atomic::{AtomicUsize, Ordering},
    sync::Arc,
    task::{Context, Poll},
};

use futures::future::BoxFuture;
use libp2p_core::{
    multiaddr::{Multiaddr, Protocol},
    transport::{global_only, DialOpts, ListenerId, PortUse, TransportError, TransportEvent},
    Endpoint, Transport,
};
use rand::Rng;
use vcommon::{json, Out, Value};

struct Recorder {
    calls: Arc<AtomicUsize>,
}

impl Transport for Recorder {
    type Output = ();
    type Error = std::io::Error;
    type ListenerUpgrade = BoxFuture<'static, Result<(), std::io::Error>>;
    type Dial = BoxFuture<'static, Result<(), std::io::Error>>;
    fn listen_on(&mut self, _: ListenerId, a: Multiaddr) -> Result<(), TransportError<Self::Error>> {
        Err(TransportError::MultiaddrNotSupported(a))
    }
    fn remove_listener(&mut self, _: ListenerId) -> bool {
        false
    }
    fn dial(&mut self, _: Multiaddr, _: DialOpts) -> Result<Self::Dial, TransportError<Self::Error>> {
        self.calls.fetch_add(1, Ordering::Relaxed);
        Err(TransportError::Other(std::io::Error::other("recorded")))
    }
    fn poll(self: Pin<&mut Self>, _: &mut Context<'_>) -> Poll<TransportEvent<Self::ListenerUpgrade, Self::Error>> {
        Poll::Pending
    }
}

struct Probe {
    t: global_only::Transport<Recorder>,
    calls: Arc<AtomicUsize>,
}

#[derive(Clone, Copy, PartialEq, Eq, Debug)]
enum Res {
    Pass,
    Refuse,
    Weird,
}

impl Res {
    fn s(self) -> &'static str {
        match self {
            Res::Pass => "pass",
            Res::Refuse => "refuse",
            Res::Weird => "inconsistent",
        }
    }
}

impl Probe {
    fn new() -> Self {
        let calls = Arc::new(AtomicUsize::new(0));
        Probe { t: global_only::Transport::new(Recorder { calls: calls.clone() }), calls }
    }
    fn dial(&mut self, a: Multiaddr) -> Res {
        let before = self.calls.load(Ordering::Relaxed);
        let r = self.t.dial(a, DialOpts { role: Endpoint::Dialer, port_use: PortUse::Reuse });
        let called = self.calls.load(Ordering::Relaxed) != before;
        match (r, called) {
            (Err(TransportError::Other(_)), true) => Res::Pass,
            (Err(TransportError::MultiaddrNotSupported(_)), false) => Res::Refuse,
            _ => Res::Weird,
        }
    }
    fn v4(&mut self, x: u32, tail: bool) -> Res {
        let mut m = Multiaddr::empty().with(Protocol::Ip4(Ipv4Addr::from(x)));
        if tail {
            m.push(Protocol::Tcp(4001));
        }
        self.dial(m)
    }
    fn v6(&mut self, x: u128, tail: bool) -> Res {
        let mut m = Multiaddr::empty().with(Protocol::Ip6(Ipv6Addr::from(x)));
        if tail {
            m.push(Protocol::Udp(4001));
            m.push(Protocol::QuicV1);
        }
        self.dial(m)
    }
}

fn seg4(x: u32) -> Value {
    json!([x >> 16, x & 0xffff])
}
fn seg6(x: u128) -> Value {
    Value::Array((0..8).map(|i| json!(((x >> (112 - 16 * i)) & 0xffff) as u32)).collect())
}
fn from_segs(v: &Value) -> u128 {
    v.as_array().unwrap().iter().fold(0u128, |acc, s| (acc << 16) | s.as_u64().unwrap() as u128)
}

/// exhaustive sweep of [lo, hi] (IPv4), run-length encoded
fn sweep4(p: &mut Probe, lo: u32, hi: u32, recs: &mut Vec<Value>) -> u64 {
    let mut start = lo;
    let mut cur = p.v4(lo, lo & 1 == 1);
    let mut n = 1u64;
    let mut x = lo;
    while x < hi {
        x += 1;
        let r = p.v4(x, x & 1 == 1);
        n += 1;
        if r != cur {
            recs.push(json!({"v": 4, "from": seg4(start), "to": seg4(x - 1), "res": cur.s()}));
            start = x;
            cur = r;
        }
    }
    recs.push(json!({"v": 4, "from": seg4(start), "to": seg4(hi), "res": cur.s()}));
    n
}
fn sweep6(p: &mut Probe, lo: u128, hi: u128, recs: &mut Vec<Value>) -> u64 {
    let mut start = lo;
    let mut cur = p.v6(lo, lo & 1 == 1);
    let mut n = 1u64;
    let mut x = lo;
    while x < hi {
        x += 1;
        let r = p.v6(x, x & 1 == 1);
        n += 1;
        if r != cur {
            recs.push(json!({"v": 6, "from": seg6(start), "to": seg6(x - 1), "res": cur.s()}));
            start = x;
            cur = r;
        }
    }
    recs.push(json!({"v": 6, "from": seg6(start), "to": seg6(hi), "res": cur.s()}));
    n
}

fn non_ip(p: &mut Probe, recs: &mut Vec<Value>) {
    let id = libp2p_identity::PeerId::random();
    let cases: Vec<(&str, Multiaddr)> = vec![
        ("empty", Multiaddr::empty()),
        ("dns", "/dns/example.com/tcp/1".parse().unwrap()),
        ("dns4", "/dns4/example.com/tcp/1".parse().unwrap()),
        ("dns6", "/dns6/example.com/tcp/1".parse().unwrap()),
        ("dnsaddr", "/dnsaddr/example.com".parse().unwrap()),
        ("tcp", "/tcp/1/ip4/8.8.8.8".parse().unwrap()),
        ("udp", "/udp/1/ip6/2600::1".parse().unwrap()),
        ("p2p", Multiaddr::empty().with(Protocol::P2p(id)).with(Protocol::Ip4(Ipv4Addr::new(8, 8, 8, 8)))),
        ("memory", "/memory/1234".parse().unwrap()),
        ("unix", "/unix/tmp%2Fsock".parse().unwrap()),
        ("p2p-circuit", "/p2p-circuit/ip4/8.8.8.8".parse().unwrap()),
        ("ip6zone", "/ip6zone/eth0/ip6/2600::1".parse().unwrap()),
    ];
    for (k, m) in cases {
        let r = p.dial(m);
        recs.push(json!({"v": 0, "kind": k, "res": r.s()}));
    }
}

pub fn main(a: &vcommon::Args) {
    vcommon::quiet_panics();
    let mut p = Probe::new();
    let mut recs: Vec<Value> = vec![];
    let mut calls = 0u64;
    match a.get(0) {
        // TLC-derived boundary probes: {"v":4|6,"a":[segs]}; each is dialed bare and with a transport suffix
        "probes" => {
            for s in vcommon::read_ndjson(a.get(1)) {
                let v = vcommon::n(&s, "v");
                let x = from_segs(if s.get("a").is_some() { &s["a"] } else { &s["from"] });
                for tail in [false, true] {
                    let r = if v == 4 { p.v4(x as u32, tail) } else { p.v6(x, tail) };
                    let sg = if v == 4 { seg4(x as u32) } else { seg6(x) };
                    recs.push(json!({"v": v, "from": sg.clone(), "to": sg, "res": r.s()}));
                    calls += 1;
                }
            }
            non_ip(&mut p, &mut recs);
            write(a.get(2), &recs, calls);
        }
        // exhaustive windows (+-w addresses) around every point of the probe file, plus strided / random single samples
        "windows" => {
            let w = a.num(2) as u128;
            let seed = a.num(3);
            let samples = a.num(4);
            for s in vcommon::read_ndjson(a.get(1)) {
                let v = vcommon::n(&s, "v");
                let x = from_segs(&s["a"]);
                if v == 4 {
                    let lo = x.saturating_sub(w) as u32;
                    let hi = (x + w).min(u32::MAX as u128) as u32;
                    calls += sweep4(&mut p, lo, hi, &mut recs);
                } else {
                    let lo = x.saturating_sub(w);
                    let hi = x.checked_add(w).unwrap_or(u128::MAX);
                    calls += sweep6(&mut p, lo, hi, &mut recs);
                }
            }
            let mut rng = vcommon::rng(seed);
            // strided IPv4 samples over the whole space + random ones
            let stride = (u32::MAX as u64 / samples.max(1)).max(1);
            let off = rng.gen_range(0..stride);
            let mut x = off;
            while x <= u32::MAX as u64 {
                let r = p.v4(x as u32, x & 1 == 1);
                recs.push(json!({"v": 4, "from": seg4(x as u32), "to": seg4(x as u32), "res": r.s()}));
                calls += 1;
                x += stride;
            }
            // IPv6: registry-shaped high bits with random low bits, and uniformly random addresses
            let probes: Vec<u128> = vcommon::read_ndjson(a.get(1)).iter().filter(|s| vcommon::n(s, "v") == 6).map(|s| from_segs(&s["a"])).collect();
            for i in 0..samples {
                let base = probes[i as usize % probes.len()];
                let keep = rng.gen_range(8..=128u32);
                let mask: u128 = if keep >= 128 { u128::MAX } else { !(u128::MAX >> keep) };
                let x = if i % 4 == 3 { rng.gen::<u128>() } else { (base & mask) | (rng.gen::<u128>() & !mask) };
                let r = p.v6(x, x & 1 == 1);
                recs.push(json!({"v": 6, "from": seg6(x), "to": seg6(x), "res": r.s()}));
                calls += 1;
            }
            write(a.get(5), &recs, calls);
        }
        // the WHOLE IPv4 space, one run-length encoded sweep per /8, `threads` workers
        "all4" => {
            let threads = a.num(1) as usize;
            let chunks: Vec<u32> = (0..256).collect();
            let next = Arc::new(AtomicUsize::new(0));
            let mut hs = vec![];
            for _ in 0..threads {
                let next = next.clone();
                let chunks = chunks.clone();
                hs.push(std::thread::spawn(move || {
                    let mut p = Probe::new();
                    let mut out: Vec<(u32, Vec<Value>, u64)> = vec![];
                    loop {
                        let i = next.fetch_add(1, Ordering::SeqCst);
                        if i >= chunks.len() {
                            break;
                        }
                        let o = chunks[i];
                        let mut recs = vec![];
                        let n = sweep4(&mut p, o << 24, (o << 24) | 0x00ff_ffff, &mut recs);
                        out.push((o, recs, n));
                    }
                    out
                }));
            }
            let mut all: Vec<(u32, Vec<Value>, u64)> = vec![];
            for h in hs {
                all.extend(h.join().expect("sweep thread"));
            }
            all.sort_by_key(|x| x.0);
            for (_, r, n) in all {
                recs.extend(r);
                calls += n;
            }
            write(a.get(2), &recs, calls);
        }
        m => panic!("globalip mode {m}"),
    }
}

fn write(path: &str, recs: &[Value], calls: u64) {
    let mut out = Out::create(path);
    for r in recs {
        out.ev(r.clone());
    }
    println!("records={} dial_calls={}", recs.len(), calls);
    out.finish();
}
