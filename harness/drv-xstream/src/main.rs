//! X01 driver: the REAL `libp2p_stream::Behaviour`, its REAL connection handlers, `Control` and `IncomingStreams`.
//! The driver plays the Swarm (dials, connections, substream negotiation results) and the application
//! (accept / drop / poll IncomingStreams, open_stream futures), everything polled by hand.
//!
//!   drv-xstream exhaustive <len> <out> | random <seed> <runs> <out> | replay <file> <out>
//!
//! Remote peers 1..2, protocols 0 = /a, 1 = /b, 2 = /c (never registered). Connections are numbered 1, 2, .. in order
//! of establishment. Every negotiated stream carries a serial number (its first byte), so that streams are identified
//! wherever they come out.
//!
//! Schedule {"ops":[op..]}:
//!   {"a":"accept","p"} {"a":"dropinc","p"} {"a":"recv","p"}              Control::accept / drop IncomingStreams / ONE poll_next
//!   {"a":"open","peer","p"} {"a":"cancel","i"}                         a new open_stream future (polled at once) / drop it
//!   {"a":"pollbeh"}                                                    ONE Behaviour::poll; a Dial is checked against its PeerCondition as Swarm::dial does
//!   {"a":"dialok","peer"} {"a":"dialfail","peer","k"}                  the oldest pending dial to peer succeeds / fails
//!          k: transport | denied | noaddr | wrongpeer | aborted | local
//!   {"a":"inconn","peer"} {"a":"close","c"}                            inbound connection established / connection closed
//!   {"a":"dialdeny","peer"} {"a":"indeny","peer"}                      the connection is denied by another behaviour AFTER this one built
//!                                                                      its handler (the handler is dropped unused; DialFailure(Denied) / ListenFailure)
//!   {"a":"pollh","c"}                                                  ONE ConnectionHandler::poll of connection c
//!   {"a":"outok","c"} {"a":"outfail","c","k":"neg|io|timeout"}         answer the oldest outstanding substream request of c
//!   {"a":"inb","c","p"}                                                an inbound substream for protocol p: listen_protocol, then (if offered) FullyNegotiatedInbound
//!   {"a":"inb1","c","p"} {"a":"inb2","k"}                              the same in two steps (negotiation takes time)
//! After every op all unresolved open_stream futures are polled until nothing moves (`res` events).
//! Every run ends with a drain (behaviour and handlers polled until Pending) and an `end` event.
use std::{
    collections::VecDeque,
    future::Future,
    pin::Pin,
    task::Poll,
};

use futures::{io::AsyncRead, Stream as _};
use libp2p_core::{multiaddr::Protocol, muxing::SubstreamBox, transport::PortUse, ConnectedPoint, Endpoint, Multiaddr};
use libp2p_identity::PeerId;
use libp2p_stream as stream;
use libp2p_swarm::{
    behaviour::{ConnectionClosed, ConnectionEstablished, DialFailure, FromSwarm},
    dial_opts::PeerCondition,
    handler::{ConnectionEvent, ConnectionHandlerEvent, DialUpgradeError, FullyNegotiatedInbound, FullyNegotiatedOutbound},
    ConnectionDenied, ConnectionHandler, ConnectionId, DialError, NetworkBehaviour, Stream, StreamProtocol, StreamUpgradeError, THandler, ToSwarm,
};
use libp2p_core::upgrade::UpgradeInfo;
use rand::Rng;
use vcommon::{exec::Det, guard, json, pipe, Args, Out, Value};

const PROTOS: [&str; 3] = ["/a", "/b", "/c"];
const NPEER: usize = 2;

type Hdl = THandler<stream::Behaviour>;
type OpenFut = Pin<Box<dyn Future<Output = Result<Stream, stream::OpenStreamError>>>>;

fn pidx(name: &str) -> i64 {
    PROTOS.iter().position(|p| *p == name).map(|i| i as i64).unwrap_or(-1)
}

/// A negotiated stream whose first readable byte is `serial`. `outbound`: the local side was the dialer.
fn mkstream(det: &Det, proto: &'static str, serial: u8, outbound: bool) -> Stream {
    let (a, b, _ctl) = pipe::pipe(true);
    if outbound {
        let d = multistream_select::dialer_select_proto(SubstreamBox::new(a), vec![proto], multistream_select::Version::V1);
        let l = multistream_select::listener_select_proto(b, vec![proto]);
        let mut both = Box::pin(futures::future::join(d, l));
        let (rd, rl) = det.run_until_stalled(both.as_mut(), 1000).expect("negotiation completes");
        let (_, io) = rd.expect("dialer");
        let (_, remote) = rl.expect("listener");
        finish_remote(det, remote, serial);
        libp2p_swarm::verif::stream(io)
    } else {
        let d = multistream_select::dialer_select_proto(a, vec![proto], multistream_select::Version::V1);
        let l = multistream_select::listener_select_proto(SubstreamBox::new(b), vec![proto]);
        let mut both = Box::pin(futures::future::join(d, l));
        let (rd, rl) = det.run_until_stalled(both.as_mut(), 1000).expect("negotiation completes");
        let (_, remote) = rd.expect("dialer");
        let (_, io) = rl.expect("listener");
        finish_remote(det, remote, serial);
        libp2p_swarm::verif::stream(io)
    }
}

fn finish_remote<T: futures::io::AsyncWrite + Unpin>(det: &Det, mut remote: T, serial: u8) {
    use futures::io::AsyncWriteExt;
    {
        let mut w = Box::pin(async {
            remote.write_all(&[serial]).await.expect("write serial");
            remote.flush().await.expect("flush serial");
        });
        det.run_until_stalled(w.as_mut(), 100).expect("serial written");
    }
    std::mem::forget(remote);
}

fn read_serial(det: &Det, s: &mut Stream) -> i64 {
    let mut b = [0u8; 1];
    let mut cx = det.cx();
    match Pin::new(s).poll_read(&mut cx, &mut b) {
        Poll::Ready(Ok(1)) => b[0] as i64,
        _ => -1,
    }
}

struct Conn {
    id: ConnectionId,
    peer: usize,
    handler: Hdl,
    endpoint: ConnectedPoint,
    outstanding: VecDeque<&'static str>,
}

struct OpenSlot {
    fut: Option<OpenFut>,
}

struct World {
    beh: stream::Behaviour,
    ctl: stream::Control,
    peers: Vec<PeerId>,
    conns: Vec<Option<Conn>>, // index c-1
    dials: Vec<VecDeque<ConnectionId>>, // per peer index (1..=NPEER)
    incs: [Option<stream::IncomingStreams>; 3],
    opens: Vec<OpenSlot>,
    inb_pending: Vec<Option<(usize, usize, bool)>>, // (conn index, proto, accepted)
    serial: u8,
    next_cid: usize,
    det: Det,
    evs: Vec<Value>,
    held: Vec<Stream>,
}

fn addr(peer: usize, c: usize) -> Multiaddr {
    Multiaddr::empty().with(Protocol::Memory((1000 * peer + c) as u64))
}

impl World {
    fn new(peers: &[PeerId]) -> Self {
        let beh = stream::Behaviour::new();
        let ctl = beh.new_control();
        World {
            beh,
            ctl,
            peers: peers.to_vec(),
            conns: vec![],
            dials: vec![VecDeque::new(); NPEER + 1],
            incs: [None, None, None],
            opens: vec![],
            inb_pending: vec![],
            serial: 0,
            next_cid: 1,
            det: Det::new(),
            evs: vec![],
            held: vec![],
        }
    }

    fn peer_of(&self, p: &PeerId) -> i64 {
        self.peers.iter().position(|x| x == p).map(|i| i as i64).unwrap_or(-1)
    }

    fn connected(&self, peer: usize) -> usize {
        self.conns.iter().flatten().filter(|c| c.peer == peer).count()
    }

    fn live_conns(&self) -> Vec<usize> {
        (0..self.conns.len()).filter(|i| self.conns[*i].is_some()).collect()
    }

    fn pick_conn(&self, op: &Value) -> Option<usize> {
        let live = self.live_conns();
        if live.is_empty() {
            return None;
        }
        Some(live[op["c"].as_u64().unwrap_or(0) as usize % live.len()])
    }

    fn establish(&mut self, peer: usize, id: ConnectionId, outbound: bool) {
        let c = self.conns.len() + 1;
        let a = addr(peer, c);
        let local: Multiaddr = Multiaddr::empty().with(Protocol::Memory(1));
        let (handler, endpoint) = if outbound {
            (
                self.beh.handle_established_outbound_connection(id, self.peers[peer], &a, Endpoint::Dialer, PortUse::New).expect("never denied"),
                ConnectedPoint::Dialer { address: a, role_override: Endpoint::Dialer, port_use: PortUse::New },
            )
        } else {
            (
                self.beh.handle_established_inbound_connection(id, self.peers[peer], &local, &a).expect("never denied"),
                ConnectedPoint::Listener { local_addr: local, send_back_addr: a },
            )
        };
        let other = self.connected(peer);
        self.conns.push(Some(Conn { id, peer, handler, endpoint, outstanding: VecDeque::new() }));
        let ep = self.conns[c - 1].as_ref().unwrap().endpoint.clone();
        self.beh.on_swarm_event(FromSwarm::ConnectionEstablished(ConnectionEstablished {
            peer_id: self.peers[peer],
            connection_id: id,
            endpoint: &ep,
            failed_addresses: &[],
            other_established: other,
        }));
        self.evs.push(json!({"e": "est", "c": c, "peer": peer, "dir": if outbound { "out" } else { "in" }}));
    }

    fn poll_beh(&mut self) -> bool {
        let mut cx = self.det.cx();
        match self.beh.poll(&mut cx) {
            Poll::Pending => {
                self.evs.push(json!({"e": "pollbeh", "res": "pending", "peer": 0, "cond": ""}));
                false
            }
            Poll::Ready(ToSwarm::Dial { opts }) => {
                let peer = opts.get_peer_id().map(|p| self.peer_of(&p)).unwrap_or(-1);
                let (_, _, cond) = libp2p_swarm::verif::dial_opts_settings(&opts);
                let cs = format!("{cond:?}");
                if peer < 1 {
                    self.evs.push(json!({"e": "pollbeh", "res": "dialother", "peer": peer, "cond": cs}));
                    return true;
                }
                let p = peer as usize;
                let connected = self.connected(p) > 0;
                let dialing = !self.dials[p].is_empty();
                let go = match cond {
                    PeerCondition::Always => true,
                    PeerCondition::Disconnected => !connected,
                    PeerCondition::NotDialing => !dialing,
                    PeerCondition::DisconnectedAndNotDialing => !connected && !dialing,
                };
                if go {
                    self.dials[p].push_back(opts.connection_id());
                    self.evs.push(json!({"e": "pollbeh", "res": "dial", "peer": peer, "cond": cs}));
                } else {
                    self.evs.push(json!({"e": "pollbeh", "res": "dialskip", "peer": peer, "cond": cs}));
                    let e = DialError::DialPeerConditionFalse(cond);
                    self.beh.on_swarm_event(FromSwarm::DialFailure(DialFailure { peer_id: Some(self.peers[p]), error: &e, connection_id: opts.connection_id() }));
                }
                true
            }
            Poll::Ready(_) => {
                self.evs.push(json!({"e": "pollbeh", "res": "other", "peer": 0, "cond": ""}));
                true
            }
        }
    }

    fn poll_handler(&mut self, ci: usize) -> bool {
        let mut cx = self.det.cx();
        let conn = self.conns[ci].as_mut().unwrap();
        match conn.handler.poll(&mut cx) {
            Poll::Pending => {
                self.evs.push(json!({"e": "pollh", "c": ci + 1, "res": "pending", "protos": [], "to": 0}));
                false
            }
            Poll::Ready(ConnectionHandlerEvent::OutboundSubstreamRequest { protocol }) => {
                let to = protocol.timeout().as_millis() as u64;
                let names: Vec<String> = protocol.upgrade().protocol_info().map(|p| p.as_ref().to_string()).collect();
                let idx: Vec<i64> = names.iter().map(|n| pidx(n)).collect();
                let first = names.first().and_then(|n| PROTOS.iter().find(|p| **p == n.as_str())).copied().unwrap_or("/c");
                conn.outstanding.push_back(first);
                self.evs.push(json!({"e": "pollh", "c": ci + 1, "res": "osr", "protos": idx, "to": to}));
                true
            }
            Poll::Ready(_) => {
                self.evs.push(json!({"e": "pollh", "c": ci + 1, "res": "other", "protos": [], "to": 0}));
                true
            }
        }
    }

    /// poll all unresolved open_stream futures until nothing moves
    fn settle(&mut self) {
        for _ in 0..8 {
            let before = self.det.wakes();
            let mut any = false;
            for i in 0..self.opens.len() {
                let Some(mut f) = self.opens[i].fut.take() else { continue };
                match self.det.poll(f.as_mut()) {
                    Poll::Pending => self.opens[i].fut = Some(f),
                    Poll::Ready(r) => {
                        any = true;
                        let ev = match r {
                            Ok(mut s) => {
                                let ser = read_serial(&self.det, &mut s);
                                self.held.push(s);
                                json!({"e": "res", "i": i + 1, "k": "ok", "ser": ser, "proto": -1, "iok": ""})
                            }
                            Err(stream::OpenStreamError::UnsupportedProtocol(p)) => json!({"e": "res", "i": i + 1, "k": "unsupported", "ser": 0, "proto": pidx(p.as_ref()), "iok": ""}),
                            Err(stream::OpenStreamError::Io(e)) => json!({"e": "res", "i": i + 1, "k": "io", "ser": 0, "proto": -1, "iok": format!("{:?}", e.kind())}),
                            Err(_) => json!({"e": "res", "i": i + 1, "k": "other", "ser": 0, "proto": -1, "iok": ""}),
                        };
                        self.evs.push(ev);
                    }
                }
            }
            if !any && self.det.wakes() == before {
                break;
            }
        }
    }

    fn step(&mut self, op: &Value) {
        let a = op["a"].as_str().unwrap_or("");
        let p = op["p"].as_u64().unwrap_or(0) as usize % 3;
        let peer = (op["peer"].as_u64().unwrap_or(1) as usize).clamp(1, NPEER);
        match a {
            "accept" => {
                let r = self.ctl.accept(StreamProtocol::new(PROTOS[p]));
                match r {
                    Ok(inc) => {
                        // an old handle that is still stored is NOT dropped here: AlreadyRegistered would have been returned
                        if self.incs[p].is_some() {
                            self.evs.push(json!({"e": "accept", "p": p, "res": "ok-while-live"}));
                        } else {
                            self.evs.push(json!({"e": "accept", "p": p, "res": "ok"}));
                        }
                        self.incs[p] = Some(inc);
                    }
                    Err(_) => self.evs.push(json!({"e": "accept", "p": p, "res": "already"})),
                }
            }
            "dropinc" => {
                if self.incs[p].take().is_some() {
                    self.evs.push(json!({"e": "dropinc", "p": p}));
                } else {
                    self.evs.push(json!({"e": "skip"}));
                }
            }
            "recv" => {
                let Some(inc) = self.incs[p].as_mut() else {
                    self.evs.push(json!({"e": "skip"}));
                    return;
                };
                let mut cx = self.det.cx();
                match Pin::new(inc).poll_next(&mut cx) {
                    Poll::Pending => self.evs.push(json!({"e": "recv", "p": p, "res": "none", "peer": 0, "ser": 0})),
                    Poll::Ready(None) => self.evs.push(json!({"e": "recv", "p": p, "res": "end", "peer": 0, "ser": 0})),
                    Poll::Ready(Some((who, mut s))) => {
                        let ser = read_serial(&self.det, &mut s);
                        self.held.push(s);
                        let who = self.peer_of(&who);
                        self.evs.push(json!({"e": "recv", "p": p, "res": "some", "peer": who, "ser": ser}));
                    }
                }
            }
            "open" => {
                let mut ctl = self.ctl.clone();
                let target = self.peers[peer];
                let proto = StreamProtocol::new(PROTOS[p]);
                let fut: OpenFut = Box::pin(async move { ctl.open_stream(target, proto).await });
                self.opens.push(OpenSlot { fut: Some(fut) });
                self.evs.push(json!({"e": "open", "i": self.opens.len(), "peer": peer, "p": p}));
            }
            "cancel" => {
                let live: Vec<usize> = (0..self.opens.len()).filter(|i| self.opens[*i].fut.is_some()).collect();
                if live.is_empty() {
                    self.evs.push(json!({"e": "skip"}));
                    return;
                }
                let i = live[op["i"].as_u64().unwrap_or(0) as usize % live.len()];
                self.opens[i].fut = None;
                self.evs.push(json!({"e": "cancel", "i": i + 1}));
            }
            "pollbeh" => {
                self.poll_beh();
            }
            "dialok" | "dialfail" => {
                let Some(id) = self.dials[peer].pop_front() else {
                    self.evs.push(json!({"e": "skip"}));
                    return;
                };
                if a == "dialok" {
                    if self.conns.len() >= 6 {
                        // keep runs small: the attempt fails instead
                        let e = DialError::Transport(vec![]);
                        self.evs.push(json!({"e": "dialfail", "peer": peer, "k": "transport"}));
                        self.beh.on_swarm_event(FromSwarm::DialFailure(DialFailure { peer_id: Some(self.peers[peer]), error: &e, connection_id: id }));
                        return;
                    }
                    self.establish(peer, id, true);
                } else {
                    let k = op["k"].as_str().unwrap_or("transport");
                    let (k, e) = match k {
                        "denied" => ("denied", DialError::Denied { cause: ConnectionDenied::new(std::io::Error::other("scripted")) }),
                        "noaddr" => ("noaddr", DialError::NoAddresses),
                        "wrongpeer" => ("wrongpeer", DialError::WrongPeerId { obtained: self.peers[0], address: addr(peer, 0) }),
                        "aborted" => ("aborted", DialError::Aborted),
                        "local" => ("local", DialError::LocalPeerId { address: addr(peer, 0) }),
                        _ => ("transport", DialError::Transport(vec![])),
                    };
                    self.evs.push(json!({"e": "dialfail", "peer": peer, "k": k}));
                    self.beh.on_swarm_event(FromSwarm::DialFailure(DialFailure { peer_id: Some(self.peers[peer]), error: &e, connection_id: id }));
                }
            }
            "dialdeny" => {
                let Some(id) = self.dials[peer].pop_front() else {
                    self.evs.push(json!({"e": "skip"}));
                    return;
                };
                let a = addr(peer, 99);
                let h = self.beh.handle_established_outbound_connection(id, self.peers[peer], &a, Endpoint::Dialer, PortUse::New).expect("never denied");
                self.evs.push(json!({"e": "dialfail", "peer": peer, "k": "denied-late"}));
                drop(h);
                let e = DialError::Denied { cause: ConnectionDenied::new(std::io::Error::other("scripted")) };
                self.beh.on_swarm_event(FromSwarm::DialFailure(DialFailure { peer_id: Some(self.peers[peer]), error: &e, connection_id: id }));
            }
            "indeny" => {
                let id = ConnectionId::new_unchecked(7000 + self.next_cid);
                self.next_cid += 1;
                let a = addr(peer, 98);
                let local: Multiaddr = Multiaddr::empty().with(Protocol::Memory(1));
                let h = self.beh.handle_established_inbound_connection(id, self.peers[peer], &local, &a).expect("never denied");
                self.evs.push(json!({"e": "indeny", "peer": peer}));
                drop(h);
                let e = libp2p_swarm::ListenError::Denied { cause: ConnectionDenied::new(std::io::Error::other("scripted")) };
                self.beh.on_swarm_event(FromSwarm::ListenFailure(libp2p_swarm::behaviour::ListenFailure {
                    local_addr: &local,
                    send_back_addr: &a,
                    error: &e,
                    connection_id: id,
                    peer_id: Some(self.peers[peer]),
                }));
            }
            "inconn" => {
                if self.conns.len() >= 6 {
                    self.evs.push(json!({"e": "skip"}));
                    return;
                }
                let id = ConnectionId::new_unchecked(7000 + self.next_cid);
                self.next_cid += 1;
                self.establish(peer, id, false);
            }
            "close" => {
                let Some(ci) = self.pick_conn(op) else {
                    self.evs.push(json!({"e": "skip"}));
                    return;
                };
                let conn = self.conns[ci].take().unwrap();
                let remaining = self.connected(conn.peer);
                self.evs.push(json!({"e": "close", "c": ci + 1, "peer": conn.peer}));
                self.beh.on_swarm_event(FromSwarm::ConnectionClosed(ConnectionClosed {
                    peer_id: self.peers[conn.peer],
                    connection_id: conn.id,
                    endpoint: &conn.endpoint,
                    cause: None,
                    remaining_established: remaining,
                }));
                drop(conn);
            }
            "pollh" => {
                let Some(ci) = self.pick_conn(op) else {
                    self.evs.push(json!({"e": "skip"}));
                    return;
                };
                self.poll_handler(ci);
            }
            "outok" | "outfail" => {
                let Some(ci) = self.pick_conn(op) else {
                    self.evs.push(json!({"e": "skip"}));
                    return;
                };
                let Some(proto) = self.conns[ci].as_mut().unwrap().outstanding.pop_front() else {
                    self.evs.push(json!({"e": "skip"}));
                    return;
                };
                if a == "outok" {
                    self.serial += 1;
                    let s = mkstream(&self.det, proto, self.serial, true);
                    self.evs.push(json!({"e": "outok", "c": ci + 1, "proto": pidx(proto), "ser": self.serial}));
                    self.conns[ci].as_mut().unwrap().handler.on_connection_event(ConnectionEvent::FullyNegotiatedOutbound(FullyNegotiatedOutbound {
                        protocol: (s, StreamProtocol::new(proto)),
                        info: (),
                    }));
                } else {
                    let (k, error) = match op["k"].as_str().unwrap_or("neg") {
                        "io" => ("io", StreamUpgradeError::Io(std::io::Error::other("scripted"))),
                        "timeout" => ("timeout", StreamUpgradeError::Timeout),
                        _ => ("neg", StreamUpgradeError::NegotiationFailed),
                    };
                    self.evs.push(json!({"e": "outfail", "c": ci + 1, "proto": pidx(proto), "k": k}));
                    self.conns[ci].as_mut().unwrap().handler.on_connection_event(ConnectionEvent::DialUpgradeError(DialUpgradeError { info: (), error }));
                }
            }
            "inb" | "inb1" => {
                let Some(ci) = self.pick_conn(op) else {
                    self.evs.push(json!({"e": "skip"}));
                    return;
                };
                let conn = self.conns[ci].as_mut().unwrap();
                let lp = conn.handler.listen_protocol();
                let mut offered: Vec<i64> = lp.upgrade().protocol_info().map(|x| pidx(x.as_ref())).collect();
                offered.sort();
                let acc = offered.contains(&(p as i64));
                let cpeer = conn.peer;
                if a == "inb1" {
                    self.inb_pending.push(Some((ci, p, acc)));
                    self.evs.push(json!({"e": "inb1", "c": ci + 1, "peer": cpeer, "p": p, "offered": offered, "acc": acc, "k": self.inb_pending.len()}));
                    return;
                }
                let mut ser = 0;
                if acc {
                    self.serial += 1;
                    ser = self.serial;
                }
                self.evs.push(json!({"e": "inb", "c": ci + 1, "peer": cpeer, "p": p, "offered": offered, "acc": acc, "ser": ser}));
                if acc {
                    let s = mkstream(&self.det, PROTOS[p], ser, false);
                    self.conns[ci].as_mut().unwrap().handler.on_connection_event(ConnectionEvent::FullyNegotiatedInbound(FullyNegotiatedInbound {
                        protocol: (s, StreamProtocol::new(PROTOS[p])),
                        info: (),
                    }));
                }
            }
            "inb2" => {
                let live: Vec<usize> = (0..self.inb_pending.len()).filter(|i| self.inb_pending[*i].is_some()).collect();
                if live.is_empty() {
                    self.evs.push(json!({"e": "skip"}));
                    return;
                }
                let k = live[op["k"].as_u64().unwrap_or(0) as usize % live.len()];
                let (ci, p, acc) = self.inb_pending[k].take().unwrap();
                if !acc || self.conns[ci].is_none() {
                    self.evs.push(json!({"e": "inb2", "k": k + 1, "c": ci + 1, "peer": 0, "p": p, "ser": 0, "gone": true}));
                    return;
                }
                self.serial += 1;
                let ser = self.serial;
                let cpeer = self.conns[ci].as_ref().unwrap().peer;
                self.evs.push(json!({"e": "inb2", "k": k + 1, "c": ci + 1, "peer": cpeer, "p": p, "ser": ser, "gone": false}));
                let s = mkstream(&self.det, PROTOS[p], ser, false);
                self.conns[ci].as_mut().unwrap().handler.on_connection_event(ConnectionEvent::FullyNegotiatedInbound(FullyNegotiatedInbound {
                    protocol: (s, StreamProtocol::new(PROTOS[p])),
                    info: (),
                }));
            }
            _ => self.evs.push(json!({"e": "skip"})),
        }
    }

    /// end of run: everything that can move without the environment does move
    fn drain(&mut self) {
        for _ in 0..20 {
            let mut moved = false;
            for _ in 0..10 {
                if !self.poll_beh() {
                    break;
                }
                moved = true;
                self.settle();
            }
            for ci in self.live_conns() {
                for _ in 0..10 {
                    if !self.poll_handler(ci) {
                        break;
                    }
                    moved = true;
                    self.settle();
                }
            }
            if !moved {
                break;
            }
        }
        self.evs.push(json!({"e": "end"}));
    }
}

/// Seeded random run generated ONLINE: every step is chosen among the steps that are possible in the current state
/// (so that few steps are wasted); the concrete ops are recorded as the schedule, which replays identically.
fn run_online(rng: &mut impl Rng, len: usize, peers: &[PeerId]) -> (Value, Vec<Value>) {
    let mut w = World::new(peers);
    let mut ops: Vec<Value> = vec![];
    for _ in 0..len {
        let peer = rng.gen_range(1..=NPEER);
        let p = if rng.gen_bool(0.92) { rng.gen_range(0..2) } else { 2 };
        let live = w.live_conns();
        let mut cand: Vec<(u32, Value)> = vec![
            (6, json!({"a": "accept", "p": p})),
            (12, json!({"a": "open", "peer": peer, "p": p})),
            (8, json!({"a": "pollbeh"})),
            (4, json!({"a": "inconn", "peer": peer})),
            (1, json!({"a": "indeny", "peer": peer})),
        ];
        if w.incs[p].is_some() {
            cand.push((3, json!({"a": "dropinc", "p": p})));
            cand.push((9, json!({"a": "recv", "p": p})));
        }
        if w.opens.iter().any(|o| o.fut.is_some()) {
            cand.push((2, json!({"a": "cancel", "i": rng.gen_range(0..4)})));
        }
        if !w.dials[peer].is_empty() {
            cand.push((8, json!({"a": "dialok", "peer": peer})));
            cand.push((6, json!({"a": "dialfail", "peer": peer, "k": (["transport", "denied", "noaddr", "wrongpeer", "aborted", "local"][rng.gen_range(0..6)])})));
            cand.push((1, json!({"a": "dialdeny", "peer": peer})));
        }
        if !live.is_empty() {
            let k = rng.gen_range(0..live.len());
            let ci = live[k];
            cand.push((4, json!({"a": "close", "c": k})));
            cand.push((12, json!({"a": "pollh", "c": k})));
            cand.push((9, json!({"a": "inb", "c": k, "p": p})));
            cand.push((3, json!({"a": "inb1", "c": k, "p": p})));
            if !w.conns[ci].as_ref().unwrap().outstanding.is_empty() {
                cand.push((10, json!({"a": "outok", "c": k})));
                cand.push((7, json!({"a": "outfail", "c": k, "k": (["neg", "io", "timeout"][rng.gen_range(0..3)])})));
            }
        }
        if w.inb_pending.iter().any(|x| x.is_some()) {
            cand.push((4, json!({"a": "inb2", "k": rng.gen_range(0..3)})));
        }
        let total: u32 = cand.iter().map(|c| c.0).sum();
        let mut x = rng.gen_range(0..total);
        let mut chosen = cand[0].1.clone();
        for (wgt, op) in cand {
            if x < wgt {
                chosen = op;
                break;
            }
            x -= wgt;
        }
        ops.push(chosen.clone());
        let r = guard(|| {
            w.step(&chosen);
            w.settle();
        });
        if let Err(msg) = r {
            w.evs.push(json!({"e": "panic", "msg": msg}));
            return (json!({"ops": ops}), std::mem::take(&mut w.evs));
        }
    }
    if let Err(msg) = guard(|| w.drain()) {
        w.evs.push(json!({"e": "panic", "msg": msg}));
    }
    let evs = std::mem::take(&mut w.evs);
    let _ = guard(move || drop(w));
    (json!({"ops": ops}), evs)
}

fn run(sched: &Value, peers: &[PeerId]) -> Vec<Value> {
    let mut w = World::new(peers);
    for op in sched["ops"].as_array().cloned().unwrap_or_default() {
        let r = guard(|| {
            w.step(&op);
            w.settle();
        });
        if let Err(msg) = r {
            w.evs.push(json!({"e": "panic", "msg": msg}));
            return std::mem::take(&mut w.evs);
        }
    }
    if let Err(msg) = guard(|| w.drain()) {
        w.evs.push(json!({"e": "panic", "msg": msg}));
    }
    let evs = std::mem::take(&mut w.evs);
    // streams were created with forgotten remote ends; dropping the world must not panic either
    let _ = guard(move || drop(w));
    evs
}

fn emit(out: &mut Out, sched: &Value, evs: Vec<Value>) {
    out.reset(sched);
    for e in evs {
        out.ev(e);
    }
}

fn letters() -> Vec<Value> {
    vec![
        json!({"a": "accept", "p": 0}),
        json!({"a": "dropinc", "p": 0}),
        json!({"a": "recv", "p": 0}),
        json!({"a": "inconn", "peer": 1}),
        json!({"a": "inb", "c": 0, "p": 0}),
        json!({"a": "open", "peer": 1, "p": 0}),
        json!({"a": "open", "peer": 2, "p": 1}),
        json!({"a": "pollbeh"}),
        json!({"a": "dialok", "peer": 1}),
        json!({"a": "dialfail", "peer": 1, "k": "transport"}),
        json!({"a": "pollh", "c": 0}),
        json!({"a": "outok", "c": 0}),
        json!({"a": "outfail", "c": 0, "k": "neg"}),
        json!({"a": "close", "c": 0}),
    ]
}

fn random_op(rng: &mut impl Rng) -> Value {
    let peer = rng.gen_range(1..=NPEER);
    let p = if rng.gen_bool(0.9) { rng.gen_range(0..2) } else { 2 };
    match rng.gen_range(0..100) {
        0..=7 => json!({"a": "accept", "p": p}),
        8..=11 => json!({"a": "dropinc", "p": p}),
        12..=19 => json!({"a": "recv", "p": p}),
        20..=31 => json!({"a": "open", "peer": peer, "p": p}),
        32..=33 => json!({"a": "cancel", "i": rng.gen_range(0..4)}),
        34..=43 => json!({"a": "pollbeh"}),
        44..=49 => json!({"a": "dialok", "peer": peer}),
        50..=54 => json!({"a": "dialfail", "peer": peer, "k": (["transport", "denied", "noaddr", "wrongpeer", "aborted", "local"][rng.gen_range(0..6)])}),
        55..=58 => json!({"a": "inconn", "peer": peer}),
        59 => json!({"a": (["dialdeny", "indeny"][rng.gen_range(0..2)]), "peer": peer}),
        60..=63 => json!({"a": "close", "c": rng.gen_range(0..4)}),
        64..=75 => json!({"a": "pollh", "c": rng.gen_range(0..4)}),
        76..=81 => json!({"a": "outok", "c": rng.gen_range(0..4)}),
        82..=86 => json!({"a": "outfail", "c": rng.gen_range(0..4), "k": (["neg", "io", "timeout"][rng.gen_range(0..3)])}),
        87..=93 => json!({"a": "inb", "c": rng.gen_range(0..4), "p": p}),
        94..=96 => json!({"a": "inb1", "c": rng.gen_range(0..4), "p": p}),
        _ => json!({"a": "inb2", "k": rng.gen_range(0..3)}),
    }
}

fn main() {
    vcommon::quiet_panics();
    let a = Args::parse();
    let peers: Vec<PeerId> = (0..=NPEER).map(|_| PeerId::random()).collect();
    match a.mode.as_str() {
        "exhaustive" => {
            let len = a.num(0) as usize;
            let mut out = Out::create(a.get(1));
            let abc = letters();
            let mut n = 0u64;
            for l in 1..=len {
                let mut idx = vec![0usize; l];
                'seqs: loop {
                    let ops: Vec<Value> = idx.iter().map(|i| abc[*i].clone()).collect();
                    let sched = json!({"ops": ops});
                    let evs = run(&sched, &peers);
                    if !evs.iter().any(|e| e["e"] == "skip") {
                        emit(&mut out, &sched, evs);
                        n += 1;
                    }
                    let mut k = l;
                    loop {
                        if k == 0 {
                            break 'seqs;
                        }
                        k -= 1;
                        idx[k] += 1;
                        if idx[k] < abc.len() {
                            break;
                        }
                        idx[k] = 0;
                    }
                }
            }
            println!("runs={n} events={}", out.events);
            out.finish();
        }
        "random" => {
            let seed = a.num(0);
            let runs = a.num(1);
            let mut out = Out::create(a.get(2));
            let mut rng = vcommon::rng(seed ^ 0x57e4a1);
            for k in 0..runs {
                let len = rng.gen_range(6..45);
                if k % 4 == 3 {
                    // blind schedules too (they also contain impossible steps, which are skipped)
                    let ops: Vec<Value> = (0..len).map(|_| random_op(&mut rng)).collect();
                    let sched = json!({"ops": ops});
                    let evs = run(&sched, &peers);
                    emit(&mut out, &sched, evs);
                } else {
                    let (sched, evs) = run_online(&mut rng, len, &peers);
                    emit(&mut out, &sched, evs);
                }
            }
            println!("runs={runs} events={}", out.events);
            out.finish();
        }
        "replay" => {
            let scheds = vcommon::read_schedules(a.get(0));
            let mut out = Out::create(a.get(1));
            for s in &scheds {
                let evs = run(s, &peers);
                emit(&mut out, s, evs);
            }
            println!("runs={} events={}", scheds.len(), out.events);
            out.finish();
        }
        m => {
            eprintln!("unknown mode {m}");
            std::process::exit(2)
        }
    }
}
