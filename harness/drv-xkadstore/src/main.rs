//! Driver for the Kademlia record-store extension component:
//!   serve  (X06)  a REAL `kad::Behaviour<MemoryStore>` serving inbound PUT_VALUE / GET_VALUE / ADD_PROVIDER /
//!                 GET_PROVIDERS requests, interleaved with local store operations, store projected after every op
mod serve;

fn main() {
    let a = vcommon::Args::parse();
    match a.mode.as_str() {
        "serve" => serve::main(&a),
        m => {
            eprintln!("unknown mode {m}");
            std::process::exit(2)
        }
    }
}
