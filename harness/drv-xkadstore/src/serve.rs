//! X06: a REAL `kad::Behaviour<MemoryStore>` (small store limits) fed with the handler events of inbound requests
//! (`HandlerEvent::{PutRecord, GetRecord, AddProvider, GetProvidersReq}` through the public
//! `NetworkBehaviour::on_connection_handler_event`), interleaved with local store operations through
//! `store_mut()`. After every op the behaviour is drained (InboundRequest events, replies to the handler) and the
//! whole store is projected (records, providers of every key, provided()).
//!
//! Time: no clock control. All instants are reported in milliseconds relative to the start of the run; every op
//! reports `t0` (floor of an instant taken before the call) and `t1` (ceiling of one taken after), so the
//! specification can bound every expiry the code computes from `Instant::now()`. Expired records are planted with
//! an expiry seconds in the past (received expired records, or local puts standing for "time has passed").
//!
//! Schedule: {"maxrec","maxval","maxprov","maxpk","ttl","pttl" (s, 0 = none),"filt","k","rt":[peer..],"ops":[op..]}
//!   put  from key size tag pub exp      inbound PUT_VALUE (pub: -1 none, 0 local; exp: seconds from now, 0 = none)
//!   get  from key                       inbound GET_VALUE
//!   addp from key prov                  inbound ADD_PROVIDER
//!   getp from key                       inbound GET_PROVIDERS
//!   lput key size tag exp | lrem key | laddp key prov exp | lremp key prov      local store operations
//!   bput key size tag exp | brem key | bprov key | bstop key      Behaviour::put_record / remove_record / start_providing / stop_providing
use std::{
    num::NonZeroUsize,
    task::Poll,
    time::{Duration, Instant},
};

use libp2p_core::Multiaddr;
use libp2p_identity::PeerId;
use libp2p_kad::{
    store::{MemoryStore, MemoryStoreConfig, RecordStore},
    verif::{HandlerEvent, HandlerIn, RequestId},
    Behaviour, Config, ConnectionType, Event, InboundRequest, KBucketKey, KadPeer, ProviderRecord, Quorum, Record, RecordKey, StoreInserts,
};
use libp2p_swarm::{ConnectionId, NetworkBehaviour, NotifyHandler, StreamProtocol, ToSwarm};
use rand::Rng;
use vcommon::{exec::Det, json, Out, Value};

const NKEYS: u64 = 4;

fn peer(i: u64) -> PeerId {
    PeerId::from_bytes(&[0x00, 0x04, b'x', b'k', (i >> 8) as u8, i as u8]).expect("identity multihash peer id")
}
fn abs_peer(p: &PeerId) -> i64 {
    (0..64).find(|i| &peer(*i) == p).map(|i| i as i64).unwrap_or(-1)
}
thread_local! {
    /// key 3 of a run with routing-table peers: the bytes of the first such peer's id, so that the record key and
    /// that peer have the SAME position in the key space (distance to the local node equal, not just close)
    static KEY3: std::cell::RefCell<Option<Vec<u8>>> = const { std::cell::RefCell::new(None) };
}
fn key(k: u64) -> RecordKey {
    if k == 3 {
        if let Some(b) = KEY3.with(|c| c.borrow().clone()) {
            return RecordKey::new(&b);
        }
    }
    RecordKey::new(&[b'k', k as u8])
}
fn abs_key(k: &RecordKey) -> i64 {
    (0..16).find(|i| &key(*i) == k).map(|i| i as i64).unwrap_or(-1)
}
fn addr_of(i: u64) -> Multiaddr {
    format!("/ip4/10.1.{}.{}/tcp/4001", i / 250, i % 250 + 1).parse().unwrap()
}

fn ms_floor(t: Instant, base: Instant) -> i64 {
    if t >= base {
        (t - base).as_millis() as i64
    } else {
        let d = base - t;
        let m = d.as_millis() as i64;
        if Duration::from_millis(m as u64) < d {
            -(m + 1)
        } else {
            -m
        }
    }
}
fn ms_ceil(t: Instant, base: Instant) -> i64 {
    -ms_floor_neg(t, base)
}
/// floor of (base - t) in ms
fn ms_floor_neg(t: Instant, base: Instant) -> i64 {
    if base >= t {
        (base - t).as_millis() as i64
    } else {
        let d = t - base;
        let m = d.as_millis() as i64;
        if Duration::from_millis(m as u64) < d {
            -(m + 1)
        } else {
            -m
        }
    }
}
fn at(base: Instant, secs: i64) -> Instant {
    if secs >= 0 {
        base + Duration::from_secs(secs as u64)
    } else {
        base - Duration::from_secs((-secs) as u64)
    }
}

fn xor(a: &[u8], b: &[u8]) -> [u8; 32] {
    let mut o = [0u8; 32];
    for i in 0..32 {
        o[i] = a[i] ^ b[i];
    }
    o
}
/// index (0 = least significant) of the highest set bit
fn msb(d: &[u8; 32]) -> Option<usize> {
    for (i, b) in d.iter().enumerate() {
        if *b != 0 {
            return Some((31 - i) * 8 + (7 - b.leading_zeros() as usize));
        }
    }
    None
}
fn bit(d: &[u8; 32], i: usize) -> bool {
    d[31 - i / 8] >> (i % 8) & 1 == 1
}

struct Rig {
    b: Behaviour<MemoryStore>,
    base: Instant,
    rt: Vec<u64>,
    next_req: u64,
}

#[derive(Default)]
struct Drained {
    reqs: Vec<InboundRequest>,
    replies: Vec<(PeerId, Option<ConnectionId>, HandlerIn)>,
    other: u64,
}

impl Rig {
    fn new(s: &Value) -> Rig {
        let n = |f: &str, d: i64| s.get(f).and_then(|v| v.as_i64()).unwrap_or(d);
        let mut cfg = Config::new(StreamProtocol::new("/ipfs/kad/1.0.0"));
        let ttl = n("ttl", 0);
        let pttl = n("pttl", 0);
        cfg.set_record_ttl(if ttl > 0 { Some(Duration::from_secs(ttl as u64)) } else { None });
        cfg.set_provider_record_ttl(if pttl > 0 { Some(Duration::from_secs(pttl as u64)) } else { None });
        cfg.set_record_filtering(if s.get("filt").and_then(|v| v.as_bool()).unwrap_or(false) { StoreInserts::FilterBoth } else { StoreInserts::Unfiltered });
        cfg.set_replication_factor(NonZeroUsize::new(n("k", 1).clamp(1, 20) as usize).unwrap());
        let sc = MemoryStoreConfig {
            max_records: n("maxrec", 2) as usize,
            max_value_bytes: n("maxval", 8) as usize,
            max_providers_per_key: n("maxprov", 2) as usize,
            max_provided_keys: n("maxpk", 2) as usize,
        };
        let mut b = Behaviour::with_config(peer(0), MemoryStore::with_config(peer(0), sc), cfg);
        let rt: Vec<u64> = s["rt"].as_array().map(|v| v.iter().filter_map(|x| x.as_u64()).collect()).unwrap_or_default();
        KEY3.with(|c| *c.borrow_mut() = rt.first().map(|i| peer(*i).to_bytes()));
        for i in &rt {
            b.add_address(&peer(*i), addr_of(*i));
        }
        let mut r = Rig { b, base: Instant::now(), rt, next_req: 1 };
        r.drain();
        r
    }

    fn drain(&mut self) -> Drained {
        let det = Det::new();
        let mut d = Drained::default();
        for _ in 0..10_000 {
            let mut cx = det.cx();
            match self.b.poll(&mut cx) {
                Poll::Pending => break,
                Poll::Ready(ToSwarm::GenerateEvent(Event::InboundRequest { request })) => d.reqs.push(request),
                Poll::Ready(ToSwarm::NotifyHandler { peer_id, handler, event }) => {
                    let c = match handler {
                        NotifyHandler::One(c) => Some(c),
                        NotifyHandler::Any => None,
                    };
                    d.replies.push((peer_id, c, event));
                }
                Poll::Ready(_) => d.other += 1,
            }
        }
        d
    }

    /// (nodes "between" as kbucket.rs documents it: backtracking from the target towards the local key;
    ///  nodes of the routing table strictly closer to the target than the local node)
    fn between(&self, k: &RecordKey) -> (usize, usize) {
        let local = KBucketKey::from(peer(0));
        let target = KBucketKey::new(k.clone());
        let dist = xor(target.hashed_bytes(), local.hashed_bytes());
        let Some(top) = msb(&dist) else { return (0, 0) };
        let (mut between, mut closer) = (0, 0);
        for i in &self.rt {
            let nk = KBucketKey::from(peer(*i));
            let dn = xor(nk.hashed_bytes(), local.hashed_bytes());
            let dt = xor(nk.hashed_bytes(), target.hashed_bytes());
            if dt < dist {
                closer += 1;
            }
            let Some(bn) = msb(&dn) else { continue };
            if top != 0 && ((bn == top && dn <= dist) || (bn < top && bn != 0 && bit(&dist, bn))) {
                between += 1;
            }
        }
        (between, closer)
    }

    fn exp_json(&self, e: Option<Instant>) -> (bool, i64) {
        (e.is_some(), e.map(|t| ms_floor(t, self.base)).unwrap_or(0))
    }
    fn rec_json(&self, r: &Record) -> Value {
        let (eh, ex) = self.exp_json(r.expires);
        json!([abs_key(&r.key), r.value.first().copied().unwrap_or(0), r.value.len(), r.publisher.as_ref().map(abs_peer).unwrap_or(-1), if eh { 1 } else { 0 }, ex])
    }

    fn project(&mut self, ev: &mut Value) {
        let mut recs: Vec<Record> = self.b.store_mut().records().map(|r| r.into_owned()).collect();
        recs.sort_by_key(|r| abs_key(&r.key));
        ev["recs"] = json!(recs.iter().map(|r| self.rec_json(r)).collect::<Vec<_>>());
        let mut provs = vec![];
        for k in 0..NKEYS {
            let mut ps = self.b.store_mut().providers(&key(k));
            ps.sort_by_key(|p| abs_peer(&p.provider));
            for p in ps {
                let (eh, ex) = self.exp_json(p.expires);
                provs.push(json!([k, abs_peer(&p.provider), if eh { 1 } else { 0 }, ex]));
            }
        }
        ev["provs"] = json!(provs);
        let mut provided: Vec<(i64, i64, i64, i64)> = self
            .b
            .store_mut()
            .provided()
            .map(|p| {
                let e = p.expires;
                (abs_key(&p.key), abs_peer(&p.provider), if e.is_some() { 1 } else { 0 }, e.map(|t| ms_floor(t, self.base)).unwrap_or(0))
            })
            .collect();
        provided.sort();
        ev["provided"] = json!(provided.iter().map(|(k, p, eh, ex)| json!([k, p, eh, ex])).collect::<Vec<_>>());
    }

    fn step(&mut self, op: &Value) -> Value {
        let a = vcommon::s(op, "a");
        let g = |f: &str| op.get(f).and_then(|v| v.as_i64()).unwrap_or(0);
        let from = g("from") as u64;
        let k = (g("key") as u64) % NKEYS;
        let conn = ConnectionId::new_unchecked(100 + from as usize);
        let rid = self.next_req;
        let request_id = RequestId::verif_new(rid);
        let mut ev = json!({"e": a.clone(), "from": from, "key": k});
        let now0 = Instant::now();
        match a.as_str() {
            "put" => {
                self.next_req += 1;
                let (size, tag, publ, exp) = (g("size").max(0) as usize, g("tag") as u8, g("pub"), g("exp"));
                let mut rec = Record::new(key(k), vec![tag; size]);
                rec.publisher = if publ >= 0 { Some(peer(publ as u64)) } else { None };
                rec.expires = if exp != 0 { Some(at(now0, exp)) } else { None };
                let (eh, ex) = self.exp_json(rec.expires);
                let (bt, cl) = self.between(&rec.key);
                ev["size"] = json!(size);
                ev["tag"] = json!(tag);
                ev["pub"] = json!(publ);
                ev["rh"] = json!(if eh { 1 } else { 0 });
                ev["rexp"] = json!(ex);
                ev["between"] = json!(bt);
                ev["closer"] = json!(cl);
                self.b.on_connection_handler_event(peer(from), conn, HandlerEvent::PutRecord { record: rec, request_id });
            }
            "get" => {
                self.next_req += 1;
                self.b.on_connection_handler_event(peer(from), conn, HandlerEvent::GetRecord { key: key(k), request_id });
            }
            "addp" => {
                let p = g("prov") as u64;
                ev["prov"] = json!(p);
                let kp = KadPeer { node_id: peer(p), multiaddrs: vec![addr_of(p)], connection_ty: ConnectionType::Connected };
                self.b.on_connection_handler_event(peer(from), conn, HandlerEvent::AddProvider { key: key(k), provider: kp });
            }
            "getp" => {
                self.next_req += 1;
                self.b.on_connection_handler_event(peer(from), conn, HandlerEvent::GetProvidersReq { key: key(k), request_id });
            }
            "lput" => {
                let (size, tag, exp) = (g("size").max(0) as usize, g("tag") as u8, g("exp"));
                let mut rec = Record::new(key(k), vec![tag; size]);
                rec.publisher = Some(peer(0));
                rec.expires = if exp != 0 { Some(at(now0, exp)) } else { None };
                let (eh, ex) = self.exp_json(rec.expires);
                ev["size"] = json!(size);
                ev["tag"] = json!(tag);
                ev["rh"] = json!(if eh { 1 } else { 0 });
                ev["rexp"] = json!(ex);
                ev["res"] = json!(self.b.store_mut().put(rec).is_ok());
            }
            "lrem" => self.b.store_mut().remove(&key(k)),
            "laddp" => {
                let (p, exp) = (g("prov") as u64, g("exp"));
                let mut pr = ProviderRecord::new(key(k), peer(p), if p == 0 { vec![] } else { vec![addr_of(p)] });
                pr.expires = if exp != 0 { Some(at(now0, exp)) } else { None };
                let (eh, ex) = self.exp_json(pr.expires);
                ev["prov"] = json!(p);
                ev["rh"] = json!(if eh { 1 } else { 0 });
                ev["rexp"] = json!(ex);
                ev["res"] = json!(self.b.store_mut().add_provider(pr).is_ok());
            }
            "lremp" => {
                let p = g("prov") as u64;
                ev["prov"] = json!(p);
                self.b.store_mut().remove_provider(&key(k), &peer(p));
            }
            // the application's own calls on the Behaviour (they also start queries, whose traffic is ignored here)
            "bput" => {
                let (size, tag, exp) = (g("size").max(0) as usize, g("tag") as u8, g("exp"));
                let mut rec = Record::new(key(k), vec![tag; size]);
                rec.publisher = Some(peer(7)); // overwritten with the local node by put_record
                rec.expires = if exp != 0 { Some(at(now0, exp)) } else { None };
                let (eh, ex) = self.exp_json(rec.expires);
                ev["size"] = json!(size);
                ev["tag"] = json!(tag);
                ev["rh"] = json!(if eh { 1 } else { 0 });
                ev["rexp"] = json!(ex);
                ev["res"] = json!(self.b.put_record(rec, Quorum::One).is_ok());
            }
            "brem" => self.b.remove_record(&key(k)),
            "bprov" => ev["res"] = json!(self.b.start_providing(key(k)).is_ok()),
            "bstop" => self.b.stop_providing(&key(k)),
            _ => return json!({"e": "skip"}),
        }
        let now1 = Instant::now();
        ev["t0"] = json!(ms_floor(now0, self.base));
        ev["t1"] = json!(ms_ceil(now1, self.base));
        // what the behaviour emitted
        let d = self.drain();
        ev["other"] = json!(d.other);
        let mut reqs = vec![];
        for q in d.reqs {
            reqs.push(match q {
                InboundRequest::PutRecord { source, connection, record } => {
                    json!({"q": "put", "src": abs_peer(&source), "conn_ok": connection == conn, "has": record.is_some(), "rec": record.as_ref().map(|r| self.rec_json(r)).unwrap_or(json!([]))})
                }
                InboundRequest::GetRecord { num_closer_peers, present_locally } => json!({"q": "get", "nc": num_closer_peers, "present": present_locally}),
                InboundRequest::AddProvider { record } => {
                    let r = record.as_ref().map(|p| {
                        let (eh, ex) = self.exp_json(p.expires);
                        json!([abs_key(&p.key), abs_peer(&p.provider), if eh { 1 } else { 0 }, ex])
                    });
                    json!({"q": "addp", "has": record.is_some(), "rec": r.unwrap_or(json!([]))})
                }
                InboundRequest::GetProvider { num_closer_peers, num_provider_peers } => json!({"q": "getp", "nc": num_closer_peers, "np": num_provider_peers}),
                InboundRequest::FindNode { .. } => json!({"q": "findnode"}),
            });
        }
        ev["reqs"] = json!(reqs);
        let mut replies = vec![];
        for (p, c, h) in d.replies {
            let to_ok = p == peer(from) && c == Some(conn);
            replies.push(match h {
                HandlerIn::PutRecordRes { key: rk, value, request_id: r } => {
                    json!({"r": "putres", "to_ok": to_ok, "id_ok": r == request_id, "key": abs_key(&rk), "size": value.len()})
                }
                HandlerIn::Reset(r) => json!({"r": "reset", "to_ok": to_ok, "id_ok": r == request_id}),
                HandlerIn::GetRecordRes { record, closer_peers, request_id: r } => json!({
                    "r": "getres", "to_ok": to_ok, "id_ok": r == request_id, "has": record.is_some(),
                    "rec": record.as_ref().map(|x| self.rec_json(x)).unwrap_or(json!([])),
                    "closer": closer_peers.iter().map(|p| abs_peer(&p.node_id)).collect::<Vec<_>>()}),
                HandlerIn::GetProvidersRes { closer_peers, provider_peers, request_id: r } => json!({
                    "r": "getpres", "to_ok": to_ok, "id_ok": r == request_id,
                    "provs": provider_peers.iter().map(|p| abs_peer(&p.node_id)).collect::<Vec<_>>(),
                    "closer": closer_peers.iter().map(|p| abs_peer(&p.node_id)).collect::<Vec<_>>()}),
                _ => json!({"r": "other", "to_ok": to_ok, "id_ok": false}),
            });
        }
        ev["replies"] = json!(replies);
        self.project(&mut ev);
        ev
    }
}

fn run_fixed(out: &mut Out, sched: &Value) {
    let mut cfg = sched.clone();
    if let Some(o) = cfg.as_object_mut() {
        o.remove("ops");
    }
    for (f, d) in [("maxrec", 2), ("maxval", 8), ("maxprov", 2), ("maxpk", 2), ("ttl", 0), ("pttl", 0), ("k", 1)] {
        if cfg.get(f).is_none() {
            cfg[f] = json!(d);
        }
    }
    if cfg.get("filt").is_none() {
        cfg["filt"] = json!(false);
    }
    if cfg.get("rt").is_none() {
        cfg["rt"] = json!([]);
    }
    out.reset_with(cfg.clone(), sched);
    let r = vcommon::guard(|| {
        let mut rig = Rig::new(&cfg);
        let mut evs = vec![];
        for op in sched["ops"].as_array().cloned().unwrap_or_default() {
            match vcommon::guard(|| rig.step(&op)) {
                Ok(v) => evs.push(v),
                Err(m) => {
                    evs.push(json!({"e": "panic", "msg": m, "op": op}));
                    break;
                }
            }
        }
        evs
    });
    match r {
        Ok(evs) => evs.into_iter().for_each(|e| out.ev(e)),
        Err(m) => out.ev(json!({"e": "panic", "msg": m})),
    }
}

const EXPS: [i64; 6] = [0, -7, -3600, 40, 600, 86400];

fn gen_random(rng: &mut rand::rngs::StdRng) -> Value {
    let maxval = rng.gen_range(2..=6);
    let nrt = if rng.gen_bool(0.5) { 0 } else { rng.gen_range(1..=8) };
    let mut rt: Vec<u64> = vec![];
    while rt.len() < nrt {
        let p = rng.gen_range(1..40u64);
        if !rt.contains(&p) {
            rt.push(p);
        }
    }
    let ttls = [0i64, 1, 2, 64, 600, 4096, 36000];
    let mut ops = vec![];
    let nkeys = rng.gen_range(2..=NKEYS) as i64;
    let froms: Vec<i64> = if rt.is_empty() || rng.gen_bool(0.5) { vec![1, 2, 3] } else { vec![1, 2, rt[0] as i64] };
    for _ in 0..rng.gen_range(4..=40) {
        let from = froms[rng.gen_range(0..froms.len())];
        let k = rng.gen_range(0..nkeys);
        let exp = EXPS[rng.gen_range(0..EXPS.len())];
        let size = rng.gen_range(0..=maxval + 1);
        let tag = rng.gen_range(1..=3);
        ops.push(match rng.gen_range(0..100) {
            0..=24 => json!({"a": "put", "from": from, "key": k, "size": size, "tag": tag, "pub": ([-1i64, 0, 1, 2, 5][rng.gen_range(0..5)]), "exp": exp}),
            25..=44 => json!({"a": "get", "from": from, "key": k}),
            45..=59 => json!({"a": "addp", "from": from, "key": k, "prov": if rng.gen_bool(0.8) { from } else { rng.gen_range(0..4) }}),
            60..=74 => json!({"a": "getp", "from": from, "key": k}),
            75..=82 => json!({"a": "lput", "key": k, "size": size, "tag": tag, "exp": exp}),
            83..=85 => json!({"a": "lrem", "key": k}),
            86..=91 => json!({"a": "laddp", "key": k, "prov": rng.gen_range(0..5), "exp": exp}),
            92..=93 => json!({"a": "lremp", "key": k, "prov": rng.gen_range(0..5)}),
            94..=95 => json!({"a": "bput", "key": k, "size": size, "tag": tag, "exp": exp}),
            96 => json!({"a": "brem", "key": k}),
            97..=98 => json!({"a": "bprov", "key": k}),
            _ => json!({"a": "bstop", "key": k}),
        });
    }
    json!({
        "maxrec": rng.gen_range(1..=3), "maxval": maxval, "maxprov": rng.gen_range(1..=3), "maxpk": rng.gen_range(1..=3),
        "ttl": ttls[rng.gen_range(0..ttls.len())], "pttl": ttls[rng.gen_range(0..ttls.len())],
        "filt": rng.gen_bool(0.3), "k": rng.gen_range(1..=3), "rt": rt, "ops": ops
    })
}

/// all op sequences of length n over a small alphabet, every limit 1, one configuration per (filt, ttl)
fn exhaustive(out: &mut Out, n: usize) {
    let alphabet: Vec<Value> = vec![
        json!({"a": "put", "from": 1, "key": 0, "size": 1, "tag": 1, "pub": 1, "exp": 0}),
        json!({"a": "put", "from": 2, "key": 0, "size": 1, "tag": 2, "pub": -1, "exp": 40}),
        json!({"a": "put", "from": 1, "key": 1, "size": 1, "tag": 3, "pub": 2, "exp": -7}),
        json!({"a": "put", "from": 1, "key": 1, "size": 2, "tag": 1, "pub": 0, "exp": 0}),
        json!({"a": "put", "from": 2, "key": 1, "size": 3, "tag": 2, "pub": 1, "exp": 600}),
        json!({"a": "get", "from": 1, "key": 0}),
        json!({"a": "get", "from": 2, "key": 1}),
        json!({"a": "lput", "key": 0, "size": 1, "tag": 3, "exp": -7}),
        json!({"a": "lput", "key": 1, "size": 1, "tag": 3, "exp": 40}),
        json!({"a": "addp", "from": 1, "key": 0, "prov": 1}),
        json!({"a": "addp", "from": 2, "key": 0, "prov": 2}),
        json!({"a": "addp", "from": 2, "key": 1, "prov": 1}),
        json!({"a": "getp", "from": 1, "key": 0}),
        json!({"a": "getp", "from": 3, "key": 0}),
        json!({"a": "laddp", "key": 0, "prov": 0, "exp": 0}),
        json!({"a": "laddp", "key": 0, "prov": 2, "exp": -7}),
        json!({"a": "laddp", "key": 1, "prov": 0, "exp": -7}),
        json!({"a": "lremp", "key": 0, "prov": 0}),
        json!({"a": "bprov", "key": 0}),
        json!({"a": "bstop", "key": 0}),
        json!({"a": "bput", "key": 0, "size": 1, "tag": 2, "exp": 0}),
        json!({"a": "brem", "key": 0}),
    ];
    let cfgs = [(false, 0i64), (false, 600), (true, 600)];
    let mut idx = vec![0usize; n];
    loop {
        let ops: Vec<Value> = idx.iter().map(|i| alphabet[*i].clone()).collect();
        for (filt, ttl) in cfgs {
            let s = json!({"maxrec": 1, "maxval": 3, "maxprov": 1, "maxpk": 1, "ttl": ttl, "pttl": ttl, "filt": filt, "k": 1, "rt": [], "ops": ops});
            run_fixed(out, &s);
        }
        let mut p = 0;
        loop {
            if p == n {
                return;
            }
            idx[p] += 1;
            if idx[p] < alphabet.len() {
                break;
            }
            idx[p] = 0;
            p += 1;
        }
    }
}

pub fn main(a: &vcommon::Args) {
    vcommon::quiet_panics();
    match a.get(0) {
        "replay" => {
            let scheds = vcommon::read_schedules(a.get(1));
            let mut out = Out::create(a.get(2));
            for s in &scheds {
                run_fixed(&mut out, s);
            }
            println!("runs={} events={}", out.run, out.events);
            out.finish();
        }
        // exhaustive <len> <out>
        "exhaustive" => {
            let mut out = Out::create(a.get(2));
            exhaustive(&mut out, a.num(1) as usize);
            println!("runs={} events={}", out.run, out.events);
            out.finish();
        }
        // random <seed> <runs> <out>
        "random" => {
            let mut rng = vcommon::rng(a.num(1) ^ 0x6ad);
            let mut out = Out::create(a.get(3));
            for _ in 0..a.num(2) {
                let s = gen_random(&mut rng);
                run_fixed(&mut out, &s);
            }
            println!("runs={} events={}", out.run, out.events);
            out.finish();
        }
        m => panic!("serve mode {m}"),
    }
}
